#!/bin/bash
# run_all.sh <tag> <seed> <tier> [ids...]: run checks against /repo with build dir build/<tag>, evidence/replays under
# /var/tmp/runall-<tag>; prints one line per check.  With tag "default" the default configuration is used (evidence refreshed).
TAG=$1; SEED=$2; TIER=$3; shift 3
IDS=${@:-C01 C02 C03 C04 C05 C06 C07 C08 C09 C10 C11 C12 C13 C14 C15 C16 C17 C18 C19 C20}
cd /verif
O=/var/tmp/runall-$TAG; mkdir -p $O
for id in $IDS; do
  if [ "$TAG" = default ]; then
    VERIF_SEED=$SEED ./check $id --tier $TIER > $O/$id.txt 2>&1; rc=$?
  else
    VERIF_SEED=$SEED VERIF_BUILD=/verif/build/$TAG VERIF_EVIDENCE=$O/evidence VERIF_REPLAYS=$O/replays ./check $id --tier $TIER > $O/$id.txt 2>&1; rc=$?
  fi
  echo "$TAG seed=$SEED $id exit=$rc viol=$(grep -c '^VIOLATION' $O/$id.txt) known=$(grep -c '^KNOWN-FINDING' $O/$id.txt) $(tail -1 $O/$id.txt | cut -c1-120)"
done
