"""Entry point:  check.py <ID> [--tier quick|thorough] [--replay path]"""
from __future__ import annotations

import argparse
import importlib
import os
import sys
import traceback

sys.path.insert(0, os.path.dirname(os.path.abspath(__file__)))
import logging
import warnings
logging.disable(logging.WARNING)
warnings.simplefilter("ignore")
import vlib  # noqa: E402


def main() -> int:
    ap = argparse.ArgumentParser()
    ap.add_argument("pid")
    ap.add_argument("--tier", default=os.environ.get("VERIF_TIER", "quick"), choices=["quick", "thorough"])
    ap.add_argument("--replay", default=None)
    a = ap.parse_args()
    seed = int(os.environ.get("VERIF_SEED", "0") or 0)
    mod = importlib.import_module(f"props.{a.pid}")
    if a.replay:
        return mod.replay(a.replay)
    ctx = vlib.Ctx(a.pid, a.tier, seed)
    try:
        return mod.check(ctx)
    except Exception:  # a crashing check is a broken check: say so loudly, never exit 0
        traceback.print_exc()
        ctx.broken.append("check crashed: " + traceback.format_exc()[-800:])
        return vlib.finish(ctx, "", [], [], "check crashed before completing") or 1


if __name__ == "__main__":
    sys.exit(main())
