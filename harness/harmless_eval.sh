#!/bin/bash
# harmless_eval.sh <N> <checks...>: run the given checks against each behaviour-preserving refactoring
# seeded/harmless/<N>_<k>/patch.diff (k = 1..4; patch_rebased.diff preferred); a VIOLATION line here is a FALSE ALARM.
set -u
N=$1; shift; CHECKS="$@"
for k in 1 2 3 4; do
  OUT=/verif/seeded/${HARMLESS_DIR:-harmless}/${N}_$k; [ -f $OUT/patch.diff ] || continue
  S=/var/tmp/pd-${HARMLESS_DIR:-harmless}-${N}_$k; rm -rf $S; cp -r /repo $S
  PP=$OUT/patch.diff; [ -f $OUT/patch_rebased.diff ] && PP=$OUT/patch_rebased.diff
  git -C $S apply $PP || { echo "${N}_$k: patch does not apply"; rm -rf $S; continue; }
  RES=""
  for c in $CHECKS; do
    (cd /verif; VERIF_REPO=$S VERIF_BUILD=/verif/build/${HARMLESS_DIR:-harmless}_${N}_$k VERIF_EVIDENCE=$OUT/evidence VERIF_REPLAYS=$OUT/replays ./check $c > $OUT/check_$c.txt 2>&1)
    rc=$?; nv=$(grep -c "^VIOLATION" $OUT/check_$c.txt)
    RES="$RES $c:exit=$rc,viol=$nv"
  done
  rm -rf $S /verif/build/${HARMLESS_DIR:-harmless}_${N}_$k
  echo "${N}_$k:$RES" | tee $OUT/result.txt
done
