"""Shared code of the C04 / C05 checks: JSON-able specs of grids, droplets, images and refinement cases;
instrumentation of `scipy.optimize.least_squares` / `scipy.ndimage.binary_dilation` AS SEEN FROM
`droplets.image_analysis` (proxy objects assigned to the module attributes `optimize` / `ndimage`; scipy itself
is never patched); the independent recomputation of the fit region and of the squared deviation; generators;
the Coq literals of the correspondence cases; known-finding matching."""
from __future__ import annotations

import copy
import math
import random

import logging

import numpy as np

import vlib

logging.getLogger("droplets").setLevel(logging.ERROR)   # amplitude-count hints of the perturbed classes

CLASSES = ["SphericalDroplet", "DiffuseDroplet", "PerturbedDroplet2D", "PerturbedDroplet3D",
           "PerturbedDroplet3DAxisSym"]
COQ_CLASS = {"SphericalDroplet": "RSpherical", "DiffuseDroplet": "RDiffuse", "PerturbedDroplet2D": "RP2D",
             "PerturbedDroplet3D": "RP3D", "PerturbedDroplet3DAxisSym": "RP3DAxi"}
FAMILIES = ["cart1", "cart2", "cart3", "polar", "spherical", "cylindrical"]


# =========================================================================================
# specs -> objects
# =========================================================================================
def make_grid(gs: dict):
    from pde import CartesianGrid, CylindricalSymGrid, PolarSymGrid, SphericalSymGrid
    fam = gs["family"]
    if fam == "cartesian":
        return CartesianGrid([tuple(b) for b in gs["bounds"]], list(gs["shape"]), periodic=list(gs["periodic"]))
    if fam == "polar":
        return PolarSymGrid(tuple(gs["radius"]), gs["shape"])
    if fam == "spherical":
        return SphericalSymGrid(tuple(gs["radius"]), gs["shape"])
    if fam == "cylindrical":
        return CylindricalSymGrid(gs["radius"], tuple(gs["bounds_z"]), list(gs["shape"]), periodic_z=gs["periodic_z"])
    raise ValueError(fam)


def grid_dim(gs: dict) -> int:
    if gs["family"] == "cartesian":
        return len(gs["shape"])
    return {"polar": 2, "spherical": 3, "cylindrical": 3}[gs["family"]]


def grid_axes(gs: dict):
    """[(lo, hi, n, periodic)] per GRID axis (what normalize_point works on)"""
    fam = gs["family"]
    if fam == "cartesian":
        return [(b[0], b[1], n, bool(p)) for b, n, p in zip(gs["bounds"], gs["shape"], gs["periodic"])]
    if fam in ("polar", "spherical"):
        return [(gs["radius"][0], gs["radius"][1], gs["shape"], False)]
    return [(0.0, gs["radius"], gs["shape"][0], False),
            (gs["bounds_z"][0], gs["bounds_z"][1], gs["shape"][1], bool(gs["periodic_z"]))]


def grid_constraints(gs: dict) -> list[int]:
    """py-pde 0.58.0 `grid.coordinate_constraints` (checked against the grid object in run_refine)"""
    return {"cartesian": [], "polar": [0, 1], "spherical": [0, 1, 2], "cylindrical": [0, 1]}[gs["family"]]


def family_name(gs: dict) -> str:
    return f"cart{len(gs['shape'])}" if gs["family"] == "cartesian" else gs["family"]


def make_droplet(ds: dict):
    import droplets.droplets as dd
    cls = getattr(dd, ds["cls"])
    pos = np.array(ds["position"], dtype=float)
    if ds["cls"] == "SphericalDroplet":
        return cls(pos, ds["radius"])
    if ds["cls"] == "DiffuseDroplet":
        return cls(pos, ds["radius"], ds.get("width"))
    amps = ds.get("amplitudes")
    return cls(pos, ds["radius"], ds.get("width"), list(amps) if amps else None)


def droplet_spec(d) -> dict:
    ds = {"cls": type(d).__name__, "position": [float(x) for x in d.position], "radius": float(d.radius)}
    if hasattr(d, "interface_width"):
        w = d.interface_width
        ds["width"] = None if w is None else float(w)
    if hasattr(d, "amplitudes"):
        ds["amplitudes"] = [float(a) for a in d.amplitudes]
    return ds


def flat_of(ds: dict) -> list[float]:
    """the flat data vector of a diffuse(-derived) droplet spec: position, radius, width, amplitudes"""
    return list(ds["position"]) + [ds["radius"], ds["width"]] + list(ds.get("amplitudes") or [])


def make_image(isp: dict, grid):
    """b + a * (clipped sum of the truth droplets' standard profiles) + sigma * normal noise, or a constant"""
    from pde import ScalarField
    if isp["kind"] == "const":
        return ScalarField(grid, float(isp["value"]))
    from droplets import Emulsion
    drops = [make_droplet(t) for t in isp["truth"]]
    if len(drops) == 1:
        data = drops[0].get_phase_field(grid).data
    else:
        data = Emulsion(drops).get_phasefield(grid).data
    data = isp.get("b", 0.0) + isp.get("a", 1.0) * np.asarray(data, float)
    if isp.get("sigma", 0.0) > 0:
        data = data + isp["sigma"] * np.random.default_rng(isp["nseed"]).standard_normal(data.shape)
    return ScalarField(grid, data)


# =========================================================================================
# instrumentation (module attributes of droplets.image_analysis only)
# =========================================================================================
class Instrument:
    """records every `optimize.least_squares` and `ndimage.binary_dilation` call made by droplets.image_analysis"""

    def __enter__(self):
        import droplets.image_analysis as ia
        self.ia, self.orig_opt, self.orig_nd = ia, ia.optimize, ia.ndimage
        self.calls: list[dict] = []
        self.dilations: list[dict] = []
        inst = self

        class OptProxy:
            def __getattr__(self, name):
                return getattr(inst.orig_opt, name)

            def least_squares(self, fun, x0, *args, **kw):
                bounds = kw["bounds"] if "bounds" in kw else (args[1] if len(args) > 1 else (-np.inf, np.inf))
                x0c = np.array(x0, dtype=float, copy=True)
                rec = {"x0": x0c, "lo": np.array(np.broadcast_to(bounds[0], x0c.shape), float, copy=True),
                       "hi": np.array(np.broadcast_to(bounds[1], x0c.shape), float, copy=True),
                       "extra_kw": sorted(k for k in kw if k != "bounds")}
                inst.calls.append(rec)
                try:
                    f0 = np.array(fun(x0c.copy()), dtype=float, copy=True)
                    rec["nres"], rec["cost0"] = int(f0.size), 0.5 * float(np.dot(f0, f0))
                except Exception as e:  # e.g. check_data on an infeasible start
                    rec["fun_error"] = f"{type(e).__name__}: {e}"
                res = inst.orig_opt.least_squares(fun, x0, *args, **kw)
                rec["x"] = np.array(res.x, dtype=float, copy=True)
                rec["cost"], rec["status"], rec["nfev"] = float(res.cost), int(res.status), int(res.nfev)
                fx = np.array(fun(rec["x"].copy()), dtype=float)
                rec["cost_at_x"] = 0.5 * float(np.dot(fx, fx))
                return res

        class NdProxy:
            def __getattr__(self, name):
                return getattr(inst.orig_nd, name)

            def binary_dilation(self, input, *args, **kw):
                out = inst.orig_nd.binary_dilation(input, *args, **kw)
                inst.dilations.append({"iterations": kw.get("iterations", args[2] if len(args) > 2 else 1),
                                       "seed_cells": int(np.sum(input)), "cells": int(np.sum(out)),
                                       "mask": np.array(out, dtype=bool, copy=True)})
                return out

        ia.optimize, ia.ndimage = OptProxy(), NdProxy()
        return self

    def __exit__(self, *a):
        self.ia.optimize, self.ia.ndimage = self.orig_opt, self.orig_nd


def exc_kind(e: BaseException) -> str:
    s = str(e)
    if isinstance(e, ValueError) and "Initial guess is outside" in s:
        return "Infeasible"
    if isinstance(e, ValueError) and "strictly less than" in s:
        return "BoundsNotStrict"
    if isinstance(e, ValueError) and "incompatible with grid" in s:
        return "DimMismatch"
    if isinstance(e, ValueError) and "zero-size array to reduction" in s:
        return "EmptyRegion"
    if isinstance(e, ValueError):
        return "ValueError"
    return f"Other:{type(e).__name__}"


# =========================================================================================
# the fit region and the squared deviation, recomputed independently of refine_droplet
# =========================================================================================
def promoted(ds: dict, grid) -> dict:
    """candidate after `DiffuseDroplet.from_droplet` (when it has no interface) and the default width"""
    out = copy.deepcopy(ds)
    if out["cls"] == "SphericalDroplet":
        out["cls"] = "DiffuseDroplet"
        out["width"] = None
    if out.get("width") is None:
        out["width"] = float(grid.typical_discretization)
    return out


def fit_region(ds_promoted: dict, grid) -> tuple[np.ndarray, int]:
    from scipy import ndimage
    d = make_droplet(ds_promoted)
    seed = d._get_phase_field(grid, dtype=bool)
    iterations = 1 + int(2 * ds_promoted["width"])
    return ndimage.binary_dilation(seed, iterations=iterations), iterations


def deviation(ds: dict, grid, region, image_data, vmin: float, vrng: float) -> float:
    """sum over the region of (vmin + vrng * profile - image)^2  (= 2 * least-squares cost)"""
    r = vmin + vrng * make_droplet(ds)._get_phase_field(grid)[region] - image_data[region]
    return float(np.dot(r, r))


# =========================================================================================
# one refinement, fully recorded
# =========================================================================================
def run_refine(case: dict) -> dict:
    """run refine_droplet on the case; returns a record with everything the model / the oracle need"""
    from droplets.image_analysis import refine_droplet
    grid = make_grid(case["grid"])
    assert list(grid.coordinate_constraints) == grid_constraints(case["grid"]), "py-pde constraints changed"
    image = make_image(case["image"], grid)
    before = np.array(image.data, copy=True)
    cand = make_droplet(case["candidate"])
    rec: dict = {"typical": float(grid.typical_discretization)}
    kw = {"vmin": case["vmin"], "vmax": case["vmax"], "adjust_values": case["adjust"]}
    if case.get("tolerance") is not None:
        kw["tolerance"] = case["tolerance"]
    with Instrument() as ins:
        try:
            out = refine_droplet(image, cand, **kw)
            rec["out"] = droplet_spec(out)
            rec["error"] = None
        except Exception as e:  # noqa
            rec["out"] = None
            rec["error"] = exc_kind(e)
            rec["error_message"] = f"{type(e).__name__}: {e}"[:200]
    rec["calls"], rec["dilations"] = ins.calls, ins.dilations
    rec["image_unchanged"] = bool(np.array_equal(before, image.data))
    rec["image"] = before
    # independent recomputation of region and intensity levels
    try:
        prom = promoted(case["candidate"], grid)
        region, iterations = fit_region(prom, grid)
        rec["promoted"], rec["region"], rec["iterations"] = prom, region, iterations
        dm = before[region]
        rec["dmin"], rec["dmax"] = (float(dm.min()), float(dm.max())) if dm.size else (None, None)
    except Exception as e:  # dimension mismatch etc.
        rec["promoted"], rec["region"], rec["iterations"] = None, None, None
        rec["dmin"] = rec["dmax"] = None
        rec["region_error"] = exc_kind(e)
    # the norm of the constrained coordinates as the final transform computes it
    cs = grid_constraints(case["grid"])
    if cs and rec["out"] is not None:
        rec["hyp"] = float(grid.transform(np.array(rec["out"]["position"], float), "cartesian", "grid")[0])
    else:
        rec["hyp"] = 0.0
    return rec


def effective_levels(case: dict, rec: dict):
    """given levels, else min / max of the image over the fit region, else (empty region) the defaults 0 / 1"""
    vmin = case["vmin"] if case["vmin"] is not None else (rec["dmin"] if rec["dmin"] is not None else 0.0)
    vmax = case["vmax"] if case["vmax"] is not None else (rec["dmax"] if rec["dmax"] is not None else 1.0)
    return vmin, vmax


# =========================================================================================
# oracle-spec checks of one recorded least_squares call
# =========================================================================================
def lsq_spec_failures(call: dict) -> list[str]:
    out = []
    if "x" not in call:
        return out  # the real optimiser raised: precondition, not spec
    x, lo, hi, x0 = call["x"], call["lo"], call["hi"], call["x0"]
    if not (np.all(lo <= x) and np.all(x <= hi)):
        out.append(f"result outside the bounds: x={x.tolist()} lo={lo.tolist()} hi={hi.tolist()}")
    if "cost0" in call:
        on_bound = bool(np.any(x0 <= lo) or np.any(x0 >= hi))
        # a start ON a bound is first moved inside by 1e-10 (scipy make_strictly_feasible): the reference cost is
        # that of the moved point; allow the first-order change 1e-6 * (cost0 + 1) there, exact comparison otherwise
        slack = 1e-6 * (call["cost0"] + 1.0) if on_bound else 0.0
        if not call["cost"] <= call["cost0"] + slack:
            out.append(f"cost increased: {call['cost0']!r} -> {call['cost']!r}")
        if not math.isclose(call["cost"], call["cost_at_x"], rel_tol=1e-12, abs_tol=1e-300):
            out.append(f"reported cost {call['cost']!r} is not the cost at the returned point {call['cost_at_x']!r}")
        if call["cost0"] == 0.0 and not on_bound and not np.array_equal(x, x0):
            out.append("zero-cost start was moved")
    return out


# =========================================================================================
# generators
# =========================================================================================
def dy(rng: random.Random, lo: float, hi: float, k: int = 6) -> float:
    s = 2 ** k
    return rng.randint(math.ceil(lo * s), math.floor(hi * s)) / s


def gen_grid(rng: random.Random, fam: str, big: bool = False) -> dict:
    """small grids (<= 16 cells per axis, 3-d <= 8); `big` (C05): up to 24 / 14 cells so that resolvable droplets fit"""
    if fam.startswith("cart"):
        d = int(fam[4])
        nmax = {1: 16, 2: 16, 3: 8}[d] if not big else {1: 32, 2: 24, 3: 14}[d]
        nmin = {1: 10, 2: 9, 3: 6}[d] if not big else {1: 20, 2: 18, 3: 12}[d]
        h0 = rng.choice([0.5, 1.0, 1.0, 0.75, 1.25, 2.0])
        bounds, shape = [], []
        for _ in range(d):
            n = rng.randint(nmin, nmax)
            h = h0 * rng.choice([1.0, 1.0, 1.0, 1.125, 0.875, 1.25])  # mildly anisotropic
            lo = dy(rng, -4, 4)
            bounds.append([lo, lo + n * h])
            shape.append(n)
        return {"family": "cartesian", "bounds": bounds, "shape": shape,
                "periodic": [rng.random() < 0.5 for _ in range(d)]}
    if fam in ("polar", "spherical"):
        n = rng.randint(10, 16) if not big else rng.randint(16, 24)
        h = rng.choice([0.5, 1.0, 0.75, 1.25])
        return {"family": fam, "radius": [0.0, n * h], "shape": n}
    nr = rng.randint(6, 10) if not big else rng.randint(10, 14)
    nz = rng.randint(10, 16) if not big else rng.randint(20, 28)
    h = rng.choice([0.5, 1.0, 0.75, 1.25])
    hz = h * rng.choice([1.0, 1.0, 1.125, 0.875])
    z0 = dy(rng, -4, 4)
    return {"family": "cylindrical", "radius": nr * h, "bounds_z": [z0, z0 + nz * hz], "shape": [nr, nz],
            "periodic_z": rng.random() < 0.5}


def spacing(gs: dict) -> list[float]:
    return [(hi - lo) / n for lo, hi, n, _ in grid_axes(gs)]


def classes_for(fam: str) -> list[str]:
    if fam == "cart1":
        return ["SphericalDroplet", "DiffuseDroplet"]
    if fam in ("cart2", "polar"):
        return ["SphericalDroplet", "DiffuseDroplet", "PerturbedDroplet2D"]
    if fam in ("cart3", "spherical"):
        return ["SphericalDroplet", "DiffuseDroplet", "PerturbedDroplet3D"]
    return ["SphericalDroplet", "DiffuseDroplet", "PerturbedDroplet3DAxisSym", "PerturbedDroplet3D"]


def gen_truth(rng: random.Random, gs: dict, cls: str, modes: int, resolvable: bool = False) -> dict:
    """a droplet on the grid: centre inside the box (anywhere incl. near the faces on periodic axes, at least radius +
    interface away from the faces otherwise when `resolvable`), on the symmetry locus of symmetric grids"""
    fam = gs["family"]
    hs = spacing(gs)
    hmean = sum(hs) / len(hs)
    axes = grid_axes(gs)
    ext = min(hi - lo for lo, hi, _, _ in axes)
    if resolvable:
        width = rng.uniform(1.0, 2.0) * hmean
        margin = 1.0 + 2 * width / hmean + 1.0  # cells needed beyond the radius on non-periodic axes
        rmax = ext / 2 - margin * max(hs) if fam != "cylindrical" else min(gs["radius"] - margin * max(hs),
                                                                             ext / 2 - margin * max(hs))
        if fam in ("polar", "spherical"):
            rmax = ext - margin * max(hs)
        radius = rng.uniform(3.0 * max(hs), max(3.0 * max(hs), rmax))
    else:
        width = rng.uniform(0.6, 2.0) * hmean
        radius = rng.uniform(1.5 * max(hs), max(2.0 * max(hs), ext / 3))
    if fam == "cartesian":
        pos = []
        for (lo, hi, n, per), h in zip(axes, hs):
            if per:
                pos.append(rng.uniform(lo, hi))
            elif not resolvable and rng.random() < 0.12:
                # centre outside a non-periodic face: the image shows a cut droplet, the fit ends outside the box
                pos.append(lo - rng.uniform(0.1, 1.5) * h if rng.random() < 0.5 else hi + rng.uniform(0.1, 1.5) * h)
            else:
                pad = (radius + 2 * width + 2 * h) if resolvable else min(radius, (hi - lo) / 3)
                a, b = lo + pad, hi - pad
                pos.append(rng.uniform(a, b) if a < b else (lo + hi) / 2)
    elif fam == "polar":
        pos = [0.0, 0.0]
    elif fam == "spherical":
        pos = [0.0, 0.0, 0.0]
    else:
        lo, hi, n, per = axes[1]
        if per:
            z = rng.uniform(lo, hi)
        elif not resolvable and rng.random() < 0.12:
            z = lo - rng.uniform(0.1, 1.5) * hs[1] if rng.random() < 0.5 else hi + rng.uniform(0.1, 1.5) * hs[1]
            pad = 0.0
        else:
            pad = (radius + 2 * width + 2 * hs[1]) if resolvable else min(radius, (hi - lo) / 3)
            z = rng.uniform(lo + pad, hi - pad) if lo + pad < hi - pad else (lo + hi) / 2
        pos = [0.0, 0.0, z]
    ds = {"cls": cls, "position": pos, "radius": radius}
    if cls != "SphericalDroplet":
        ds["width"] = width
    if cls.startswith("Perturbed"):
        ds["amplitudes"] = [rng.uniform(-0.12, 0.12) if rng.random() < 0.7 else 0.0 for _ in range(modes)]
    return ds


def gen_candidate(rng: random.Random, gs: dict, truth: dict, cls: str, modes: int, across: bool = True,
                  off_locus: bool = True, tiny: bool = True) -> dict:
    """the truth moved by up to a cell, radius / width off by up to 20 %, possibly written with a position outside the
    box on periodic axes; classes without width / with unset width exercise promotion and the default width"""
    hs = spacing(gs)
    axes = grid_axes(gs)
    fam = gs["family"]
    pos = list(truth["position"])
    if fam == "cartesian":
        for k, ((lo, hi, n, per), h) in enumerate(zip(axes, hs)):
            pos[k] += rng.uniform(-1, 1) * h
            if per and across and rng.random() < 0.3:
                pos[k] += rng.choice([-1, 1, 2]) * (hi - lo)
    elif fam == "cylindrical":
        lo, hi, n, per = axes[1]
        pos[2] += rng.uniform(-1, 1) * hs[1]
        if per and across and rng.random() < 0.3:
            pos[2] += rng.choice([-1, 1]) * (hi - lo)
    # candidates away from the symmetry locus of symmetric grids (the constrained coordinates must come back untouched)
    if fam != "cartesian" and cls != "PerturbedDroplet3DAxisSym" and off_locus and rng.random() < 0.4:
        for i in grid_constraints(gs):
            pos[i] = rng.choice([-1, 1]) * rng.uniform(0.05, 0.8) * hs[0]
    radius = max(truth["radius"] * rng.uniform(0.8, 1.2), 0.5 * max(hs))
    if tiny and rng.random() < 0.04:
        radius = 0.2 * min(hs)   # usually covers no cell centre: the fit region is empty (F23, fixed)
    ds = {"cls": cls, "position": pos, "radius": radius}
    if cls != "SphericalDroplet":
        w = truth.get("width") or (sum(hs) / len(hs))
        ds["width"] = None if rng.random() < 0.25 else w * rng.uniform(0.8, 1.25)
    if cls.startswith("Perturbed"):
        ds["amplitudes"] = [0.0 if rng.random() < 0.6 else rng.uniform(-0.1, 0.1) for _ in range(modes)]
    return ds


OPTION_GRID = [(gv, gx, adj) for gv in (True, False) for gx in (True, False) for adj in (False, True)]


def gen_image_spec(rng: random.Random, truth: dict, kind: str) -> dict:
    isp = {"kind": kind, "truth": [truth], "a": 1.0, "b": 0.0, "sigma": 0.0, "nseed": rng.randrange(1 << 30)}
    if kind == "noisy":
        isp["sigma"] = rng.choice([0.01, 0.05, 0.1])
    if kind == "affine":
        isp["a"] = rng.choice([0.5, 2.0, 3.0, 0.25, 1.5])
        isp["b"] = rng.choice([-1.0, 0.5, 5.0, 2.0, -0.25])
    if kind == "affine_noisy":
        isp["a"], isp["b"], isp["sigma"] = rng.choice([0.5, 2.0]), rng.choice([-1.0, 5.0]), 0.02
    return isp


def gen_case(rng: random.Random, k: int) -> dict:
    """k-th refinement case: families, classes, mode counts, image kinds and the 2x2x2 options are cycled so that
    every combination class appears; the rest is drawn from rng"""
    fam = FAMILIES[k % len(FAMILIES)]
    gs = gen_grid(rng, fam)
    cl = classes_for(fam)
    cls = cl[(k // len(FAMILIES)) % len(cl)]
    if cls == "PerturbedDroplet3D" and fam == "cylindrical":
        cls = rng.choice(["PerturbedDroplet3DAxisSym", "DiffuseDroplet"])
    modes = [0, 2, 3][(k // 7) % 3] if cls.startswith("Perturbed") else 0
    kind = ["clean", "noisy", "affine", "clean", "affine_noisy"][(k // 3) % 5]
    tcls = cls if cls != "SphericalDroplet" else "DiffuseDroplet"
    truth = gen_truth(rng, gs, tcls, modes)
    isp = gen_image_spec(rng, truth, kind)
    cand = gen_candidate(rng, gs, truth, cls, modes)
    gv, gx, adj = OPTION_GRID[(k // 5) % 8]
    a, b = isp["a"], isp["b"]
    vmin = (b if rng.random() < 0.7 else b - 0.1 * a) if gv else None
    vmax = (a + b if rng.random() < 0.7 else a + b + 0.1 * a) if gx else None
    return {"grid": gs, "image": isp, "candidate": cand, "vmin": vmin, "vmax": vmax, "adjust": adj}


def gen_fixed_point_case(rng: random.Random, k: int) -> dict:
    """image rendered from the candidate itself (levels supplied and equal to those of the image)"""
    fam = FAMILIES[k % len(FAMILIES)]
    gs = gen_grid(rng, fam)
    cl = [c for c in classes_for(fam) if c != "SphericalDroplet"]
    cls = cl[(k // len(FAMILIES)) % len(cl)]
    if cls == "PerturbedDroplet3D" and fam == "cylindrical":
        cls = "PerturbedDroplet3DAxisSym"
    modes = [2, 0, 3][(k // 5) % 3] if cls.startswith("Perturbed") else 0
    truth = gen_truth(rng, gs, cls, modes)
    isp = gen_image_spec(rng, truth, "affine" if k % 3 == 2 else "clean")
    return {"grid": gs, "image": isp, "candidate": copy.deepcopy(truth), "vmin": isp["b"], "vmax": isp["a"] + isp["b"],
            "adjust": bool(k % 2), "fixed_point": True}


# =========================================================================================
# Coq literals
# =========================================================================================
def qopt(x) -> str:
    return "None" if x is None else f"(Some {vlib.qlit(x)})"


def bound_lit(v: float) -> str:
    if math.isinf(v):
        return "PosInf" if v > 0 else "NegInf"
    return f"(Fin {vlib.qlit(v)})"


def grid_lit(gs: dict) -> str:
    fam = {"cartesian": "FCart", "polar": "FPolar", "spherical": "FSpher", "cylindrical": "FCyl"}[gs["family"]]
    axes = ["{| ncell := %s; alo := %s; ahi := %s; aper := %s |}" % (vlib.zlit(n), vlib.qlit(lo), vlib.qlit(hi), vlib.blit(p))
            for lo, hi, n, p in grid_axes(gs)]
    return "{| g_family := %s; g_axes := %s |}" % (fam, vlib.listlit(axes))


def droplet_lit(ds: dict) -> str:
    return ("{| d_cls := %s; d_pos := %s; d_rad := %s; d_width := %s; d_amp := %s |}"
            % (COQ_CLASS[ds["cls"]], vlib.listlit(ds["position"], vlib.qlit), vlib.qlit(ds["radius"]),
               qopt(ds.get("width")), vlib.listlit(ds.get("amplitudes") or [], vlib.qlit)))


def case_lit(case: dict, rec: dict) -> str | None:
    """Coq record of one recorded refinement, or None when the run cannot be expressed (non-finite data, an error
    outside the modelled enum)"""
    if rec["region"] is None:
        return None
    call = rec["calls"][0] if rec["calls"] else None
    vals = [rec["hyp"], rec["typical"]] + ([rec["dmin"], rec["dmax"]] if rec["dmin"] is not None else [])
    if call is not None:
        vals += list(call["x0"]) + list(call.get("x", []))
    if not all(math.isfinite(v) for v in vals):
        return None
    if rec["error"] is None:
        out = f"(ROk {droplet_lit(rec['out'])})"
    elif rec["error"] in ("Infeasible", "BoundsNotStrict", "DimMismatch", "EmptyRegion"):
        out = f"(RErr E{rec['error']})"
    else:
        return None
    if call is None:
        x0 = lo = hi = x = "[]"
        called = "false"
    else:
        x0 = vlib.listlit(call["x0"], vlib.qlit)
        lo = vlib.listlit(call["lo"], bound_lit)
        hi = vlib.listlit(call["hi"], bound_lit)
        x = vlib.listlit(call.get("x", call["x0"]), vlib.qlit)
        called = "true"
    stats = "None" if rec["dmin"] is None else f"(Some ({vlib.qlit(rec['dmin'])}, {vlib.qlit(rec['dmax'])}))"
    its = rec["dilations"][0]["iterations"] if rec["dilations"] else -1
    return ("{| rc_grid := %s; rc_cand := %s; rc_vmin := %s; rc_vmax := %s; rc_adjust := %s; rc_stats := %s; "
            "rc_x := %s; rc_hyp := %s; rc_called := %s; rc_x0 := %s; rc_lo := %s; rc_hi := %s; "
            "rc_iter := %s; rc_out := %s |}"
            % (grid_lit(case["grid"]), droplet_lit(case["candidate"]), qopt(case["vmin"]), qopt(case["vmax"]),
               vlib.blit(case["adjust"]), stats, x, vlib.qlit(rec["hyp"]),
               called, x0, lo, hi, vlib.zlit(int(its)), out))


CASE_HEADER = ("From Coq Require Import QArith ZArith List Bool.\nImport ListNotations.\n"
               "From PD Require Import Model.Grid Gen.Gen_refine Model.Refine.\nLocal Open Scope Q_scope.\n")


# =========================================================================================
# known findings
# =========================================================================================
def known_entry(prop: str, failure: str, **attrs):
    """the `finding` entry of known_findings.json (call refine_droplet / locate_droplets) covering this failure class"""
    for e in vlib.load_known():
        if e.get("kind") != "finding" or e.get("property") != prop:
            continue
        m = e.get("match", {})
        if m.get("call") not in ("refine_droplet", "locate_droplets"):
            continue
        fl = m.get("failure", [])
        if failure not in (fl if isinstance(fl, list) else [fl]):
            continue
        ok = True
        for key, want in m.items():
            if key in ("call", "failure"):
                continue
            want = want if isinstance(want, list) else [want]
            if attrs.get(key) not in want:
                ok = False
        if ok:
            return e
    return None


# =========================================================================================
# C04: the property text over one recorded refinement
# =========================================================================================
COST_RTOL = 1e-9   # the two deviations are sums of <= 4096 squares evaluated twice in binary64 (<= 2^-40 relative)
COST_ATOL = 1e-24  # times max(1, vrng^2): (p - lo) % L + lo may move a coordinate by one ulp, each of <= 4096 residuals then
                   # changes by <= ~1e-15 * |vrng|, the sum of squares by <= 4096 * 1e-30 * vrng^2
FIXED_TOL = 1e-6   # "unchanged up to solver tolerance" (property text; default ftol = xtol = gtol = 1e-8)


def in_box_failures(gs: dict, pos) -> list[str]:
    out = []
    fam = gs["family"]
    axes = grid_axes(gs)
    if fam == "cartesian":
        for k, (lo, hi, n, per) in enumerate(axes):
            if per and not (lo <= pos[k] < hi):
                out.append(f"coordinate {k} = {pos[k]!r} is outside [{lo}, {hi}) on a periodic axis")
    elif fam == "cylindrical":
        lo, hi, n, per = axes[1]
        if per and not (lo <= pos[2] < hi):
            out.append(f"z = {pos[2]!r} is outside [{lo}, {hi}) on the periodic axis")
    return out


def same_point(gs: dict, p, q, tol: float) -> bool:
    """equal up to `tol`, modulo the period on periodic axes"""
    fam = gs["family"]
    axes = grid_axes(gs)
    for k, (a, b) in enumerate(zip(p, q)):
        d = abs(a - b)
        if fam == "cartesian" and axes[k][3]:
            L = axes[k][1] - axes[k][0]
            d = abs((a - b + L / 2) % L - L / 2)
        if fam == "cylindrical" and k == 2 and axes[1][3]:
            L = axes[1][1] - axes[1][0]
            d = abs((a - b + L / 2) % L - L / 2)
        if d > tol:
            return False
    return True


def c04_oracle(case: dict, rec: dict) -> list[dict]:
    """failures of the C04 property text on one refinement (each {"what", "class"}); `class` names the failure for the
    known-finding matching"""
    fails = []
    gs, cand = case["grid"], case["candidate"]
    grid = make_grid(gs)

    def fail(cls_, what):
        fails.append({"class": cls_, "what": what})

    if not rec["image_unchanged"]:
        fail("image modified", "the image array was modified by refine_droplet")
    if rec["error"] is not None:
        fail("raises:" + rec["error"], f"refine_droplet raised {rec.get('error_message', rec['error'])}")
        return fails
    out = rec["out"]
    prom = rec["promoted"]
    # class
    want_cls = prom["cls"]
    if out["cls"] != want_cls:
        fail("class", f"returned class {out['cls']}, candidate class {cand['cls']} (expected {want_cls})")
    if out.get("width") is None:
        fail("class", "returned droplet has no interface width")
        return fails
    # bounds
    if not out["radius"] >= 0:
        fail("bounds", f"negative radius {out['radius']!r}")
    if not out["width"] >= 0:
        fail("bounds", f"negative interface width {out['width']!r}")
    for a in out.get("amplitudes") or []:
        if not -1 <= a <= 1:
            fail("bounds", f"amplitude {a!r} outside [-1, 1]")
    if len(out.get("amplitudes") or []) != len(cand.get("amplitudes") or []):
        fail("class", "number of modes changed")
    # constrained coordinates: bit-identical
    for i in grid_constraints(gs):
        a, b = cand["position"][i], out["position"][i]
        if not (a == b):
            fail("constrained coordinate changed", f"coordinate {i} fixed by the grid symmetry changed from {a!r} to {b!r}")
    # periodic position inside the box
    for w in in_box_failures(gs, out["position"]):
        fail("position outside box", w)
    # cost over the fitted region, recomputed from the returned droplet
    region, image = rec["region"], rec["image"]
    vmin0, vmax0 = effective_levels(case, rec)
    vrng0 = vmax0 - vmin0
    if case["adjust"] and rec["calls"] and "x" in rec["calls"][0]:
        vmin1, vrng1 = (float(v) for v in rec["calls"][0]["x"][-2:])
    else:
        vmin1, vrng1 = vmin0, vrng0
    try:
        dev0 = deviation(prom, grid, region, image, vmin0, vrng0)
        dev1 = deviation(out, grid, region, image, vmin1, vrng1)
    except Exception as e:  # e.g. a returned droplet that its own class rejects
        fail("invalid result", f"the returned droplet {out} cannot be rendered: {type(e).__name__}: {e}")
        return fails
    rec["dev0"], rec["dev1"] = dev0, dev1
    if not dev1 <= dev0 * (1 + COST_RTOL) + COST_ATOL * max(1.0, vrng1 * vrng1):
        fail("cost increased", f"squared deviation over the fitted region grew from {dev0!r} to {dev1!r}")
    # the region / intensity levels the implementation used are the documented ones
    if rec["dilations"]:
        dl = rec["dilations"][0]
        if not np.array_equal(dl["mask"], region):
            fail("fit region", f"fitted region has {dl['cells']} cells after {dl['iterations']} dilation(s); the candidate's "
                               f"binary image dilated 1 + int(2 w) = {rec['iterations']} times has {int(region.sum())}")
    if rec["calls"] and "nres" in rec["calls"][0] and rec["calls"][0]["nres"] != int(region.sum()):
        fail("fit region", f"{rec['calls'][0]['nres']} residuals but the fit region has {int(region.sum())} cells")
    if rec["calls"] and "cost0" in rec["calls"][0]:
        c0 = rec["calls"][0]["cost0"]
        if not math.isclose(2 * c0, dev0, rel_tol=1e-9, abs_tol=1e-18):
            fail("start", f"cost at the start vector {2 * c0!r} is not the candidate's squared deviation {dev0!r}")
    # fixed point
    if case.get("fixed_point"):
        tol = FIXED_TOL * max(1.0, abs(cand["radius"]))
        ok = same_point(gs, out["position"], prom["position"], tol)
        ok = ok and abs(out["radius"] - prom["radius"]) <= tol and abs(out["width"] - prom["width"]) <= tol
        ok = ok and all(abs(a - b) <= FIXED_TOL for a, b in zip(out.get("amplitudes") or [], prom.get("amplitudes") or []))
        if not ok:
            fail("fixed point", f"image rendered from the candidate itself, but the result differs: {prom} -> {out}")
    return fails


# =========================================================================================
# proofs with golden fallback (DESIGN.md 2.2)
# =========================================================================================
def prove_with_fallback(ctx, deps: list[str], gens: list[str]) -> tuple[bool, bool]:
    """-> (proofs hold, over the freshly generated text?).  When the fresh Gen_refine / Gen_refine_R / Gen_shapes
    text is missing (translator failed closed) or no longer supports the proofs, the theorems are re-checked over
    the golden model; the tie to the code is then the correspondence run (which must agree)."""
    import gen  # noqa: F401  (first: it loads the plug-ins, among them gen_refine, into its generator table)
    import gen_refine
    assert "Gen_refine" in gen.GENERATORS and "Gen_refine_R" in gen.GENERATORS
    nb, ob, dc = len(ctx.broken), ctx.obligations, ctx.discharged
    ok = vlib.prove(ctx, deps, gens=gens)
    if ok:
        ctx.tie.append("translator (" + ", ".join(gens) + " regenerated from the current source; proofs over the fresh text)")
        return True, True
    first = ctx.broken[nb:]
    if any(b.startswith("forbidden construct") or "assumptions outside" in b for b in first):
        return False, True
    del ctx.broken[nb:]
    ctx.obligations, ctx.discharged = ob, dc
    ctx.notes.append("fresh generated text does not support the proofs -> golden model: " + " | ".join(first)[:700])
    ctx.extra["fresh_text_failure"] = first[:3]
    with vlib.BuildLock():
        vlib._write_if_changed(vlib.COQ_BUILD / "Gen" / "Gen_refine.v", gen_refine.GOLDEN)
        vlib._write_if_changed(vlib.COQ_BUILD / "Gen" / "Gen_refine_R.v", gen_refine.GOLDEN_R)
        if "Gen_shapes" in gens:
            import gen_shapes
            vlib._write_if_changed(vlib.COQ_BUILD / "Gen" / "Gen_shapes.v", gen_shapes.GOLDEN)
    ok2 = vlib.prove(ctx, deps, gens=[])
    ctx.tie.append("tie: correspondence (translator fell back to the golden model)")
    ctx.extra["translator_fell_back"] = True
    return ok2, False


def grid_name(gs: dict) -> str:
    if gs["family"] == "cartesian":
        return f"CartesianGrid({len(gs['shape'])}d)"
    if gs["family"] == "cylindrical":
        return f"CylindricalSymGrid(periodic_z={bool(gs['periodic_z'])})"
    return {"polar": "PolarSymGrid", "spherical": "SphericalSymGrid"}[gs["family"]]


def finding_conditions(case: dict, rec: dict) -> list:
    """the conditions (as worded in known_findings.json) that hold for this run"""
    conds = []
    gs = case["grid"]
    auto = case["vmin"] is None or case["vmax"] is None
    if case["adjust"] and rec.get("region") is not None:
        vmin, vmax = effective_levels(case, rec)
        if vmin >= vmax:
            conds.append("adjust_values and vmin_eff >= vmax_eff")
    if gs["family"] == "cylindrical" and gs["periodic_z"]:
        z0, z1 = gs["bounds_z"]
        if not (z0 <= case["candidate"]["position"][2] < z1):
            conds.append("candidate outside [z0,z1)")
        call = rec["calls"][0] if rec.get("calls") else None
        if call is not None and "x" in call and not (z0 <= float(call["x"][0]) < z1):
            conds.append("fitted centre outside [z0,z1)")   # x[0]: the only free coordinate on a cylinder is z
    if auto and not case["adjust"]:
        conds.append("vmin or vmax None and adjust_values False")
    return conds


def match_known(prop: str, case: dict, rec: dict, failure: str):
    attrs = {"grid": grid_name(case["grid"]), "class": case["candidate"]["cls"]}
    for cond in finding_conditions(case, rec) + [None]:
        e = known_entry(prop, failure, condition=cond, **attrs)
        if e is not None:
            return e
    return None
