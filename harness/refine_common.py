"""Shared code of the C04 / C05 checks: JSON-able specs of grids, droplets, images and refinement cases;
instrumentation of `scipy.optimize.least_squares` / `scipy.ndimage.binary_dilation` AS SEEN FROM
`droplets.image_analysis` (proxy objects assigned to the module attributes `optimize` / `ndimage`; scipy itself
is never patched); the independent recomputation of the fit region and of the squared deviation; generators;
the Coq literals of the correspondence cases; known-finding matching."""
from __future__ import annotations

import copy
import math
import random

import logging

import numpy as np

import vlib

logging.getLogger("droplets").setLevel(logging.ERROR)   # amplitude-count hints of the perturbed classes

CLASSES = ["SphericalDroplet", "DiffuseDroplet", "PerturbedDroplet2D", "PerturbedDroplet3D",
           "PerturbedDroplet3DAxisSym"]
COQ_CLASS = {"SphericalDroplet": "RSpherical", "DiffuseDroplet": "RDiffuse", "PerturbedDroplet2D": "RP2D",
             "PerturbedDroplet3D": "RP3D", "PerturbedDroplet3DAxisSym": "RP3DAxi"}
FAMILIES = ["cart1", "cart2", "cart3", "polar", "spherical", "cylindrical"]


# =========================================================================================
# specs -> objects
# =========================================================================================
def make_grid(gs: dict):
    from pde import CartesianGrid, CylindricalSymGrid, PolarSymGrid, SphericalSymGrid
    fam = gs["family"]
    if fam == "cartesian":
        return CartesianGrid([tuple(b) for b in gs["bounds"]], list(gs["shape"]), periodic=list(gs["periodic"]))
    if fam == "polar":
        return PolarSymGrid(tuple(gs["radius"]), gs["shape"])
    if fam == "spherical":
        return SphericalSymGrid(tuple(gs["radius"]), gs["shape"])
    if fam == "cylindrical":
        return CylindricalSymGrid(gs["radius"], tuple(gs["bounds_z"]), list(gs["shape"]), periodic_z=gs["periodic_z"])
    raise ValueError(fam)


def grid_dim(gs: dict) -> int:
    if gs["family"] == "cartesian":
        return len(gs["shape"])
    return {"polar": 2, "spherical": 3, "cylindrical": 3}[gs["family"]]


def grid_axes(gs: dict):
    """[(lo, hi, n, periodic)] per GRID axis (what normalize_point works on)"""
    fam = gs["family"]
    if fam == "cartesian":
        return [(b[0], b[1], n, bool(p)) for b, n, p in zip(gs["bounds"], gs["shape"], gs["periodic"])]
    if fam in ("polar", "spherical"):
        return [(gs["radius"][0], gs["radius"][1], gs["shape"], False)]
    return [(0.0, gs["radius"], gs["shape"][0], False),
            (gs["bounds_z"][0], gs["bounds_z"][1], gs["shape"][1], bool(gs["periodic_z"]))]


def grid_constraints(gs: dict) -> list[int]:
    """py-pde 0.58.0 `grid.coordinate_constraints` (checked against the grid object in run_refine)"""
    return {"cartesian": [], "polar": [0, 1], "spherical": [0, 1, 2], "cylindrical": [0, 1]}[gs["family"]]


def family_name(gs: dict) -> str:
    return f"cart{len(gs['shape'])}" if gs["family"] == "cartesian" else gs["family"]


def make_droplet(ds: dict):
    import droplets.droplets as dd
    cls = getattr(dd, ds["cls"])
    pos = np.array(ds["position"], dtype=float)
    if ds["cls"] == "SphericalDroplet":
        return cls(pos, ds["radius"])
    if ds["cls"] == "DiffuseDroplet":
        return cls(pos, ds["radius"], ds.get("width"))
    amps = ds.get("amplitudes")
    return cls(pos, ds["radius"], ds.get("width"), list(amps) if amps else None)


# numeric types in which a candidate can be written down (input_dimensions.md 4); the VALUES are those of the spec
CTYPES = ["list", "tuple", "ndarray", "int", "float32", "npscalar", "0d"]
# where a candidate object can come from (input_dimensions.md 3)
PROVENANCES = ["fresh", "copy", "deepcopy", "pickle", "from_data", "copy_kw", "emulsion", "emulsion_copy",
               "emulsion_pickle", "track"]


def quantise(ds: dict, ctype: str) -> dict:
    """the spec with values that the numeric type `ctype` represents exactly (int: whole numbers; float32)"""
    out = copy.deepcopy(ds)
    if ctype == "int":
        f = lambda v: float(round(v))                                   # noqa: E731
        out["radius"] = max(1.0, f(out["radius"]))
        if out.get("width") is not None:
            out["width"] = max(1.0, f(out["width"]))
    elif ctype == "float32":
        f = lambda v: float(np.float32(v))                              # noqa: E731
        out["radius"] = f(out["radius"])
        if out.get("width") is not None:
            out["width"] = f(out["width"])
    else:
        return out
    out["position"] = [f(v) for v in out["position"]]
    return out


def make_droplet_typed(ds: dict, ctype: str):
    """the droplet of the spec, constructed from arguments of the numeric type `ctype`"""
    import droplets.droplets as dd
    if ctype in (None, "list"):
        return make_droplet(ds)
    cls = getattr(dd, ds["cls"])
    pos, rad, w, amps = list(ds["position"]), ds["radius"], ds.get("width"), ds.get("amplitudes")
    if ctype == "tuple":
        pos, amps = tuple(pos), (tuple(amps) if amps else amps)
    elif ctype == "ndarray":
        pos, amps = np.array(pos, dtype=float), (np.array(amps, dtype=float) if amps else amps)
    elif ctype == "int":
        pos, rad, w = [int(v) for v in pos], int(rad), (None if w is None else int(w))
    elif ctype == "float32":
        pos, rad, w = np.array(pos, dtype=np.float32), np.float32(rad), (None if w is None else np.float32(w))
    elif ctype == "npscalar":
        pos, rad, w = [np.float64(v) for v in pos], np.float64(rad), (None if w is None else np.float64(w))
    elif ctype == "0d":
        pos, rad, w = np.array(pos, dtype=float), np.array(rad, dtype=float), (None if w is None else np.array(w, dtype=float))
    else:
        raise ValueError(ctype)
    if ds["cls"] == "SphericalDroplet":
        return cls(pos, rad)
    if ds["cls"] == "DiffuseDroplet":
        return cls(pos, rad, w)
    return cls(pos, rad, w, amps if amps is not None and len(amps) else None)


def make_candidate(ds: dict, prov: str | None = None, ctype: str | None = None):
    """-> (candidate object, container it is a member of or None).  `prov`: how the object came about"""
    import pickle
    d = make_droplet_typed(ds, ctype)
    if prov in (None, "fresh"):
        return d, None
    if prov == "copy":
        return d.copy(), None
    if prov == "deepcopy":
        return copy.deepcopy(d), None
    if prov == "pickle":                       # what a worker process receives / returns
        return pickle.loads(pickle.dumps(d)), None
    if prov == "from_data":
        return type(d).from_data(d.data.copy()), None
    if prov == "copy_kw":                      # copy(**kwargs) goes through from_droplet -> cls(**args)
        other = copy.deepcopy(ds)
        other["radius"] = ds["radius"] + 1.0
        return make_droplet(other).copy(radius=ds["radius"]), None
    from droplets import DropletTrack, Emulsion
    if prov == "emulsion":
        em = Emulsion([d, d.copy()])
        return em[0], em
    if prov == "emulsion_copy":
        em = Emulsion([d, d.copy()]).copy()
        return em[1], em
    if prov == "emulsion_pickle":
        em = pickle.loads(pickle.dumps(Emulsion([d, d.copy()])))
        return em[0], em
    if prov == "track":
        tr = DropletTrack()
        tr.append(d, time=0)
        tr.append(d.copy(), time=1)
        return tr.droplets[1], tr.droplets
    raise ValueError(prov)


def droplet_spec(d) -> dict:
    ds = {"cls": type(d).__name__, "position": [float(x) for x in d.position], "radius": float(d.radius)}
    if hasattr(d, "interface_width"):
        w = d.interface_width
        ds["width"] = None if w is None else float(w)
    if hasattr(d, "amplitudes"):
        ds["amplitudes"] = [float(a) for a in d.amplitudes]
    return ds


def same_spec(a: dict, b: dict) -> bool:
    return (a["cls"] == b["cls"] and list(a["position"]) == list(b["position"]) and a["radius"] == b["radius"]
            and a.get("width") == b.get("width") and list(a.get("amplitudes") or []) == list(b.get("amplitudes") or []))


def flat_of(ds: dict) -> list[float]:
    """the flat data vector of a diffuse(-derived) droplet spec: position, radius, width, amplitudes"""
    return list(ds["position"]) + [ds["radius"], ds["width"]] + list(ds.get("amplitudes") or [])


def make_image(isp: dict, grid):
    """b + a * (clipped sum of the truth droplets' standard profiles) + sigma * normal noise, or a constant"""
    from pde import ScalarField
    if isp["kind"] == "const":
        return typed_field(isp, grid, np.full(grid.shape, float(isp["value"])))
    from droplets import Emulsion
    drops = [make_droplet(t) for t in isp["truth"]]
    if len(drops) == 1:
        data = drops[0].get_phase_field(grid).data
    else:
        data = Emulsion(drops).get_phasefield(grid).data
    data = isp.get("b", 0.0) + isp.get("a", 1.0) * np.asarray(data, float)
    if isp.get("sigma", 0.0) > 0:
        data = data + isp["sigma"] * np.random.default_rng(isp["nseed"]).standard_normal(data.shape)
    return typed_field(isp, grid, data)


IMAGE_DTYPES = ["float64", "float32", "float16", "int64", "int32", "int16", "uint8", "int8", "bool"]


def typed_field(isp: dict, grid, data):
    """the ScalarField of the image spec: data type `dtype` (integer types: rounded to the nearest integer) and
    provenance `field` (fresh / copy / pickle round trip)"""
    from pde import ScalarField
    dt = isp.get("dtype", "float64")
    if dt == "float64":
        f = ScalarField(grid, data)
    else:
        npdt = np.dtype(dt)
        if npdt.kind == "b":       # binary image: above / below the mid-level of the rendered intensities
            data = np.asarray(data) > (isp.get("b", 0.0) + isp.get("a", 1.0) / 2 if isp["kind"] != "const" else 0.5)
        if npdt.kind in "iu":
            data = np.rint(data)
            info = np.iinfo(npdt)
            assert data.min() >= info.min and data.max() <= info.max, "image spec does not fit the integer type"
        f = ScalarField(grid, np.asarray(data).astype(npdt), dtype=npdt)
        assert f.data.dtype == npdt
    how = isp.get("field", "fresh")
    if how == "copy":
        f = f.copy()
    elif how == "pickle":
        import pickle
        f = pickle.loads(pickle.dumps(f))
    return f


# =========================================================================================
# instrumentation (module attributes of droplets.image_analysis only)
# =========================================================================================
class Instrument:
    """records every `optimize.least_squares` and `ndimage.binary_dilation` call made by droplets.image_analysis"""

    def __enter__(self):
        import droplets.image_analysis as ia
        self.ia, self.orig_opt, self.orig_nd = ia, ia.optimize, ia.ndimage
        self.calls: list[dict] = []
        self.dilations: list[dict] = []
        inst = self

        class OptProxy:
            def __getattr__(self, name):
                return getattr(inst.orig_opt, name)

            def least_squares(self, fun, x0, *args, **kw):
                bounds = kw["bounds"] if "bounds" in kw else (args[1] if len(args) > 1 else (-np.inf, np.inf))
                x0c = np.array(x0, dtype=float, copy=True)
                rec = {"x0": x0c, "lo": np.array(np.broadcast_to(bounds[0], x0c.shape), float, copy=True),
                       "hi": np.array(np.broadcast_to(bounds[1], x0c.shape), float, copy=True),
                       "extra_kw": sorted(k for k in kw if k != "bounds"),
                       "kwargs": {k: copy.deepcopy(v) for k, v in kw.items() if k != "bounds"},
                       "n_positional": len(args)}
                inst.calls.append(rec)
                try:
                    f0 = np.array(fun(x0c.copy()), dtype=float, copy=True)
                    rec["nres"], rec["cost0"] = int(f0.size), 0.5 * float(np.dot(f0, f0))
                except Exception as e:  # e.g. check_data on an infeasible start
                    rec["fun_error"] = f"{type(e).__name__}: {e}"
                res = inst.orig_opt.least_squares(fun, x0, *args, **kw)
                rec["x"] = np.array(res.x, dtype=float, copy=True)
                rec["cost"], rec["status"], rec["nfev"] = float(res.cost), int(res.status), int(res.nfev)
                fx = np.array(fun(rec["x"].copy()), dtype=float)
                rec["cost_at_x"] = 0.5 * float(np.dot(fx, fx))
                return res

        class NdProxy:
            def __getattr__(self, name):
                return getattr(inst.orig_nd, name)

            def binary_dilation(self, input, *args, **kw):
                out = inst.orig_nd.binary_dilation(input, *args, **kw)
                inst.dilations.append({"iterations": kw.get("iterations", args[2] if len(args) > 2 else 1),
                                       "seed_cells": int(np.sum(input)), "cells": int(np.sum(out)),
                                       "mask": np.array(out, dtype=bool, copy=True)})
                return out

        ia.optimize, ia.ndimage = OptProxy(), NdProxy()
        return self

    def __exit__(self, *a):
        self.ia.optimize, self.ia.ndimage = self.orig_opt, self.orig_nd


def exc_kind(e: BaseException) -> str:
    s = str(e)
    if isinstance(e, ValueError) and "Initial guess is outside" in s:
        return "Infeasible"
    if isinstance(e, ValueError) and "strictly less than" in s:
        return "BoundsNotStrict"
    if isinstance(e, ValueError) and "incompatible with grid" in s:
        return "DimMismatch"
    if isinstance(e, ValueError) and "zero-size array to reduction" in s:
        return "EmptyRegion"
    if isinstance(e, ValueError):
        return "ValueError"
    return f"Other:{type(e).__name__}"


# =========================================================================================
# the fit region and the squared deviation, recomputed independently of refine_droplet
# =========================================================================================
def promoted(ds: dict, grid) -> dict:
    """candidate after `DiffuseDroplet.from_droplet` (when it has no interface) and the default width"""
    out = copy.deepcopy(ds)
    if out["cls"] == "SphericalDroplet":
        out["cls"] = "DiffuseDroplet"
        out["width"] = None
    if out.get("width") is None:
        out["width"] = float(grid.typical_discretization)
    return out


def fit_region(ds_promoted: dict, grid) -> tuple[np.ndarray, int]:
    from scipy import ndimage
    d = make_droplet(ds_promoted)
    seed = d._get_phase_field(grid, dtype=bool)
    iterations = 1 + int(2 * ds_promoted["width"])
    return ndimage.binary_dilation(seed, iterations=iterations), iterations


def deviation(ds: dict, grid, region, image_data, vmin: float, vrng: float) -> float:
    """sum over the region of (vmin + vrng * profile - image)^2  (= 2 * least-squares cost)"""
    r = vmin + vrng * make_droplet(ds)._get_phase_field(grid)[region] - image_data[region]
    return float(np.dot(r, r))


# =========================================================================================
# one refinement, fully recorded
# =========================================================================================
LEVEL_TYPES = ["float", "int", "np.float64", "np.float32", "0d"]


def typed_level(v, vtype):
    """the intensity level `v` written as a value of the numeric type `vtype` (the value must be exact in it)"""
    if v is None or vtype in (None, "float"):
        return v
    if vtype == "int":
        assert float(v).is_integer()
        return int(v)
    if vtype == "np.float64":
        return np.float64(v)
    if vtype == "np.float32":
        assert float(np.float32(v)) == v
        return np.float32(v)
    if vtype == "0d":
        return np.array(v, dtype=float)
    raise ValueError(vtype)


def expected_lsq_kwargs(case: dict) -> dict:
    """documented: `tolerance` sets ftol, xtol, gtol unless `least_squares_params` specifies them; everything else of
    `least_squares_params` is passed on"""
    want = dict(case.get("lsq_params") or {})
    if case.get("tolerance") is not None:
        for key in ("ftol", "xtol", "gtol"):
            want.setdefault(key, case["tolerance"])
    return want


def _members(container) -> list:
    return [(type(d).__name__, d.data.tobytes()) for d in container]


def run_refine(case: dict, cand_obj=None) -> dict:
    """run refine_droplet on the case; returns a record with everything the model / the oracle need.

    Optional entries of `case` beyond grid / image / candidate / vmin / vmax / adjust:
      tolerance, lsq_params    the documented keyword arguments (the caller's dict is inspected afterwards)
      reuse_options            the same option dict object has been used for another refinement before
      prov, ctype              provenance / numeric type of the candidate object (make_candidate)
      vtype                    numeric type of vmin / vmax
      after                    a case whose RESULT OBJECT is the candidate (refinement repeated on the same object)"""
    from droplets.image_analysis import refine_droplet
    grid = make_grid(case["grid"])
    assert list(grid.coordinate_constraints) == grid_constraints(case["grid"]), "py-pde constraints changed"
    image = make_image(case["image"], grid)
    before = np.array(image.data, copy=True)
    rec: dict = {"typical": float(grid.typical_discretization), "out_obj": None}
    container = None
    if case.get("after") is not None:
        if cand_obj is None:
            cand_obj = run_refine(case["after"])["out_obj"]
        if cand_obj is None:
            case["candidate"] = copy.deepcopy(case["after"]["candidate"])
            rec.update({"out": None, "error": "ParentFailed", "error_message": "the refinement that produces the candidate failed",
                        "calls": [], "dilations": [], "image_unchanged": True, "image": before, "promoted": None, "region": None,
                        "iterations": None, "dmin": None, "dmax": None, "hyp": 0.0, "cand_unchanged": True,
                        "container_unchanged": True, "params_unchanged": True, "returned_is_candidate": False})
            return rec
        cand = cand_obj
        case["candidate"] = droplet_spec(cand)
    else:
        cand, container = make_candidate(case["candidate"], case.get("prov"), case.get("ctype"))
        if not same_spec(droplet_spec(cand), case["candidate"]):
            # (a generator that did not quantise for its numeric type) the object is what is refined: respecify
            rec["candidate_respecified"] = True
            case["candidate"] = droplet_spec(cand)
    vt = case.get("vtype")
    kw = {"vmin": typed_level(case["vmin"], vt), "vmax": typed_level(case["vmax"], vt), "adjust_values": case["adjust"]}
    if case.get("tolerance") is not None:
        kw["tolerance"] = case["tolerance"]
    params = None
    if case.get("lsq_params") is not None:
        params = copy.deepcopy(case["lsq_params"])
        kw["least_squares_params"] = params
    if case.get("reuse_options"):
        # the caller's option objects have served an earlier refinement (of another droplet on the same image)
        try:
            refine_droplet(image, make_droplet(case["candidate"]), **kw)
        except Exception:  # noqa
            pass
    params_before = copy.deepcopy(params)
    cand_before = (type(cand).__name__, cand.data.tobytes())
    members_before = _members(container) if container is not None else None
    out = None
    with Instrument() as ins:
        try:
            if case.get("via") == "refine_droplets":
                # the serial path of the plural function, handed the caller's collection (or a one-element list)
                from droplets.image_analysis import refine_droplets
                res = refine_droplets(image, container if container is not None else [cand], num_processes=1, **kw)
                idx = [i for i, d in enumerate(container) if d is cand][0] if container is not None else 0
                out = res[idx]
            else:
                out = refine_droplet(image, cand, **kw)
            rec["error"] = None
        except Exception as e:  # noqa
            rec["out"] = None
            rec["error"] = exc_kind(e)
            rec["error_message"] = f"{type(e).__name__}: {e}"[:200]
    if rec["error"] is None:
        try:   # a result of the wrong kind is a property failure with this input, not a crash of the check
            rec["out"] = droplet_spec(out)
            rec["out_obj"] = out
        except Exception as e:  # noqa
            rec["out"] = None
            rec["error"] = "BadResult"
            rec["error_message"] = f"the returned object {out!r:.80} is not a droplet: {type(e).__name__}: {e}"[:200]
    rec["calls"], rec["dilations"] = ins.calls, ins.dilations
    rec["image_unchanged"] = bool(np.array_equal(before, image.data)) and image.data.dtype == before.dtype
    rec["image"] = before
    rec["returned_is_candidate"] = out is cand
    # caller-visible state: the candidate object (unless it IS the returned object's source by documented design: see
    # SUSPECTED), the container it is a member of, the option dict
    rec["cand_unchanged"] = (type(cand).__name__, cand.data.tobytes()) == cand_before
    try:
        rec["cand_after"] = droplet_spec(cand)
    except Exception:  # noqa
        rec["cand_after"] = None
    rec["container_unchanged"] = container is None or _members(container) == members_before
    rec["params_unchanged"] = params == params_before
    rec["params_after"] = params
    # independent recomputation of region and intensity levels
    try:
        prom = promoted(case["candidate"], grid)
        region, iterations = fit_region(prom, grid)
        rec["promoted"], rec["region"], rec["iterations"] = prom, region, iterations
        dm = before[region]
        rec["dmin"], rec["dmax"] = (float(dm.min()), float(dm.max())) if dm.size else (None, None)
    except Exception as e:  # dimension mismatch etc.
        rec["promoted"], rec["region"], rec["iterations"] = None, None, None
        rec["dmin"] = rec["dmax"] = None
        rec["region_error"] = exc_kind(e)
    # the norm of the constrained coordinates as the final transform computes it
    cs = grid_constraints(case["grid"])
    if cs and rec["out"] is not None:
        rec["hyp"] = float(grid.transform(np.array(rec["out"]["position"], float), "cartesian", "grid")[0])
    else:
        rec["hyp"] = 0.0
    return rec


def effective_levels(case: dict, rec: dict):
    """given levels, else min / max of the image over the fit region, else (empty region) the defaults 0 / 1"""
    vmin = case["vmin"] if case["vmin"] is not None else (rec["dmin"] if rec["dmin"] is not None else 0.0)
    vmax = case["vmax"] if case["vmax"] is not None else (rec["dmax"] if rec["dmax"] is not None else 1.0)
    return vmin, vmax


def impl_levels(case: dict, rec: dict) -> tuple[float, float]:
    """(vmin, vrng) of the objective at the start: the effective levels as Python floats (automatic levels are
    `float(np.min(...))` / `float(np.max(...))`, whatever the data type of the image)"""
    vmin, vmax = effective_levels(case, rec)
    vt = case.get("vtype")
    if vt == "np.float32":
        # a level SUPPLIED as numpy.float32 makes `vmax - vmin` a float32 result (numpy promotion with a Python float)
        a = typed_level(case["vmin"], vt) if case["vmin"] is not None else float(vmin)
        b = typed_level(case["vmax"], vt) if case["vmax"] is not None else float(vmax)
        return float(a), float(b - a)
    return float(vmin), float(vmax) - float(vmin)


def single_precision_noise(case: dict, rec: dict, scale: float, vmin: float, vrng: float, dev: float) -> float:
    """bound on |deviation seen by the optimiser - deviation recomputed in binary64| (both in units of scale^2): rounding of
    binary64 at the magnitude of the normalised terms, and of single precision when
    the image is float32 / float16 (the normalised data `data_mask / scale` keep that type) or a level was supplied as
    numpy.float32 (the normalised levels are float32): every one of the N residuals is off by at most
    e = eps * M, M the largest normalised magnitude involved; |sum (r+d)^2 - sum r^2| <= 2 sqrt(N dev) e + N e^2"""
    dt = np.dtype(case["image"].get("dtype", "float64"))
    # binary64 itself: the implementation evaluates the residuals in units of the intensity range, the recomputation in image
    # units; both round every residual at the magnitude M of its terms (an offset that dwarfs the range, e.g. levels -1 and
    # -1 + 3e-10, gives M = 3e9 and residuals known to 4e-7 only)
    eps = float(np.finfo(float).eps)
    if dt.kind == "f" and dt.itemsize < 8:
        eps = float(np.finfo(dt).eps)
    if case.get("vtype") == "np.float32" and not (case["vmin"] is None and case["vmax"] is None):
        eps = max(eps, float(np.finfo(np.float32).eps))
    if rec.get("region") is None or not rec["region"].any():
        return 0.0
    n = int(rec["region"].sum())
    big = max(float(np.max(np.abs(rec["image"][rec["region"]].astype(float)))), abs(vmin) + abs(vrng)) / scale
    e = 2 * eps * big
    return 2 * math.sqrt(n * max(dev, 0.0)) * e + n * e * e


def level_scale(vrng: float) -> float:
    """the unit in which refine_droplet measures intensities (repair F34): |vmax - vmin|, or 1 for a vanishing / non-finite range"""
    return abs(vrng) if vrng != 0 and math.isfinite(vrng) else 1.0


# =========================================================================================
# oracle-spec checks of one recorded least_squares call
# =========================================================================================
def lsq_spec_failures(call: dict) -> list[str]:
    out = []
    if "x" not in call:
        return out  # the real optimiser raised: precondition, not spec
    x, lo, hi, x0 = call["x"], call["lo"], call["hi"], call["x0"]
    if not (np.all(lo <= x) and np.all(x <= hi)):
        out.append(f"result outside the bounds: x={x.tolist()} lo={lo.tolist()} hi={hi.tolist()}")
    if "cost0" in call:
        on_bound = bool(np.any(x0 <= lo) or np.any(x0 >= hi)) or near_bound_start(call)
        # a start ON a bound -- for scipy: closer to it than rstep = 1e-10 * max(1, |bound|) (find_active_constraints) -- is
        # first moved inside by 1e-10 (make_strictly_feasible; to the middle of an interval narrower than that): the reference
        # cost is that of the moved point; allow the first-order change 1e-6 * (cost0 + 1) there, exact comparison otherwise
        slack = 1e-6 * (call["cost0"] + 1.0) if on_bound else 0.0
        if not call["cost"] <= call["cost0"] + slack:
            out.append(f"cost increased: {call['cost0']!r} -> {call['cost']!r}")
        if not math.isclose(call["cost"], call["cost_at_x"], rel_tol=1e-12, abs_tol=1e-300):
            out.append(f"reported cost {call['cost']!r} is not the cost at the returned point {call['cost_at_x']!r}")
        if call["cost0"] == 0.0 and not on_bound and not np.array_equal(x, x0):
            out.append("zero-cost start was moved")
    return out


# =========================================================================================
# generators
# =========================================================================================
def dy(rng: random.Random, lo: float, hi: float, k: int = 6) -> float:
    s = 2 ** k
    return rng.randint(math.ceil(lo * s), math.floor(hi * s)) / s


def gen_grid(rng: random.Random, fam: str, big: bool = False) -> dict:
    """small grids (<= 16 cells per axis, 3-d <= 8); `big` (C05): up to 24 / 14 cells so that resolvable droplets fit"""
    if fam.startswith("cart"):
        d = int(fam[4])
        nmax = {1: 16, 2: 16, 3: 8}[d] if not big else {1: 32, 2: 24, 3: 14}[d]
        nmin = {1: 10, 2: 9, 3: 6}[d] if not big else {1: 20, 2: 18, 3: 12}[d]
        h0 = rng.choice([0.5, 1.0, 1.0, 0.75, 1.25, 2.0])
        bounds, shape = [], []
        for _ in range(d):
            n = rng.randint(nmin, nmax)
            h = h0 * rng.choice([1.0, 1.0, 1.0, 1.125, 0.875, 1.25])  # mildly anisotropic
            lo = dy(rng, -4, 4)
            bounds.append([lo, lo + n * h])
            shape.append(n)
        return {"family": "cartesian", "bounds": bounds, "shape": shape,
                "periodic": [rng.random() < 0.5 for _ in range(d)]}
    if fam in ("polar", "spherical"):
        n = rng.randint(10, 16) if not big else rng.randint(16, 24)
        h = rng.choice([0.5, 1.0, 0.75, 1.25])
        return {"family": fam, "radius": [0.0, n * h], "shape": n}
    nr = rng.randint(6, 10) if not big else rng.randint(10, 14)
    nz = rng.randint(10, 16) if not big else rng.randint(20, 28)
    h = rng.choice([0.5, 1.0, 0.75, 1.25])
    hz = h * rng.choice([1.0, 1.0, 1.125, 0.875])
    z0 = dy(rng, -4, 4)
    return {"family": "cylindrical", "radius": nr * h, "bounds_z": [z0, z0 + nz * hz], "shape": [nr, nz],
            "periodic_z": rng.random() < 0.5}


def spacing(gs: dict) -> list[float]:
    return [(hi - lo) / n for lo, hi, n, _ in grid_axes(gs)]


def classes_for(fam: str) -> list[str]:
    if fam == "cart1":
        return ["SphericalDroplet", "DiffuseDroplet"]
    if fam in ("cart2", "polar"):
        return ["SphericalDroplet", "DiffuseDroplet", "PerturbedDroplet2D"]
    if fam in ("cart3", "spherical"):
        return ["SphericalDroplet", "DiffuseDroplet", "PerturbedDroplet3D"]
    return ["SphericalDroplet", "DiffuseDroplet", "PerturbedDroplet3DAxisSym", "PerturbedDroplet3D"]


def gen_truth(rng: random.Random, gs: dict, cls: str, modes: int, resolvable: bool = False) -> dict:
    """a droplet on the grid: centre inside the box (anywhere incl. near the faces on periodic axes, at least radius +
    interface away from the faces otherwise when `resolvable`), on the symmetry locus of symmetric grids"""
    fam = gs["family"]
    hs = spacing(gs)
    hmean = sum(hs) / len(hs)
    axes = grid_axes(gs)
    ext = min(hi - lo for lo, hi, _, _ in axes)
    if resolvable:
        width = rng.uniform(1.0, 2.0) * hmean
        margin = 1.0 + 2 * width / hmean + 1.0  # cells needed beyond the radius on non-periodic axes
        rmax = ext / 2 - margin * max(hs) if fam != "cylindrical" else min(gs["radius"] - margin * max(hs),
                                                                             ext / 2 - margin * max(hs))
        if fam in ("polar", "spherical"):
            rmax = ext - margin * max(hs)
        radius = rng.uniform(3.0 * max(hs), max(3.0 * max(hs), rmax))
    else:
        width = rng.uniform(0.6, 2.0) * hmean
        radius = rng.uniform(1.5 * max(hs), max(2.0 * max(hs), ext / 3))
    if fam == "cartesian":
        pos = []
        for (lo, hi, n, per), h in zip(axes, hs):
            if per:
                pos.append(rng.uniform(lo, hi))
            elif not resolvable and rng.random() < 0.12:
                # centre outside a non-periodic face: the image shows a cut droplet, the fit ends outside the box
                pos.append(lo - rng.uniform(0.1, 1.5) * h if rng.random() < 0.5 else hi + rng.uniform(0.1, 1.5) * h)
            else:
                pad = (radius + 2 * width + 2 * h) if resolvable else min(radius, (hi - lo) / 3)
                a, b = lo + pad, hi - pad
                pos.append(rng.uniform(a, b) if a < b else (lo + hi) / 2)
    elif fam == "polar":
        pos = [0.0, 0.0]
    elif fam == "spherical":
        pos = [0.0, 0.0, 0.0]
    else:
        lo, hi, n, per = axes[1]
        if per:
            z = rng.uniform(lo, hi)
        elif not resolvable and rng.random() < 0.12:
            z = lo - rng.uniform(0.1, 1.5) * hs[1] if rng.random() < 0.5 else hi + rng.uniform(0.1, 1.5) * hs[1]
            pad = 0.0
        else:
            pad = (radius + 2 * width + 2 * hs[1]) if resolvable else min(radius, (hi - lo) / 3)
            z = rng.uniform(lo + pad, hi - pad) if lo + pad < hi - pad else (lo + hi) / 2
        pos = [0.0, 0.0, z]
    ds = {"cls": cls, "position": pos, "radius": radius}
    if cls != "SphericalDroplet":
        ds["width"] = width
    if cls.startswith("Perturbed"):
        ds["amplitudes"] = [rng.uniform(-0.12, 0.12) if rng.random() < 0.7 else 0.0 for _ in range(modes)]
    return ds


def gen_candidate(rng: random.Random, gs: dict, truth: dict, cls: str, modes: int, across: bool = True,
                  off_locus: bool = True, tiny: bool = True) -> dict:
    """the truth moved by up to a cell, radius / width off by up to 20 %, possibly written with a position outside the
    box on periodic axes; classes without width / with unset width exercise promotion and the default width"""
    hs = spacing(gs)
    axes = grid_axes(gs)
    fam = gs["family"]
    pos = list(truth["position"])
    if fam == "cartesian":
        for k, ((lo, hi, n, per), h) in enumerate(zip(axes, hs)):
            pos[k] += rng.uniform(-1, 1) * h
            if per and across and rng.random() < 0.3:
                pos[k] += rng.choice([-1, 1, 2]) * (hi - lo)
    elif fam == "cylindrical":
        lo, hi, n, per = axes[1]
        pos[2] += rng.uniform(-1, 1) * hs[1]
        if per and across and rng.random() < 0.3:
            pos[2] += rng.choice([-1, 1]) * (hi - lo)
    # candidates away from the symmetry locus of symmetric grids (the constrained coordinates must come back untouched)
    if fam != "cartesian" and cls != "PerturbedDroplet3DAxisSym" and off_locus and rng.random() < 0.4:
        for i in grid_constraints(gs):
            pos[i] = rng.choice([-1, 1]) * rng.uniform(0.05, 0.8) * hs[0]
    radius = max(truth["radius"] * rng.uniform(0.8, 1.2), 0.5 * max(hs))
    if tiny and rng.random() < 0.04:
        radius = 0.2 * min(hs)   # usually covers no cell centre: the fit region is empty (F23, fixed)
    ds = {"cls": cls, "position": pos, "radius": radius}
    if cls != "SphericalDroplet":
        w = truth.get("width") or (sum(hs) / len(hs))
        ds["width"] = None if rng.random() < 0.25 else w * rng.uniform(0.8, 1.25)
    if cls.startswith("Perturbed"):
        ds["amplitudes"] = [0.0 if rng.random() < 0.6 else rng.uniform(-0.1, 0.1) for _ in range(modes)]
    return ds


MODE_COUNTS = [0, 2, 3, 1, 4, 6]      # amplitude vectors of length 0, 1, odd and even length
OPTION_GRID = [(gv, gx, adj) for gv in (True, False) for gx in (True, False) for adj in (False, True)]


def gen_image_spec(rng: random.Random, truth: dict, kind: str) -> dict:
    isp = {"kind": kind, "truth": [truth], "a": 1.0, "b": 0.0, "sigma": 0.0, "nseed": rng.randrange(1 << 30)}
    if kind == "noisy":
        isp["sigma"] = rng.choice([0.01, 0.05, 0.1])
    if kind == "affine":
        isp["a"] = rng.choice([0.5, 2.0, 3.0, 0.25, 1.5])
        isp["b"] = rng.choice([-1.0, 0.5, 5.0, 2.0, -0.25])
    if kind == "affine_noisy":
        isp["a"], isp["b"], isp["sigma"] = rng.choice([0.5, 2.0]), rng.choice([-1.0, 5.0]), 0.02
    return isp


def gen_case(rng: random.Random, k: int) -> dict:
    """k-th refinement case: families, classes, mode counts, image kinds and the 2x2x2 options are cycled so that
    every combination class appears; the rest is drawn from rng"""
    fam = FAMILIES[k % len(FAMILIES)]
    gs = gen_grid(rng, fam)
    cl = classes_for(fam)
    cls = cl[(k // len(FAMILIES)) % len(cl)]
    if cls == "PerturbedDroplet3D" and fam == "cylindrical":
        cls = rng.choice(["PerturbedDroplet3DAxisSym", "DiffuseDroplet"])
    modes = MODE_COUNTS[(k // 7) % len(MODE_COUNTS)] if cls.startswith("Perturbed") else 0
    kind = ["clean", "noisy", "affine", "clean", "affine_noisy"][(k // 3) % 5]
    tcls = cls if cls != "SphericalDroplet" else "DiffuseDroplet"
    truth = gen_truth(rng, gs, tcls, modes)
    isp = gen_image_spec(rng, truth, kind)
    cand = gen_candidate(rng, gs, truth, cls, modes)
    gv, gx, adj = OPTION_GRID[(k // 5) % 8]
    a, b = isp["a"], isp["b"]
    vmin = (b if rng.random() < 0.7 else b - 0.1 * a) if gv else None
    vmax = (a + b if rng.random() < 0.7 else a + b + 0.1 * a) if gx else None
    return {"grid": gs, "image": isp, "candidate": cand, "vmin": vmin, "vmax": vmax, "adjust": adj}


# -----------------------------------------------------------------------------------------
# the dimension stream (notes/input_dimensions.md): one named recipe per case, cycled
# -----------------------------------------------------------------------------------------
def gen_grid_special(rng: random.Random, kind: str) -> dict:
    """grids of the geometry dimension `kind` (small: <= 40 cells on the long axis)"""
    h = rng.choice([0.5, 1.0, 0.75, 1.25])
    if kind in ("negative", "centred", "positive"):
        fam = rng.choice(["cart1", "cart2", "cart3", "cylindrical"])
        gs = gen_grid(rng, fam)
        axes = gs["bounds"] if fam != "cylindrical" else [gs["bounds_z"]]
        for b in axes:
            L = b[1] - b[0]
            lo = {"negative": -L - dy(rng, 0.25, 3), "centred": -L / 2, "positive": dy(rng, 0.25, 3)}[kind]
            b[0], b[1] = lo, lo + L
        return gs
    if kind in ("aniso_first_larger", "aniso_last_larger", "counts_first_larger", "counts_last_larger"):
        d = rng.choice([2, 2, 3])
        if kind.startswith("aniso"):
            ratio = rng.choice([2.0, 3.0])
            hs = [h * ratio] + [h] * (d - 1)
            ns = [rng.randint(6, 8)] + [rng.randint(9, 12) if d == 2 else rng.randint(6, 8) for _ in range(d - 1)]
        else:
            hs = [h] * d
            ns = [rng.randint(18, 24) if d == 2 else rng.randint(12, 14)] + [rng.randint(6, 8) for _ in range(d - 1)]
        if kind.endswith("last_larger"):
            hs, ns = hs[::-1], ns[::-1]
        bounds = []
        for n, hh in zip(ns, hs):
            lo = dy(rng, -4, 4)
            bounds.append([lo, lo + n * hh])
        return {"family": "cartesian", "bounds": bounds, "shape": ns, "periodic": [rng.random() < 0.5 for _ in range(d)]}
    if kind in ("cyl_narrow", "cyl_flat", "cyl_dz_larger", "cyl_dz_smaller"):
        if kind == "cyl_narrow":      # finely sliced: a droplet is longer in z-cells than the grid has radial cells
            nr, nz, hz = rng.randint(4, 6), rng.randint(24, 40), h * rng.choice([0.25, 0.5])
        elif kind == "cyl_flat":
            nr, nz, hz = rng.randint(14, 20), rng.randint(5, 8), h * rng.choice([1.5, 2.0])
        elif kind == "cyl_dz_larger":
            nr, nz, hz = rng.randint(6, 10), rng.randint(8, 12), h * rng.choice([2.0, 3.0])
        else:
            nr, nz, hz = rng.randint(6, 10), rng.randint(16, 24), h / rng.choice([2.0, 3.0])
        z0 = dy(rng, -4, 4)
        return {"family": "cylindrical", "radius": nr * h, "bounds_z": [z0, z0 + nz * hz], "shape": [nr, nz],
                "periodic_z": rng.random() < 0.5}
    if kind in ("thin1", "thin2"):
        d = rng.choice([2, 2, 3])
        ns = [rng.randint(9, 14) if d == 2 else rng.randint(6, 8) for _ in range(d)]
        ns[rng.randrange(d)] = 1 if kind == "thin1" else 2
        bounds = []
        for n in ns:
            lo = dy(rng, -4, 4)
            bounds.append([lo, lo + n * h])
        return {"family": "cartesian", "bounds": bounds, "shape": ns, "periodic": [rng.random() < 0.5 for _ in range(d)]}
    if kind == "inner_radius":
        fam = rng.choice(["polar", "spherical"])
        n = rng.randint(10, 16)
        r0 = h * rng.choice([0.5, 2.0, 3.0])
        return {"family": fam, "radius": [r0, r0 + n * h], "shape": n}
    if kind.startswith("annular_core_"):     # a core of 1, 4, 8, 16 cells removed around the origin
        fam = rng.choice(["polar", "spherical"])
        n = rng.randint(12, 16)
        r0 = h * int(kind.rsplit("_", 1)[1])
        return {"family": fam, "radius": [r0, r0 + n * h], "shape": n}
    raise ValueError(kind)


GRID_KINDS = ["negative", "centred", "positive", "aniso_first_larger", "aniso_last_larger", "counts_first_larger",
              "counts_last_larger", "cyl_narrow", "cyl_flat", "cyl_dz_larger", "cyl_dz_smaller", "thin1", "thin2",
              "inner_radius", "annular_core_1", "annular_core_4", "annular_core_8", "annular_core_16"]
ACTIVE_KINDS = ["last_amplitude", "radius", "width", "vrng_hi", "vmin_lo", "vmin_hi", "vrng_lo"]
CAND_KINDS = ["radius0", "width0", "on_face_periodic", "on_face_nonperiodic", "corner_periodic", "corner", "outside_nonperiodic",
              "amplitude_on_bound", "amplitudes_zero", "last_amplitude_only", "on_locus", "off_locus"]
IMAGE_KINDS = ["float32", "int64", "int32", "int16", "uint8", "int8", "bool", "inverted", "const", "field_copy", "field_pickle",
               "scale_tiny", "scale_huge"]
LSQ_PARAMS = [None, {}, {"method": "trf"}, {"method": "dogbox"}, {"ftol": 1e-5}, {"xtol": 1e-6, "gtol": 1e-6, "max_nfev": 40},
              {"ftol": 1e-10, "xtol": 1e-10, "gtol": 1e-10}, {"x_scale": "jac"}, {"jac": "3-point"}, {"diff_step": 1e-6}]
TOLERANCES = [None, 1e-3, 1e-6, 1e-10, 1]


def _family_of(gs: dict) -> str:
    return family_name(gs)


def _class_for(rng: random.Random, gs: dict, perturbed: bool | None = None) -> tuple[str, int]:
    cl = classes_for(_family_of(gs))
    if _family_of(gs) == "cylindrical":
        cl = [c for c in cl if c != "PerturbedDroplet3D"]
    if perturbed is True:
        cl = [c for c in cl if c.startswith("Perturbed")] or cl
    if perturbed is False:
        cl = [c for c in cl if not c.startswith("Perturbed")]
    cls = rng.choice(cl)
    modes = rng.choice(MODE_COUNTS) if cls.startswith("Perturbed") else 0
    return cls, modes


def _plain_case(rng: random.Random, gs: dict, cls: str, modes: int, kind: str = "clean", across: bool = True) -> dict:
    tcls = cls if cls != "SphericalDroplet" else "DiffuseDroplet"
    truth = gen_truth(rng, gs, tcls, modes)
    isp = gen_image_spec(rng, truth, kind)
    cand = gen_candidate(rng, gs, truth, cls, modes, across=across, tiny=False)
    gv, gx, adj = rng.choice(OPTION_GRID)
    return {"grid": gs, "image": isp, "candidate": cand, "vmin": isp["b"] if gv else None, "vmax": isp["a"] + isp["b"] if gx else None,
            "adjust": adj}


def gen_dim_case(rng: random.Random, k: int) -> dict:
    """k-th case of the dimension stream; `case["dim"]` names the dimension and the value exercised"""
    groups = ["grid", "active", "cand", "image", "options", "provenance", "types", "sequence"]
    group = groups[k % len(groups)]
    j = k // len(groups)
    if group == "grid":
        kind = GRID_KINDS[j % len(GRID_KINDS)]
        gs = gen_grid_special(rng, kind)
        cls, modes = _class_for(rng, gs)
        case = _plain_case(rng, gs, cls, modes, rng.choice(["clean", "noisy", "affine"]))
        if kind == "cyl_narrow":
            # a candidate longer in z-cells than the grid has radial cells
            hs = spacing(gs)
            case["image"]["truth"][0]["radius"] = case["candidate"]["radius"] = min(0.8 * gs["radius"], (gs["shape"][0] + 2) * hs[1] / 2 + hs[1])
        if kind.startswith("annular_core_") or kind == "inner_radius":
            # the droplet covers the removed core and ends inside the annulus
            hs = spacing(gs)
            r_in, r_out = gs["radius"]
            t = case["image"]["truth"][0]
            t["radius"] = r_in + rng.uniform(2.0, 0.6 * gs["shape"]) * hs[0]
            case["candidate"]["radius"] = min(max(t["radius"] * rng.uniform(0.9, 1.1), r_in + hs[0]), r_out - hs[0])
        case["dim"] = "grid:" + kind
        return case
    if group == "active":
        kind = ACTIVE_KINDS[j % len(ACTIVE_KINDS)]
        if kind == "last_amplitude":
            # the image shows a shape whose LAST amplitude lies outside [-1, 1]: the optimum pushes it onto the bound
            fam = ["cart2", "cart3", "cylindrical"][(j // len(ACTIVE_KINDS)) % 3]
            modes = [1, 2, 3, 4, 6][(j // (3 * len(ACTIVE_KINDS))) % 5]
            cls = {"cart2": "PerturbedDroplet2D", "cart3": "PerturbedDroplet3D", "cylindrical": "PerturbedDroplet3DAxisSym"}[fam]
            gs = gen_grid(rng, fam)
            truth = gen_truth(rng, gs, cls, modes)
            sgn = rng.choice([-1, 1])
            truth["amplitudes"] = [rng.uniform(-0.05, 0.05) for _ in range(modes - 1)] + [sgn * rng.uniform(1.3, 1.6)]
            cand = gen_candidate(rng, gs, truth, cls, modes, across=False, off_locus=False, tiny=False)
            cand["amplitudes"] = truth["amplitudes"][:-1] + [sgn * rng.uniform(0.7, 0.95)]
            cand["width"] = truth["width"]
            adj = rng.random() < 0.3
            return {"grid": gs, "image": gen_image_spec(rng, truth, "clean"), "candidate": cand, "vmin": 0.0, "vmax": 1.0, "adjust": adj,
                    "dim": f"active:last_amplitude/{modes}"}
        fam = FAMILIES[(j // len(ACTIVE_KINDS)) % len(FAMILIES)]
        gs = gen_grid(rng, fam)
        truth = gen_truth(rng, gs, "DiffuseDroplet", 0)
        hs = spacing(gs)
        hm = sum(hs) / len(hs)
        cls = rng.choice(["DiffuseDroplet", "SphericalDroplet"])
        cand = gen_candidate(rng, gs, truth, cls, 0, across=False, off_locus=False, tiny=False)
        if kind == "radius":          # nothing to see: the fit shrinks the droplet towards radius 0
            cand["radius"] = 1.2 * max(hs)
            if cls == "DiffuseDroplet":
                cand["width"] = 0.8 * hm
            isp = {"kind": "const", "value": rng.choice([0.0, -0.5])}
            return {"grid": gs, "image": isp, "candidate": cand, "vmin": 0.0, "vmax": 1.0, "adjust": False, "dim": "active:radius"}
        if kind == "width":           # a sharp droplet: the fit shrinks the interface width towards 0
            t2 = dict(truth, width=0.0)
            if cls == "DiffuseDroplet":
                cand["width"] = 0.5 * hm
            return {"grid": gs, "image": gen_image_spec(rng, t2, "clean"), "candidate": cand, "vmin": 0.0, "vmax": 1.0, "adjust": False,
                    "dim": "active:width"}
        a, b = {"vrng_hi": (5.0, 0.0), "vmin_lo": (1.0, -3.0), "vmin_hi": (1.0, 3.0), "vrng_lo": (-1.0, 1.0)}[kind]
        isp = gen_image_spec(rng, truth, "clean")
        isp["kind"], isp["a"], isp["b"] = "affine", a, b
        return {"grid": gs, "image": isp, "candidate": cand, "vmin": 0.0, "vmax": 1.0, "adjust": True, "dim": "active:" + kind}
    if group == "cand":
        kind = CAND_KINDS[j % len(CAND_KINDS)]
        fam = FAMILIES[(j // len(CAND_KINDS)) % len(FAMILIES)]
        if kind.startswith("on_face") or kind.startswith("corner") or kind == "outside_nonperiodic":
            fam = ["cart1", "cart2", "cart3", "cylindrical"][(j // len(CAND_KINDS)) % 4]
            if kind.startswith("corner") and fam in ("cart1", "cylindrical"):
                fam = "cart2"
        if kind in ("on_locus", "off_locus"):
            fam = ["polar", "spherical", "cylindrical"][(j // len(CAND_KINDS)) % 3]
        gs = gen_grid(rng, fam)
        if kind in ("on_face_periodic", "corner_periodic", "on_face_nonperiodic"):
            if gs["family"] == "cartesian":
                gs["periodic"] = [kind != "on_face_nonperiodic"] * len(gs["shape"])
            else:
                gs["periodic_z"] = kind != "on_face_nonperiodic"
        perturbed = True if kind in ("amplitude_on_bound", "amplitudes_zero", "last_amplitude_only") else None
        if perturbed and fam == "cart1":
            gs = gen_grid(rng, "cart2")
        cls, modes = _class_for(rng, gs, perturbed)
        if perturbed:
            modes = rng.choice([1, 2, 3, 4, 6])
        case = _plain_case(rng, gs, cls, modes, "clean", across=False)
        cand, axes = case["candidate"], grid_axes(gs)
        if kind == "radius0":
            cand["radius"] = 0.0
        elif kind == "width0":
            if cls == "SphericalDroplet":
                cand["cls"] = "DiffuseDroplet"
            cand["width"] = 0.0
        elif kind.startswith("on_face") or kind.startswith("corner"):
            # exactly on a face: lower / upper, periodic / non-periodic; corner: every axis on a face
            idx = {i: i for i in range(len(axes))} if gs["family"] == "cartesian" else {1: 2}
            chosen = list(idx) if kind.startswith("corner") else [rng.choice(list(idx))]
            for i in chosen:
                cand["position"][idx[i]] = axes[i][0] if rng.random() < 0.5 else axes[i][1]
        elif kind == "outside_nonperiodic":
            idx = {i: i for i in range(len(axes))} if gs["family"] == "cartesian" else {1: 2}
            i = rng.choice(list(idx))
            if gs["family"] == "cartesian":
                gs["periodic"][i] = False
            else:
                gs["periodic_z"] = False
            lo, hi = axes[i][0], axes[i][1]
            cand["position"][idx[i]] = lo - dy(rng, 0.25, 1.5) if rng.random() < 0.5 else hi + dy(rng, 0.25, 1.5)
        elif kind == "amplitude_on_bound":
            cand["amplitudes"] = [rng.uniform(-0.1, 0.1) for _ in range(modes - 1)] + [rng.choice([-1.0, 1.0])]
        elif kind == "amplitudes_zero":
            cand["amplitudes"] = [0.0] * modes
        elif kind == "last_amplitude_only":
            cand["amplitudes"] = [0.0] * (modes - 1) + [rng.choice([-1, 1]) * rng.uniform(0.02, 0.2)]
        elif kind == "on_locus":
            for i in grid_constraints(gs):
                cand["position"][i] = 0.0
        elif kind == "off_locus":
            if cand["cls"] == "PerturbedDroplet3DAxisSym":
                cand["cls"], cand["amplitudes"] = "DiffuseDroplet", []
                cand.pop("amplitudes")
            hs = spacing(gs)
            for i in grid_constraints(gs):
                cand["position"][i] = rng.choice([-1, 1]) * rng.uniform(0.05, 0.8) * hs[0]
        case["dim"] = "cand:" + kind
        return case
    if group == "image":
        kind = IMAGE_KINDS[j % len(IMAGE_KINDS)]
        fam = FAMILIES[(j // len(IMAGE_KINDS)) % len(FAMILIES)]
        gs = gen_grid(rng, fam)
        cls, modes = _class_for(rng, gs, False)
        case = _plain_case(rng, gs, cls, modes, "clean", across=False)
        isp = case["image"]
        gv, gx = case["vmin"] is not None, case["vmax"] is not None
        if kind in ("int64", "int32", "int16", "uint8", "int8", "bool", "float32"):
            # every level option in turn, automatic AND fitted levels first (defect F33: bounds computed in the image's type)
            order = [(False, False, True), (True, False, True), (False, True, True), (False, False, False), (True, True, True),
                     (True, False, False), (False, True, False), (True, True, False)]
            gv, gx, case["adjust"] = order[(j // len(IMAGE_KINDS)) % 8]
        if kind == "float32":
            isp["dtype"] = "float32"
            isp["kind"], isp["a"], isp["b"] = "affine", rng.choice([1.0, 0.5, 2.0]), rng.choice([0.0, -1.0, 5.0])
        elif kind == "bool":
            isp["dtype"] = "bool"
            isp["kind"], isp["a"], isp["b"] = "affine", 1.0, 0.0
        elif kind in ("int64", "int32", "int16", "uint8", "int8"):
            isp["dtype"] = kind
            isp["kind"], isp["a"], isp["b"] = "affine", float(rng.choice([100, 60, 120])), float(rng.choice([0, 5, 20]) if kind == "uint8" else rng.choice([0, 5, -20]))
            if kind == "int8" and rng.random() < 0.5:
                isp["a"], isp["b"] = 200.0, -100.0       # the range 200 itself does not fit int8 (vmax - vmin in the image's type wraps)
            if kind == "uint8" and rng.random() < 0.5:
                isp["a"], isp["b"] = 250.0, 3.0
        elif kind == "inverted":          # dark droplet on a bright background: vmin > vmax
            isp["kind"], isp["a"], isp["b"] = "affine", -rng.choice([1.0, 0.5, 2.0]), rng.choice([1.0, 3.0, 0.0])
        elif kind == "const":
            case["image"] = isp = {"kind": "const", "value": rng.choice([0.0, 0.7, 1.0, -2.0])}
            case["vmin"], case["vmax"] = (0.0 if gv else None), (1.0 if gx else None)
            case["dim"] = "image:const"
            return case
        elif kind == "field_copy":
            isp["field"] = "copy"
        elif kind == "field_pickle":
            isp["field"] = "pickle"
        elif kind in ("scale_tiny", "scale_huge"):      # rescaled intensities, >= 30 orders of magnitude apart
            isp["kind"] = "affine"
            isp["a"] = rng.choice([2.0 ** -20, 2.0 ** -50, 1e-15]) if kind == "scale_tiny" else rng.choice([2.0 ** 20, 2.0 ** 50, 1e15])
            isp["b"] = rng.choice([0.0, isp["a"], -isp["a"] / 2])
        case["vmin"], case["vmax"] = (isp["b"] if gv else None), (isp["a"] + isp["b"] if gx else None)
        case["dim"] = "image:" + kind
        return case
    fam = FAMILIES[j % len(FAMILIES)]
    gs = gen_grid(rng, fam)
    cls, modes = _class_for(rng, gs)
    case = _plain_case(rng, gs, cls, modes, rng.choice(["clean", "noisy", "affine"]))
    if group == "options":
        case["tolerance"] = TOLERANCES[j % len(TOLERANCES)]
        case["lsq_params"] = copy.deepcopy(LSQ_PARAMS[(j // len(TOLERANCES)) % len(LSQ_PARAMS)])
        if rng.random() < 0.3:
            case["reuse_options"] = True
        case["dim"] = "options:" + ("reused" if case.get("reuse_options") else "fresh")
        return case
    if group == "provenance":
        case["prov"] = PROVENANCES[j % len(PROVENANCES)]
        if rng.random() < 0.4:
            case["lsq_params"] = copy.deepcopy(rng.choice(LSQ_PARAMS[1:]))
        if (j // len(PROVENANCES)) % 2:
            case["via"] = "refine_droplets"     # the plural function (serial path) handed the caller's collection
        case["dim"] = "provenance:" + case["prov"] + ("/refine_droplets" if case.get("via") else "")
        return case
    if group == "types":
        case["ctype"] = CTYPES[j % len(CTYPES)]
        case["candidate"] = quantise(case["candidate"], case["ctype"])
        case["vtype"] = LEVEL_TYPES[(j // len(CTYPES)) % len(LEVEL_TYPES)]
        isp = case["image"]
        if case["vtype"] in ("int", "np.float32"):   # levels that the type represents exactly (and their difference)
            isp["kind"], isp["a"], isp["b"] = "affine", float(rng.choice([2, 3, 1])), float(rng.choice([-1, 5, 2, 0]))
        gv, gx = case["vmin"] is not None, case["vmax"] is not None
        case["vmin"], case["vmax"] = (isp["b"] if gv else None), (isp["a"] + isp["b"] if gx else None)
        case["dim"] = f"types:{case['ctype']}/{case['vtype']}"
        return case
    # sequence: the result object of one refinement is refined again (same image, same options)
    parent = case
    child = {"grid": parent["grid"], "image": parent["image"], "candidate": None, "vmin": parent["vmin"], "vmax": parent["vmax"],
             "adjust": parent["adjust"], "after": parent, "dim": "sequence:refined_again"}
    return child


def gen_fixed_point_case(rng: random.Random, k: int) -> dict:
    """image rendered from the candidate itself (levels supplied and equal to those of the image)"""
    fam = FAMILIES[k % len(FAMILIES)]
    gs = gen_grid(rng, fam)
    cl = [c for c in classes_for(fam) if c != "SphericalDroplet"]
    cls = cl[(k // len(FAMILIES)) % len(cl)]
    if cls == "PerturbedDroplet3D" and fam == "cylindrical":
        cls = "PerturbedDroplet3DAxisSym"
    modes = [2, 0, 3][(k // 5) % 3] if cls.startswith("Perturbed") else 0
    truth = gen_truth(rng, gs, cls, modes)
    isp = gen_image_spec(rng, truth, "affine" if k % 3 == 2 else "clean")
    return {"grid": gs, "image": isp, "candidate": copy.deepcopy(truth), "vmin": isp["b"], "vmax": isp["a"] + isp["b"],
            "adjust": bool(k % 2), "fixed_point": True}


# =========================================================================================
# evidence: where a case lies along the dimensions of notes/input_dimensions.md
# =========================================================================================
def parameter_names(case: dict, n: int) -> list[str]:
    """names of the entries of the optimiser's vector: free coordinates, radius, width, amplitudes, [vmin, vrng]"""
    dim = grid_dim(case["grid"])
    names = [f"x{i}" for i in range(dim) if i not in grid_constraints(case["grid"])] + ["radius", "width"]
    tail = ["vmin", "vrng"] if case["adjust"] else []
    namp = n - len(names) - len(tail)
    names += [("amplitude[last]" if i == namp - 1 else "amplitude[other]") for i in range(max(namp, 0))]
    return names + tail


def position_class(gs: dict, pos) -> str:
    axes = grid_axes(gs)
    if gs["family"] == "cartesian":
        pairs = list(zip(axes, pos))
    elif gs["family"] == "cylindrical":
        pairs = [(axes[1], pos[2])]
    else:
        return "symmetric grid"
    kinds = []
    for (lo, hi, n, per), x in pairs:
        p = "periodic" if per else "non-periodic"
        if x == lo or x == hi:
            kinds.append(f"on {'lower' if x == lo else 'upper'} face ({p})")
        elif not lo < x < hi:
            kinds.append(f"outside ({p})")
    if not kinds:
        return "inside"
    faces = sum(1 for k_ in kinds if k_.startswith("on "))
    if faces >= 2 and faces == len(pairs):
        return "corner: " + ", ".join(sorted(set(kinds)))
    return ", ".join(sorted(set(kinds)))


def count_dimensions(ctx, case: dict, rec: dict):
    gs, cand, isp = case["grid"], case["candidate"], case["image"]
    axes, hs = grid_axes(gs), spacing(gs)
    ctx.count("dimension_recipe", case.get("dim", "(main / probe stream)"))
    amps = cand.get("amplitudes") or []
    ctx.count("modes", len(amps))
    ctx.count("amplitudes", "none" if not amps else "all zero" if not any(amps) else
              ("last non-zero, others zero" if amps[-1] and not any(amps[:-1]) else "last non-zero" if amps[-1] else "last zero"))
    real = axes if gs["family"] in ("cartesian", "polar", "spherical") else [axes[1]]
    if gs["family"] in ("cartesian", "cylindrical"):
        ctx.count("grid_origin", "entirely negative" if all(a[1] <= 0 for a in real) else "entirely positive" if all(a[0] > 0 for a in real)
                  else "centred" if all(a[0] == -a[1] for a in real) else "contains 0")
    if len(axes) > 1:
        ctx.count("spacing_order", "first axis coarser" if hs[0] > hs[-1] else "last axis coarser" if hs[0] < hs[-1] else "equal")
        ctx.count("spacing_ratio", "1" if max(hs) == min(hs) else "<= 1.5" if max(hs) / min(hs) <= 1.5 else "> 1.5")
        ctx.count("cell_count_order", "first axis longer" if axes[0][2] > axes[-1][2] else "last axis longer" if axes[0][2] < axes[-1][2] else "equal")
    nmin = min(a[2] for a in axes)
    ctx.count("min_cells_on_an_axis", str(nmin) if nmin <= 2 else "3-8" if nmin <= 8 else "> 8")
    if gs["family"] == "cylindrical":
        zcells = 2 * cand["radius"] / hs[1]
        ctx.count("cylinder_shape", "candidate longer in z-cells than the grid has radial cells" if zcells > axes[0][2] else
                  "flat (fewer z-cells than radial cells)" if axes[1][2] < axes[0][2] else "regular")
    if gs["family"] in ("polar", "spherical"):
        ctx.count("inner_radius", "> 0" if axes[0][0] > 0 else "0")
        core = axes[0][0] / hs[0]
        ctx.count("annular_core_width_in_cells", "0" if core == 0 else str(int(core)) if core in (1, 4, 8, 16) else "other (0.5, 2, 3)")
    ctx.count("candidate_provenance", "result object of a refinement" if case.get("after") else case.get("prov", "fresh"))
    ctx.count("called_through", case.get("via", "refine_droplet"))
    ctx.count("candidate_numeric_type", case.get("ctype", "list"))
    ctx.count("level_numeric_type", case.get("vtype", "float"))
    ctx.count("image_dtype", isp.get("dtype", "float64"))
    ctx.count("image_field_provenance", isp.get("field", "fresh"))
    if isp["kind"] != "const":
        a_ = abs(isp.get("a", 1.0))
        ctx.count("intensity_scale", "<= 1e-6" if a_ <= 1e-6 else ">= 1e6" if a_ >= 1e6 else "0.25 .. 120")
    ctx.count("tolerance", case.get("tolerance"))
    ctx.count("least_squares_params", "None" if case.get("lsq_params") is None else "{" + ",".join(sorted(case["lsq_params"])) + "}")
    ctx.count("options_reused_from_an_earlier_call", bool(case.get("reuse_options")))
    ctx.count("candidate_radius", "0" if cand["radius"] == 0 else "< 1 cell" if cand["radius"] < min(hs) else ">= 1 cell")
    ctx.count("candidate_width", "class without width" if "width" not in cand else "None" if cand["width"] is None else
              "0" if cand["width"] == 0 else "given")
    ctx.count("candidate_position", position_class(gs, cand["position"]))
    cs = grid_constraints(gs)
    if cs:
        ctx.count("candidate_on_symmetry_locus", all(cand["position"][i] == 0 for i in cs))
    if rec.get("region") is not None:
        ctx.count("fit_region", "empty" if not rec["region"].any() else "whole grid" if rec["region"].all() else "part of the grid")
        vmin, vmax = effective_levels(case, rec)
        ctx.count("effective_levels", "vmin < vmax" if vmin < vmax else "vmin = vmax" if vmin == vmax else "vmin > vmax")
    call = rec["calls"][0] if rec.get("calls") else None
    if call is not None and "x" in call:
        names = parameter_names(case, len(call["x"]))
        act = [f"{nm}:{'lower' if x - lo <= 1e-6 * (1 + abs(lo)) else 'upper'}" for nm, x, lo, hi in zip(names, call["x"], call["lo"], call["hi"])
               if (math.isfinite(lo) and x - lo <= 1e-6 * (1 + abs(lo))) or (math.isfinite(hi) and hi - x <= 1e-6 * (1 + abs(hi)))]
        for a in act or ["none"]:
            ctx.count("bound_active_at_the_result", a)
        on = [nm for nm, x, lo, hi in zip(names, call["x0"], call["lo"], call["hi"]) if x <= lo or x >= hi]
        for a in on or ["none"]:
            ctx.count("start_on_a_bound", a)
        ctx.count("optimiser_status", call.get("status"))
    if rec.get("out") is not None and rec["out"].get("width") is not None:
        hm = sum(hs) / len(hs)
        ctx.count("result_close_to_a_bound", ", ".join([w for w, c in (("radius < 0.1 cell", rec["out"]["radius"] < 0.1 * hm),
                                                                        ("width < 0.1 cell", rec["out"]["width"] < 0.1 * hm)) if c]) or "no")


# =========================================================================================
# Coq literals
# =========================================================================================
def qopt(x) -> str:
    return "None" if x is None else f"(Some {vlib.qlit(x)})"


def bound_lit(v: float) -> str:
    if math.isinf(v):
        return "PosInf" if v > 0 else "NegInf"
    return f"(Fin {vlib.qlit(v)})"


def grid_lit(gs: dict) -> str:
    fam = {"cartesian": "FCart", "polar": "FPolar", "spherical": "FSpher", "cylindrical": "FCyl"}[gs["family"]]
    axes = ["{| ncell := %s; alo := %s; ahi := %s; aper := %s |}" % (vlib.zlit(n), vlib.qlit(lo), vlib.qlit(hi), vlib.blit(p))
            for lo, hi, n, p in grid_axes(gs)]
    return "{| g_family := %s; g_axes := %s |}" % (fam, vlib.listlit(axes))


def droplet_lit(ds: dict) -> str:
    return ("{| d_cls := %s; d_pos := %s; d_rad := %s; d_width := %s; d_amp := %s |}"
            % (COQ_CLASS[ds["cls"]], vlib.listlit(ds["position"], vlib.qlit), vlib.qlit(ds["radius"]),
               qopt(ds.get("width")), vlib.listlit(ds.get("amplitudes") or [], vlib.qlit)))


def not_in_model(case: dict) -> str | None:
    """why a case is fed to the property oracle only, or None.  Every image data type is expressible (automatic levels are
    Python floats, exact rationals); a level supplied as numpy.float32 is not when the levels enter the start vector
    (adjust_values): numpy rounds vmax - vmin and the normalised levels to float32, the exact-rational model compares the
    start vector to 1e-12"""
    if case.get("vtype") == "np.float32" and case["adjust"] and not (case["vmin"] is None and case["vmax"] is None):
        return "numpy.float32 level with fitted levels: vmax - vmin and the levels in units of it are float32 results"
    return None


def case_lit(case: dict, rec: dict) -> str | None:
    """Coq record of one recorded refinement, or None when the run cannot be expressed (non-finite data, an error
    outside the modelled enum)"""
    if rec["region"] is None:
        return None
    if not_in_model(case) is not None:
        return None
    call = rec["calls"][0] if rec["calls"] else None
    vals = [rec["hyp"], rec["typical"]] + ([rec["dmin"], rec["dmax"]] if rec["dmin"] is not None else [])
    if call is not None:
        vals += list(call["x0"]) + list(call.get("x", []))
    if not all(math.isfinite(v) for v in vals):
        return None
    if rec["error"] is None:
        out = f"(ROk {droplet_lit(rec['out'])})"
    elif rec["error"] in ("Infeasible", "BoundsNotStrict", "DimMismatch", "EmptyRegion"):
        out = f"(RErr E{rec['error']})"
    else:
        return None
    if call is None:
        x0 = lo = hi = x = "[]"
        called = "false"
    else:
        x0 = vlib.listlit(call["x0"], vlib.qlit)
        lo = vlib.listlit(call["lo"], bound_lit)
        hi = vlib.listlit(call["hi"], bound_lit)
        x = vlib.listlit(call.get("x", call["x0"]), vlib.qlit)
        called = "true"
    stats = "None" if rec["dmin"] is None else f"(Some ({vlib.qlit(rec['dmin'])}, {vlib.qlit(rec['dmax'])}))"
    its = rec["dilations"][0]["iterations"] if rec["dilations"] else -1
    try:
        kwargs = options_lit(call.get("kwargs", {}) if call is not None else {})
        params = "None" if case.get("lsq_params") is None else f"(Some {options_lit(case['lsq_params'])})"
        after = "None" if rec.get("params_after") is None else f"(Some {options_lit(rec['params_after'])})"
    except TypeError:
        return None   # an option value that is neither a number nor a string
    if rec.get("cand_after") is None or "candidate_respecified" in rec:
        return None
    return ("{| rc_grid := %s; rc_cand := %s; rc_vmin := %s; rc_vmax := %s; rc_adjust := %s; rc_tol := %s; rc_params := %s; "
            "rc_kwargs := %s; rc_params_after := %s; rc_cand_after := %s; rc_same_object := %s; rc_stats := %s; "
            "rc_x := %s; rc_hyp := %s; rc_called := %s; rc_x0 := %s; rc_lo := %s; rc_hi := %s; "
            "rc_iter := %s; rc_out := %s |}"
            % (grid_lit(case["grid"]), droplet_lit(case["candidate"]), qopt(case["vmin"]), qopt(case["vmax"]),
               vlib.blit(case["adjust"]), qopt(case.get("tolerance")), params, kwargs, after, droplet_lit(rec["cand_after"]),
               vlib.blit(rec.get("returned_is_candidate")), stats, x, vlib.qlit(rec["hyp"]),
               called, x0, lo, hi, vlib.zlit(int(its)), out))


def options_lit(d: dict) -> str:
    """Coq literal of an option dict (string keys; numbers exactly, strings as strings)"""
    items = []
    for k, v in d.items():
        if not (isinstance(k, str) and k.isidentifier()):
            raise TypeError(k)
        if isinstance(v, str) and v.replace("-", "").replace("_", "").isalnum():
            val = f'(OS "{v}"%string)'
        elif isinstance(v, (int, float)) and not isinstance(v, bool) and math.isfinite(v):
            val = f"(OQ {vlib.qlit(v)})"
        else:
            raise TypeError(v)
        items.append(f'("{k}"%string, {val})')
    return "[" + "; ".join(items) + "]"


CASE_HEADER = ("From Coq Require Import String QArith ZArith List Bool.\nImport ListNotations.\n"
               "From PD Require Import Model.Grid Gen.Gen_refine Model.Refine.\nLocal Open Scope Q_scope.\n")


# =========================================================================================
# known findings
# =========================================================================================
def known_entry(prop: str, failure: str, **attrs):
    """the `finding` entry of known_findings.json (call refine_droplet / locate_droplets) covering this failure class"""
    for e in vlib.load_known():
        if e.get("kind") != "finding" or e.get("property") != prop:
            continue
        m = e.get("match", {})
        if m.get("call") not in ("refine_droplet", "locate_droplets"):
            continue
        fl = m.get("failure", [])
        if failure not in (fl if isinstance(fl, list) else [fl]):
            continue
        ok = True
        for key, want in m.items():
            if key in ("call", "failure"):
                continue
            want = want if isinstance(want, list) else [want]
            if attrs.get(key) not in want:
                ok = False
        if ok:
            return e
    return None


# =========================================================================================
# C04: the property text over one recorded refinement
# =========================================================================================
COST_RTOL = 1e-9   # the two deviations are sums of <= 4096 squares evaluated twice in binary64 (<= 2^-40 relative)
COST_ATOL = 1e-24  # times max(1, vrng^2): (p - lo) % L + lo may move a coordinate by one ulp, each of <= 4096 residuals then
                   # changes by <= ~1e-15 * |vrng|, the sum of squares by <= 4096 * 1e-30 * vrng^2
FIXED_TOL = 1e-6   # "unchanged up to solver tolerance" (property text; default ftol = xtol = gtol = 1e-8)


def in_box_failures(gs: dict, pos) -> list[str]:
    out = []
    fam = gs["family"]
    axes = grid_axes(gs)
    if fam == "cartesian":
        for k, (lo, hi, n, per) in enumerate(axes):
            if per and not (lo <= pos[k] < hi):
                out.append(f"coordinate {k} = {pos[k]!r} is outside [{lo}, {hi}) on a periodic axis")
    elif fam == "cylindrical":
        lo, hi, n, per = axes[1]
        if per and not (lo <= pos[2] < hi):
            out.append(f"z = {pos[2]!r} is outside [{lo}, {hi}) on the periodic axis")
    return out


def same_point(gs: dict, p, q, tol: float) -> bool:
    """equal up to `tol`, modulo the period on periodic axes"""
    fam = gs["family"]
    axes = grid_axes(gs)
    for k, (a, b) in enumerate(zip(p, q)):
        d = abs(a - b)
        if fam == "cartesian" and axes[k][3]:
            L = axes[k][1] - axes[k][0]
            d = abs((a - b + L / 2) % L - L / 2)
        if fam == "cylindrical" and k == 2 and axes[1][3]:
            L = axes[1][1] - axes[1][0]
            d = abs((a - b + L / 2) % L - L / 2)
        if d > tol:
            return False
    return True


def c04_oracle(case: dict, rec: dict) -> list[dict]:
    """failures of the C04 property text on one refinement (each {"what", "class"}); `class` names the failure for the
    known-finding matching"""
    fails = []
    gs, cand = case["grid"], case["candidate"]
    grid = make_grid(gs)

    def fail(cls_, what):
        fails.append({"class": cls_, "what": what})

    if not rec["image_unchanged"]:
        fail("image modified", "the image array was modified by refine_droplet")
    if rec["error"] == "ParentFailed":
        return fails            # the refinement producing the candidate is judged as its own case
    # caller-visible state (also after an exception): option dict, candidate object, the collection it belongs to
    if not rec.get("params_unchanged", True):
        fail("options modified", f"the caller's least_squares_params {case.get('lsq_params')} became {rec.get('params_after')}")
    if not rec.get("cand_unchanged", True):
        fail("candidate modified", f"the candidate object {cand} was modified in place (provenance {case.get('prov', 'fresh')}"
                                   f"{', returned object is the candidate' if rec.get('returned_is_candidate') else ''})")
    elif not rec.get("container_unchanged", True):
        fail("candidate modified", f"the collection ({case.get('prov')}) holding the candidate {cand} was modified")
    if rec.get("returned_is_candidate"):
        fail("candidate modified", f"the returned droplet IS the candidate object {cand} (provenance {case.get('prov', 'fresh')})")
    # the optimiser receives the documented options
    if rec["calls"] and "kwargs" in rec["calls"][0]:
        got, want = rec["calls"][0]["kwargs"], expected_lsq_kwargs(case)
        if got != want or rec["calls"][0].get("n_positional", 0) != 0:
            fail("optimiser options", f"least_squares received the options {got}; tolerance={case.get('tolerance')} and "
                                      f"least_squares_params={case.get('lsq_params')} mean {want}")
    if rec["error"] is not None:
        fail("raises:" + rec["error"], f"refine_droplet raised {rec.get('error_message', rec['error'])}")
        return fails
    out = rec["out"]
    prom = rec["promoted"]
    vals = list(out["position"]) + [out["radius"]] + ([out["width"]] if out.get("width") is not None else []) + list(out.get("amplitudes") or [])
    if not all(isinstance(v, float) and math.isfinite(v) for v in vals):
        fail("invalid result", f"the returned droplet has non-finite entries: {out}")
        return fails
    if len(out["position"]) != len(cand["position"]):
        fail("invalid result", f"the returned droplet has {len(out['position'])} coordinates, the candidate {len(cand['position'])}")
        return fails
    # class
    want_cls = prom["cls"]
    if out["cls"] != want_cls:
        fail("class", f"returned class {out['cls']}, candidate class {cand['cls']} (expected {want_cls})")
    if out.get("width") is None:
        fail("class", "returned droplet has no interface width")
        return fails
    # bounds
    if not out["radius"] >= 0:
        fail("bounds", f"negative radius {out['radius']!r}")
    if not out["width"] >= 0:
        fail("bounds", f"negative interface width {out['width']!r}")
    for a in out.get("amplitudes") or []:
        if not -1 <= a <= 1:
            fail("bounds", f"amplitude {a!r} outside [-1, 1]")
    if len(out.get("amplitudes") or []) != len(cand.get("amplitudes") or []):
        fail("class", "number of modes changed")
    # constrained coordinates: bit-identical
    for i in grid_constraints(gs):
        a, b = cand["position"][i], out["position"][i]
        if not (a == b):
            fail("constrained coordinate changed", f"coordinate {i} fixed by the grid symmetry changed from {a!r} to {b!r}")
    # periodic position inside the box
    for w in in_box_failures(gs, out["position"]):
        fail("position outside box", w)
    # cost over the fitted region, recomputed from the returned droplet
    region, image = rec["region"], rec["image"]
    vmin0, vrng0 = impl_levels(case, rec)
    scale = rec["scale"] = level_scale(vrng0)
    if case["adjust"] and rec["calls"] and "x" in rec["calls"][0]:
        # the fitted levels are in units of `scale`
        vmin1, vrng1 = (float(v) * scale for v in rec["calls"][0]["x"][-2:])
    else:
        vmin1, vrng1 = vmin0, vrng0
    try:
        dev0 = deviation(prom, grid, region, image, vmin0, vrng0)
        dev1 = deviation(out, grid, region, image, vmin1, vrng1)
    except Exception as e:  # e.g. a returned droplet that its own class rejects
        fail("invalid result", f"the returned droplet {out} cannot be rendered: {type(e).__name__}: {e}")
        return fails
    rec["dev0"], rec["dev1"] = dev0, dev1
    # float32 data / levels: what the optimiser minimised differs from the binary64 recomputation by rounding (derived bound)
    noise0 = single_precision_noise(case, rec, scale, vmin0, vrng0, dev0 / scale ** 2)
    noise1 = single_precision_noise(case, rec, scale, vmin1, vrng1, dev1 / scale ** 2)
    rec["noise"] = max(noise0, noise1)
    if not dev1 <= dev0 * (1 + COST_RTOL) + COST_ATOL * max(1.0, vrng1 * vrng1) + (noise0 + noise1) * scale ** 2:
        fail("cost increased", f"squared deviation over the fitted region grew from {dev0!r} to {dev1!r}")
    # the region / intensity levels the implementation used are the documented ones
    if rec["dilations"]:
        dl = rec["dilations"][0]
        if not np.array_equal(dl["mask"], region):
            fail("fit region", f"fitted region has {dl['cells']} cells after {dl['iterations']} dilation(s); the candidate's "
                               f"binary image dilated 1 + int(2 w) = {rec['iterations']} times has {int(region.sum())}")
    if rec["calls"] and "nres" in rec["calls"][0] and rec["calls"][0]["nres"] != int(region.sum()):
        fail("fit region", f"{rec['calls'][0]['nres']} residuals but the fit region has {int(region.sum())} cells")
    if rec["calls"] and "cost0" in rec["calls"][0]:
        c0 = rec["calls"][0]["cost0"]
        if not math.isclose(2 * c0, dev0 / scale ** 2, rel_tol=1e-9, abs_tol=1e-18 + noise0):
            fail("start", f"cost at the start vector {2 * c0!r} is not the candidate's squared deviation {dev0!r} in units of the "
                          f"intensity range ({scale!r} squared): {dev0 / scale ** 2!r}")
    # fixed point
    if case.get("fixed_point"):
        tol = FIXED_TOL * max(1.0, abs(cand["radius"]))
        ok = same_point(gs, out["position"], prom["position"], tol)
        ok = ok and abs(out["radius"] - prom["radius"]) <= tol and abs(out["width"] - prom["width"]) <= tol
        ok = ok and all(abs(a - b) <= FIXED_TOL for a, b in zip(out.get("amplitudes") or [], prom.get("amplitudes") or []))
        if not ok:
            fail("fixed point", f"image rendered from the candidate itself, but the result differs: {prom} -> {out}")
    return fails


# =========================================================================================
# proofs with golden fallback (DESIGN.md 2.2)
# =========================================================================================
def prove_with_fallback(ctx, deps: list[str], gens: list[str]) -> tuple[bool, bool]:
    """-> (proofs hold, over the freshly generated text?).  When the fresh Gen_refine / Gen_refine_R / Gen_shapes
    text is missing (translator failed closed) or no longer supports the proofs, the theorems are re-checked over
    the golden model; the tie to the code is then the correspondence run (which must agree)."""
    import gen  # noqa: F401  (first: it loads the plug-ins, among them gen_refine, into its generator table)
    import gen_refine
    assert "Gen_refine" in gen.GENERATORS and "Gen_refine_R" in gen.GENERATORS
    nb, ob, dc = len(ctx.broken), ctx.obligations, ctx.discharged
    ok = vlib.prove(ctx, deps, gens=gens)
    if ok:
        ctx.tie.append("translator (" + ", ".join(gens) + " regenerated from the current source; proofs over the fresh text)")
        return True, True
    first = ctx.broken[nb:]
    if any(b.startswith("forbidden construct") or "assumptions outside" in b for b in first):
        return False, True
    del ctx.broken[nb:]
    ctx.obligations, ctx.discharged = ob, dc
    ctx.notes.append("fresh generated text does not support the proofs -> golden model: " + " | ".join(first)[:700])
    ctx.extra["fresh_text_failure"] = first[:3]
    with vlib.BuildLock():
        vlib._write_if_changed(vlib.COQ_BUILD / "Gen" / "Gen_refine.v", gen_refine.GOLDEN)
        vlib._write_if_changed(vlib.COQ_BUILD / "Gen" / "Gen_refine_R.v", gen_refine.GOLDEN_R)
        if "Gen_shapes" in gens:
            import gen_shapes
            vlib._write_if_changed(vlib.COQ_BUILD / "Gen" / "Gen_shapes.v", gen_shapes.GOLDEN)
    ok2 = vlib.prove(ctx, deps, gens=[])
    ctx.tie.append("tie: correspondence (translator fell back to the golden model)")
    ctx.extra["translator_fell_back"] = True
    return ok2, False


def grid_name(gs: dict) -> str:
    if gs["family"] == "cartesian":
        return f"CartesianGrid({len(gs['shape'])}d)"
    if gs["family"] == "cylindrical":
        return f"CylindricalSymGrid(periodic_z={bool(gs['periodic_z'])})"
    return {"polar": "PolarSymGrid", "spherical": "SphericalSymGrid"}[gs["family"]]


def finding_conditions(case: dict, rec: dict) -> list:
    """the conditions (as worded in known_findings.json) that hold for this run"""
    conds = []
    gs = case["grid"]
    auto = case["vmin"] is None or case["vmax"] is None
    if case["adjust"] and rec.get("region") is not None:
        vmin, vmax = effective_levels(case, rec)
        if vmin >= vmax:
            conds.append("adjust_values and vmin_eff >= vmax_eff")
    if gs["family"] == "cylindrical" and gs["periodic_z"]:
        z0, z1 = gs["bounds_z"]
        if not (z0 <= case["candidate"]["position"][2] < z1):
            conds.append("candidate outside [z0,z1)")
        call = rec["calls"][0] if rec.get("calls") else None
        if call is not None and "x" in call and not (z0 <= float(call["x"][0]) < z1):
            conds.append("fitted centre outside [z0,z1)")   # x[0]: the only free coordinate on a cylinder is z
    if auto and not case["adjust"]:
        conds.append("vmin or vmax None and adjust_values False")
    return conds


# Input classes on which the UNCHANGED /repo fails a statement that the audit of notes/input_dimensions.md added and
# whose status (defect of py-droplets or not) is not decided yet: reported in the evidence notes, NOT judged.
# (S1 "candidate fitted in place" and S2 "integer overflow of the fitted-level bounds" were decided: defects F32 / F33,
# repaired in /repo 0dd6217 / 500ebf2, replays corpus/defects.py F32 / F33 -- both input classes are judged now.)
SUSPECTED: list[dict] = []


def near_bound_start(call: dict) -> bool:
    """scipy's find_active_constraints(x0, lb, ub, rstep=1e-10) flags an entry that is not ON a bound"""
    x0, lo, hi = call["x0"], call["lo"], call["hi"]
    for x, l, h in zip(x0, lo, hi):
        if math.isfinite(l) and l < x and x - l < 1e-10 * max(1.0, abs(l)):
            return True
        if math.isfinite(h) and x < h and h - x < 1e-10 * max(1.0, abs(h)):
            return True
    return False


def suspected_conditions(case: dict, rec: dict) -> list[str]:
    return []


def match_suspected(case: dict, rec: dict, failure: str):
    conds = suspected_conditions(case, rec)
    for e in SUSPECTED:
        fl = e["failure"] if isinstance(e["failure"], list) else [e["failure"]]
        if failure in fl and e["condition"] in conds:
            return e
    return None


def match_known(prop: str, case: dict, rec: dict, failure: str):
    attrs = {"grid": grid_name(case["grid"]), "class": case["candidate"]["cls"]}
    for cond in finding_conditions(case, rec) + [None]:
        e = known_entry(prop, failure, condition=cond, **attrs)
        if e is not None:
            return e
    return None
