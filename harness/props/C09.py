"""C09 -- analysis never aborts on valid input and returns finite droplets.

(a) proofs: Properties/C09.v -- the call-site precondition theorems (collected from C02/C03/C04/C06/C12/C19 plus the
    ones proved in Proofs/C09.v) over the models and the text generated from the current source
(b) error-kind sweep over all public entry points of the real implementation (locate_droplets, locate_droplets_in_mask,
    refine_droplet, get_phase_field / _get_phase_field / Emulsion.get_phasefield, polar_coordinates,
    DropletTrackList.from_emulsion_time_course, SphericalDroplet.overlaps / Emulsion.get_pairwise_distances /
    Emulsion.remove_overlapping with a grid, DropletTracker / LengthScaleTracker.handle), biased to degenerate input
(c) the observed outcome kinds compared with the model guards INSIDE Coq (modes guard, dimension guard, tracking)
(d) evidence

Property oracle (from the property text): only documented invalid requests raise (perturbation modes in one dimension;
droplet / grid dimension mismatch) and they raise the documented error (a ValueError raised by the package's own guard);
every other call completes and every parameter of every returned droplet is finite (an unset interface width excepted),
rendered fields are finite.
"""
from __future__ import annotations

import itertools
import json
import logging
import math
import random
import traceback
import warnings

import numpy as np

import vlib

warnings.simplefilter("ignore")
logging.disable(logging.WARNING)

TRUSTED = [
    "Coq 8.16.1 kernel + vm_compute",
    "translators harness/gen_analysis.py (modes guard, class tree), gen_shapes.py (dimension guard), gen_refine.py (start vector, "
    "bounds), gen.py (sphere conversions) -- fail closed; when one of them fails closed (or its fresh text no longer supports "
    "the proof scripts) all generated files fall back to their golden texts (coq_golden/, in-module GOLDEN) and the tie is the "
    "sweep + guard correspondence",
    "oracles with stated specifications: scipy.ndimage.label (LabelSpec / wf_img, checked per sample by C02), "
    "scipy.optimize.least_squares (lsq_spec and its modelled preconditions, checked per call by C04), scipy cdist / numpy "
    "argmin (preconditions modelled as error values in Model/Tracking.v)",
    "error-kind sweep harness (this file): exception -> (type, innermost droplets function) through the traceback; "
    "refine_droplet observed through the module attribute droplets.image_analysis.refine_droplet",
    "py-pde 0.58.0 grids (construction, transform, difference_vector, normalize_point) are exercised, not modelled, here",
]
ASSUME = [
    "PARTIAL: only exceptions arising at modelled call sites are covered by theorems (division by cell counts / merged "
    "volumes, the angle quotient of polar_coordinates, the spanning signal of the cylindrical locator, cdist / argmin / "
    "indices of the tracker, the start vector and bounds of least_squares, the two guards); every other source of an "
    "exception (numpy / scipy / py-pde internals, numba, the harmonics, the solver's iterations) is covered by the sweep only",
    "valid input = finite field on a grid py-pde constructs; documented option values; droplets with radius >= 0, width None or "
    ">= 0, amplitudes in [-1, 1], on the symmetry centre / axis of symmetric grids; strictly increasing times",
    "documented error = ValueError raised by a function of the droplets package itself (not by numpy / scipy / py-pde)",
    "finite = np.isfinite of every field of droplet.data, `interface_width` excepted when droplet.interface_width is None",
    "inputs matched by a `finding` entry of known_findings.json (generic match on call / grid / failure / condition / class) "
    "are reported as KNOWN-FINDING, not as violations",
]
RULE = ("one evaluation = one call of a public entry point; streams: corpus of the repaired defects (F2-F5, F10, F23), locate_droplets without / with refinement, "
        "locate_droplets_in_mask, refine_droplet on located candidates, rendering (5 classes, all compatible families, "
        "emulsions, dimension mismatch), polar_coordinates, tracking (both methods, +-grid, 3 cut-offs; grid= Cartesian and -- with droplets on "
        "the symmetry centre / axis and consecutive populated frames -- polar, spherical, cylindrical +- periodic z), the distance "
        "primitives of tracking as entry points (SphericalDroplet.overlaps, Emulsion.get_pairwise_distances, Emulsion.remove_overlapping "
        "with grid= every family or None, coincident droplets included), tracker handles; "
        "grids: Cartesian 1-3 d, 1..6 cells per axis, every periodicity mask, isotropic / anisotropic spacing, polar, spherical, "
        "cylindrical +- periodic_z (1..6 cells); fields: constants 0 / 1 / 0.7, single bright cell, all ones, binary noise, "
        "smooth noise, off-axis-only blobs, rendered droplets, each also affinely rescaled (x1000 - 5, x1 + 5, x0.25 + 5); options: the full "
        "documented value sets (threshold 7, minimal_radius 4, interface_width 3, modes 5, refine off + 3 refine_args); "
        "non-trivial = at least one droplet returned / a non-constant rendering / an exception; distinct by the full call")

# everything Properties/C09.v imports (it re-exports theorems of the other properties' proof files)
DEPS = ["Proofs/C09.vo", "Proofs/C02.vo", "Proofs/LocateCart.vo", "Proofs/C03.vo", "Proofs/Render.vo", "Proofs/Profile.vo",
        "Proofs/C04.vo", "Proofs/Refine.vo", "Proofs/RefineVec.vo", "Proofs/C06.vo", "Proofs/C12.vo", "Proofs/C19.vo",
        "Model/Totality.vo"]
GENS = ["Gen_analysis", "Gen_shapes", "Gen_refine", "Gen_refine_R", "Gen_spherical", "Gen_spherical_index",
        "Gen_droplet_basic"]
CLASSES = ["SphericalDroplet", "DiffuseDroplet", "PerturbedDroplet2D", "PerturbedDroplet3D",
           "PerturbedDroplet3DAxisSym"]
# numeric thresholds by description (resolved against the image by resolve_threshold): below / above the range, exactly zero in
# three types, an image value, the image minimum / maximum
THRESHOLDS = [0.5, "extrema", "auto", "mean", "otsu", "below", "above", "zero", "negzero", "np.float64(0)", "value", "min", "max"]
MIN_RADII = ["-inf", 0, 0.5, 1e9, -1.0]
WIDTHS = [None, 0, 0.5]
MODES = [0, 1, 2, 3, 8]
REFINE_ARGS = [{}, {"vmin": None, "vmax": None}, {"vmin": None, "vmax": None, "adjust_values": True},
               {"tolerance": 1e-3}, {"vmin": None, "vmax": None, "adjust_values": True, "least_squares_params": {"max_nfev": 30}}]
# image data types (ScalarField(..., dtype=...)); the narrow integer ones with extreme values whose sum leaves the range of the type
DTYPES = ["float64", "float32", "int64", "uint8", "bool", "int8", "int16"]


# =========================================================================================
# specs -> objects (JSON-able, so that every call can be replayed)
# =========================================================================================
def make_grid(gs: dict):
    from pde import CartesianGrid, CylindricalSymGrid, PolarSymGrid, SphericalSymGrid
    fam = gs["family"]
    if fam == "cartesian":
        return CartesianGrid([tuple(b) for b in gs["bounds"]], list(gs["shape"]), periodic=list(gs["periodic"]))
    if fam == "polar":
        return PolarSymGrid(tuple(gs["radius"]), gs["shape"])
    if fam == "spherical":
        return SphericalSymGrid(tuple(gs["radius"]), gs["shape"])
    if fam == "cylindrical":
        return CylindricalSymGrid(gs["radius"], tuple(gs["bounds_z"]), list(gs["shape"]), periodic_z=gs["periodic_z"])
    raise ValueError(fam)


def grid_dim(gs: dict) -> int:
    if gs["family"] == "cartesian":
        return len(gs["shape"])
    return {"polar": 2, "spherical": 3, "cylindrical": 3}[gs["family"]]


def grid_shape(gs: dict) -> tuple:
    s = gs["shape"]
    return tuple(s) if isinstance(s, (list, tuple)) else (int(s),)


def grid_name(gs: dict) -> str:
    """as worded in known_findings.json"""
    if gs["family"] == "cartesian":
        return f"CartesianGrid({len(gs['shape'])}d)"
    if gs["family"] == "cylindrical":
        return f"CylindricalSymGrid(periodic_z={bool(gs['periodic_z'])})"
    return {"polar": "PolarSymGrid", "spherical": "SphericalSymGrid"}[gs["family"]]


def family_name(gs: dict) -> str:
    if gs["family"] == "cartesian":
        return f"cart{len(gs['shape'])}"
    if gs["family"] == "cylindrical":
        return "cylindrical-periodic" if gs["periodic_z"] else "cylindrical"
    return gs["family"]


def make_droplet(ds: dict):
    import droplets.droplets as dd
    cls = getattr(dd, ds["cls"])
    pos = np.array(ds["position"], dtype=float)
    if ds["cls"] == "SphericalDroplet":
        return cls(pos, ds["radius"])
    if ds["cls"] == "DiffuseDroplet":
        return cls(pos, ds["radius"], ds.get("width"))
    amps = ds.get("amplitudes")
    return cls(pos, ds["radius"], ds.get("width"), list(amps) if amps else None)


def droplet_spec(d) -> dict:
    ds = {"cls": type(d).__name__, "position": [float(x) for x in d.position], "radius": float(d.radius)}
    if hasattr(d, "interface_width"):
        w = d.interface_width
        ds["width"] = None if w is None else float(w)
    if hasattr(d, "amplitudes"):
        ds["amplitudes"] = [float(a) for a in d.amplitudes]
    return ds


def make_field_data(gs: dict, fs: dict) -> np.ndarray:
    """the field recipe -> array (deterministic in the recipe)"""
    from scipy import ndimage
    shape = grid_shape(gs)
    if "bits" in fs:   # exhaustive mask stream: cell i is set iff bit i is set
        n = int(np.prod(shape))
        return np.array([(fs["bits"] >> i) & 1 for i in range(n)], float).reshape(shape)
    kind = fs["kind"]
    nrng = np.random.default_rng(fs.get("seed", 0))
    if kind == "const":
        data = np.full(shape, float(fs["value"]))
    elif kind == "ones":
        data = np.ones(shape)
    elif kind == "single":
        data = np.zeros(shape)
        data[np.unravel_index(fs["cell"] % data.size, shape)] = 1.0
    elif kind == "bnoise":
        data = (nrng.random(shape) < fs["p"]).astype(float)
    elif kind == "snoise":
        x = ndimage.gaussian_filter(nrng.standard_normal(shape), sigma=fs["sigma"], mode="wrap")
        span = float(x.max() - x.min())
        data = (x - x.min()) / span if span > 0 else np.full(shape, 0.5)
    elif kind == "offaxis":   # cylindrical grids: objects away from the symmetry axis only
        data = np.zeros(shape)
        if shape[0] > 1:
            data[1:, :] = (nrng.random((shape[0] - 1, shape[1])) < fs["p"]).astype(float)
    elif kind == "droplets":
        from droplets import Emulsion
        grid = make_grid(gs)
        drops = [make_droplet(d) for d in fs["droplets"]]
        data = Emulsion(drops).get_phasefield(grid).data if drops else np.zeros(shape)
    else:
        raise ValueError(kind)
    return fs.get("a", 1.0) * np.asarray(data, float) + fs.get("b", 0.0)


def make_image(grid, fs: dict, data: np.ndarray):
    """the ScalarField of the recipe's image type: float64 (default), float32, int64 (4 grey levels per unit), bool (cells above
    the mean), narrow integers spread over uint8 10..250 / int8 60..127 / int16 5000..32000 (a constant image takes the upper
    end), i.e. min + max is outside the range of the type (defect F36 of property C18)"""
    from pde import ScalarField
    dt = fs.get("dtype", "float64")
    if dt == "float64":
        return ScalarField(grid, data)
    if dt == "float32":
        return ScalarField(grid, data.astype(np.float32), dtype=np.float32)
    if dt == "int64":
        return ScalarField(grid, np.round(data * 4).astype(np.int64), dtype=np.int64)
    if dt in ("uint8", "int8", "int16"):
        lo, hi = {"uint8": (10, 250), "int8": (60, 127), "int16": (5000, 32000)}[dt]
        span = float(data.max() - data.min())
        vals = np.full(data.shape, float(hi)) if span == 0 else np.round(lo + (data - data.min()) / span * (hi - lo))
        return ScalarField(grid, vals.astype(dt), dtype=np.dtype(dt))
    if dt == "bool":
        return ScalarField(grid, data > data.mean(), dtype=bool)
    raise ValueError(dt)


# =========================================================================================
# outcome of one call
# =========================================================================================
def exc_record(e: BaseException) -> dict:
    tb = traceback.extract_tb(e.__traceback__)
    frames = [(f.filename.replace("\\", "/"), f.name) for f in tb]
    pkg = [name for fn, name in frames if "/droplets/" in fn and "/harness/" not in fn]
    own = bool(frames) and "/droplets/" in frames[-1][0]
    msg = str(e)
    tags = ["raises:" + type(e).__name__, type(e).__name__]
    if "strictly less than each upper bound" in msg or "lower bound must be strictly less" in msg:
        tags.insert(0, "raises:BoundsNotStrict")
    if "zero-size array" in msg:
        tags.insert(0, "raises:EmptyRegion")
    if "infeasible" in msg:
        tags.insert(0, "raises:Infeasible")
    return {"kind": type(e).__name__, "msg": msg[:200], "chain": pkg, "site": pkg[-1] if pkg else None,
            "own_guard": own, "failures": tags}


def finite_failures(drops) -> list[str]:
    out = []
    for i, d in enumerate(drops):
        for name in d.data.dtype.names:
            if name == "interface_width" and d.interface_width is None:
                continue
            v = np.asarray(d.data[name], dtype=float)
            if not np.all(np.isfinite(v)):
                out.append(f"droplet {i} ({type(d).__name__}): {name} = {v.tolist()!r}")
        try:
            arr = np.asarray(d._data_array, dtype=float)
        except Exception as e:  # noqa
            out.append(f"droplet {i}: _data_array raised {type(e).__name__}: {e}")
            continue
        bad = ~np.isfinite(arr)
        if bad.sum() > (1 if (hasattr(d, "interface_width") and d.interface_width is None) else 0):
            out.append(f"droplet {i} ({type(d).__name__}): non-finite entries in _data_array {arr.tolist()!r}")
    return out[:3]


class RefineProbe:
    """observes refine_droplet as called through droplets.image_analysis (module attribute); on an exception records
    the candidate and the conditions (as worded in known_findings.json) that hold for the call"""

    def __enter__(self):
        import droplets.image_analysis as ia
        self.ia, self.orig = ia, ia.refine_droplet
        self.fail = None
        self.calls = 0
        probe = self

        def wrapper(phase_field, droplet, **kw):
            snap = droplet.copy()
            probe.calls += 1
            try:
                return probe.orig(phase_field, droplet, **kw)
            except Exception:
                if probe.fail is None:
                    probe.fail = {"candidate": droplet_spec(snap), "refine_args": {k: v for k, v in kw.items()},
                                  "conds": refine_conditions(phase_field, snap, kw)}
                raise

        ia.refine_droplet = wrapper
        return self

    def __exit__(self, *a):
        self.ia.refine_droplet = self.orig


class NoProbe:
    fail, calls = None, 0

    def __enter__(self):
        return self

    def __exit__(self, *a):
        pass


def refine_conditions(phase_field, cand, kw) -> list[str]:
    from scipy import ndimage
    from droplets import DiffuseDroplet
    from pde import CylindricalSymGrid
    conds = []
    try:
        grid = phase_field.grid
        d = cand.copy() if isinstance(cand, DiffuseDroplet) else DiffuseDroplet.from_droplet(cand)
        if d.interface_width is None:
            d.interface_width = grid.typical_discretization
        mask = d._get_phase_field(grid, dtype=bool)
        region = ndimage.binary_dilation(mask, iterations=1 + int(2 * d.interface_width))
        vmin, vmax = kw.get("vmin", 0.0), kw.get("vmax", 1.0)
        adjust = bool(kw.get("adjust_values", False))
        auto = vmin is None or vmax is None
        if not region.any():
            conds.append("fit region empty")
            if auto:
                conds.append("fit region empty and vmin or vmax None")
        else:
            dm = phase_field.data[region]
            lo = float(dm.min()) if vmin is None else float(vmin)
            hi = float(dm.max()) if vmax is None else float(vmax)
            if adjust and lo >= hi:
                conds.append("adjust_values and vmin_eff >= vmax_eff")
        if isinstance(grid, CylindricalSymGrid) and grid.periodic[1]:
            z0, z1 = grid.axes_bounds[1]
            if not (z0 <= float(cand.position[2]) < z1):
                conds.append("candidate outside [z0,z1)")
        if auto and not adjust:
            conds.append("vmin or vmax None and adjust_values False")
    except Exception as e:  # noqa
        conds.append(f"conditions not computable ({type(e).__name__}: {e})")
    return conds


def resolve_threshold(thr, data):
    """`data`: the image as handed to the implementation (any dtype)"""
    if thr == "below":
        return float(data.min()) - 1.0
    if thr == "above":
        return float(data.max()) + 1.0
    if thr == "zero":
        return 0
    if thr == "negzero":
        return -0.0
    if thr == "np.float64(0)":
        return np.float64(0)
    if thr == "value":
        return float(data.flat[data.size // 2])
    if thr == "min":
        return float(data.min())
    if thr == "max":
        return float(data.max())
    return thr


def locate_kwargs(opt: dict, data) -> dict:
    if opt.get("all_defaults"):   # nothing passed: every documented keyword at its default
        return {}
    kw = {"threshold": resolve_threshold(opt["threshold"], data),
          "minimal_radius": -np.inf if opt["minimal_radius"] == "-inf" else opt["minimal_radius"],
          "modes": opt["modes"], "interface_width": opt["interface_width"], "refine": opt["refine"]}
    if opt["refine"]:
        kw["refine_args"] = json.loads(json.dumps(REFINE_ARGS[opt["refine_args"]]))
    if "num_processes" in opt:
        kw["num_processes"] = opt["num_processes"]
    return kw


def run_case(case: dict) -> dict:
    """runs one call; returns {"kind": "ok" | exception type, ...}; never raises"""
    try:
        return _run_case(case)
    except Exception as e:  # the harness itself failed: reported as a crash of the check
        return {"kind": "HARNESS", "msg": f"{type(e).__name__}: {e}", "trace": traceback.format_exc()[-600:]}


def _run_case(case: dict) -> dict:
    from pde import ScalarField
    entry = case["entry"]
    if entry in ("locate_droplets", "locate_droplets_in_mask", "refine_droplet", "DropletTracker.handle",
                 "LengthScaleTracker.handle"):
        grid = make_grid(case["grid"])
        data = make_field_data(case["grid"], case["field"])
        if not np.all(np.isfinite(data)):
            raise RuntimeError("generated field is not finite")
        image = make_image(grid, case["field"], data)
        data = image.data     # thresholds given by description refer to the image as handed over
    if entry == "locate_droplets":
        from droplets.image_analysis import locate_droplets
        kw = locate_kwargs(case["options"], data)
        # the probe (a local wrapper function) cannot be sent to worker processes: parallel refinement is observed from outside only
        with (NoProbe() if "num_processes" in kw else RefineProbe()) as probe:
            try:
                em = locate_droplets(image.copy(), **kw)
            except Exception as e:  # noqa
                return {**exc_record(e), "refine_fail": probe.fail}
        return {"kind": "ok", "n": len(em), "nonfinite": finite_failures(em), "nrefine": probe.calls,
                "classes": sorted({type(d).__name__ for d in em})}
    if entry == "locate_droplets_in_mask":
        from droplets.image_analysis import locate_droplets_in_mask
        try:
            em = locate_droplets_in_mask(ScalarField(grid, data > 0.5, dtype=bool))
        except Exception as e:  # noqa
            return exc_record(e)
        return {"kind": "ok", "n": len(em), "nonfinite": finite_failures(em)}
    if entry == "refine_droplet":
        import droplets.image_analysis as ia
        field = image
        try:
            cands = list(ia.locate_droplets(field, threshold=resolve_threshold(case["threshold"], data), minimal_radius=-np.inf))
        except Exception as e:  # noqa
            return {**exc_record(e), "stage": "locating the candidates"}
        out = []
        with RefineProbe() as probe:
            for c in cands[:3]:
                try:
                    out.append(ia.refine_droplet(field, c, **json.loads(json.dumps(REFINE_ARGS[case["refine_args"]]))))
                except Exception as e:  # noqa
                    return {**exc_record(e), "refine_fail": probe.fail}
        return {"kind": "ok", "n": len(out), "nonfinite": finite_failures(out), "nrefine": probe.calls}
    if entry == "DropletTracker.handle":
        from droplets.trackers import DropletTracker
        opt = case["options"]
        tr = DropletTracker(1, threshold=resolve_threshold(opt["threshold"], data),
                            minimal_radius=-np.inf if opt["minimal_radius"] == "-inf" else opt["minimal_radius"],
                            refine=opt["refine"],
                            refine_args=json.loads(json.dumps(REFINE_ARGS[opt["refine_args"]])) if opt["refine"] else None,
                            perturbation_modes=opt["modes"])
        with RefineProbe() as probe:
            try:
                for k in range(2):
                    tr.handle(image.copy(), float(k))
            except Exception as e:  # noqa
                return {**exc_record(e), "refine_fail": probe.fail}
        drops = [d for em in tr.data for d in em]
        return {"kind": "ok", "n": len(drops), "nonfinite": finite_failures(drops), "frames": len(tr.data)}
    if entry == "LengthScaleTracker.handle":
        from droplets.trackers import LengthScaleTracker
        tr = LengthScaleTracker(1, method=case["method"])
        try:
            tr.handle(image.copy(), 0.0)
        except Exception as e:  # noqa
            return exc_record(e)
        return {"kind": "ok", "n": len(tr.length_scales), "nonfinite": [], "value": repr(tr.length_scales[0])}
    if entry in ("get_phase_field", "_get_phase_field", "Emulsion.get_phasefield"):
        grid = make_grid(case["grid"])
        try:
            if entry == "Emulsion.get_phasefield":
                from droplets import Emulsion
                f = Emulsion([make_droplet(d) for d in case["droplets"]]).get_phasefield(grid).data
            else:
                d = make_droplet(case["droplet"])
                if entry == "get_phase_field":
                    f = d.get_phase_field(grid, vmin=case.get("vmin", 0.0), vmax=case.get("vmax", 1.0)).data
                else:
                    f = d._get_phase_field(grid, dtype=bool if case.get("bool") else float)
        except Exception as e:  # noqa
            return exc_record(e)
        f = np.asarray(f, dtype=float)
        bad = [] if np.all(np.isfinite(f)) else [f"{int((~np.isfinite(f)).sum())} non-finite cell(s) of {f.size}"]
        return {"kind": "ok", "n": int(f.size), "nonfinite": bad, "nonconstant": bool(f.size and f.min() != f.max())}
    if entry == "polar_coordinates":
        from droplets.tools.spherical import polar_coordinates
        grid = make_grid(case["grid"])
        try:
            res = polar_coordinates(grid, origin=np.array(case["origin"], float), ret_angle=case["ret_angle"])
        except Exception as e:  # noqa
            return exc_record(e)
        arrs = res if isinstance(res, tuple) else (res,)
        bad = [f"output {i}: non-finite values" for i, a in enumerate(arrs) if not np.all(np.isfinite(a))]
        return {"kind": "ok", "n": len(arrs), "nonfinite": bad, "nonconstant": True}
    if entry == "from_emulsion_time_course":
        from droplets import Emulsion
        from droplets.droplet_tracks import DropletTrackList
        from droplets.emulsions import EmulsionTimeCourse
        etc = EmulsionTimeCourse()
        for t, frame in zip(case["times"], case["frames"]):
            etc.append(Emulsion([make_droplet(d) for d in frame]), t)
        kw = {"method": case["method"]}
        if case["grid"] is not None:
            kw["grid"] = make_grid(case["grid"])
        if case["method"] == "distance" and case["max_dist"] is not None:
            kw["max_dist"] = case["max_dist"]
        try:
            tracks = DropletTrackList.from_emulsion_time_course(etc, **kw)
        except Exception as e:  # noqa
            return exc_record(e)
        drops = [d for tr in tracks for d in tr.droplets]
        total = sum(len(f) for f in case["frames"])
        bad = finite_failures(drops)
        if len(drops) != total:
            bad.append(f"{len(drops)} droplets in the tracks, {total} in the time course")
        return {"kind": "ok", "n": len(tracks), "nonfinite": bad}
    if entry in ("overlaps", "get_pairwise_distances", "remove_overlapping"):
        from droplets import Emulsion
        grid = make_grid(case["grid"]) if case["grid"] is not None else None
        drops = [make_droplet(d) for d in case["droplets"]]
        try:
            if entry == "overlaps":
                res = [drops[0].overlaps(d, grid=grid) for d in drops[1:]] + [drops[-1].overlaps(drops[0], grid)]
                bad = [f"overlaps returned {r!r} ({type(r).__name__}), not a truth value" for r in res
                       if not isinstance(r, (bool, np.bool_))]
                return {"kind": "ok", "n": len(res), "nonfinite": bad[:1]}
            if entry == "get_pairwise_distances":
                m = np.asarray(Emulsion(drops).get_pairwise_distances(subtract_radius=case["subtract_radius"], grid=grid))
                bad = []
                if m.shape != (len(drops), len(drops)):
                    bad.append(f"distance matrix of shape {m.shape} for {len(drops)} droplets")
                elif np.iscomplexobj(m) or not np.all(np.isfinite(m)):
                    bad.append("distance matrix with non-finite or complex entries")
                return {"kind": "ok", "n": len(drops), "nonfinite": bad}
            em = Emulsion(drops)
            em.remove_overlapping(min_distance=case["min_distance"], grid=grid)
        except Exception as e:  # noqa
            return exc_record(e)
        bad = finite_failures(em)
        if len(em) > len(drops):
            bad.append(f"{len(em)} droplets after removing from {len(drops)}")
        return {"kind": "ok", "n": len(em), "nonfinite": bad}
    raise ValueError(entry)


def expected_error(case: dict) -> str | None:
    """the documented invalid requests (property text)"""
    entry = case["entry"]
    if entry in ("locate_droplets", "DropletTracker.handle"):
        if case["options"]["modes"] > 0 and grid_dim(case["grid"]) == 1:
            return "modes in 1-d"
    if entry in ("get_phase_field", "_get_phase_field"):
        if len(case["droplet"]["position"]) != grid_dim(case["grid"]):
            return "dimension mismatch"
    if entry == "Emulsion.get_phasefield":
        if any(len(d["position"]) != grid_dim(case["grid"]) for d in case["droplets"]):
            return "dimension mismatch"
    return None


def judge(case: dict, res: dict) -> tuple[str, str | None]:
    """-> (outcome class, failure description or None).  outcome classes: ok | documented | abort | nonfinite |
    undocumented-accept | wrong-error | harness"""
    want = expected_error(case)
    if res["kind"] == "HARNESS":
        return "harness", "check harness failed: " + res["msg"]
    if want:
        if res["kind"] == "ok":
            return "undocumented-accept", f"documented invalid request ({want}) did not raise"
        if res["kind"] != "ValueError" or not res.get("own_guard"):
            return "wrong-error", (f"documented invalid request ({want}) raised {res['kind']} in {res.get('site')}: "
                                   f"{res.get('msg')} -- documented: ValueError from the package's guard")
        return "documented", None
    if res["kind"] != "ok":
        return "abort", f"{case['entry']} raised {res['kind']} (in {res.get('site')}): {res.get('msg')}"
    if res.get("nonfinite"):
        return "nonfinite", f"{case['entry']} returned non-finite data: {res['nonfinite'][0]}"
    return "ok", None


# =========================================================================================
# known findings (generic match on the `match` dict)
# =========================================================================================
def _aslist(x):
    return x if isinstance(x, list) else [x]


def failure_attrs(case: dict, res: dict, cls: str) -> dict:
    rf = res.get("refine_fail") or {}
    chain = list(res.get("chain") or [case["entry"]])
    if case["entry"] not in chain:
        chain.insert(0, case["entry"])
    gs = case.get("grid")
    failures = list(res.get("failures") or [])
    if cls == "nonfinite":
        failures.append("non-finite result")
    return {"calls": chain, "grid": grid_name(gs) if gs else "none", "failures": failures,
            "conds": list(rf.get("conds") or []), "class": (rf.get("candidate") or case.get("droplet") or {}).get("cls"),
            "method": case.get("method")}


def match_known(attrs: dict, entries=None):
    for e in (entries if entries is not None else vlib.load_known()):
        if e.get("kind") != "finding" or "match" not in e:
            continue
        m = e["match"]
        ok = True
        for key, want in m.items():
            wants = _aslist(want)
            if key == "call":
                ok = any(w in attrs["calls"] or w.split(".")[-1] in attrs["calls"] for w in wants)
            elif key == "grid":
                ok = any(attrs["grid"] == w or attrs["grid"].startswith(w + "(") for w in wants)
            elif key == "failure":
                ok = any(w in attrs["failures"] for w in wants)
            elif key == "condition":
                ok = any(w in attrs["conds"] for w in wants)
            else:
                ok = attrs.get(key) in wants
            if not ok:
                break
        if ok:
            return e
    return None


# =========================================================================================
# generators
# =========================================================================================
def gen_cart(rng, dim, max_n=6, periodic=None):
    shape = [min(rng.choice([1, 1, 2, 2, 3, 3, 4, 5, 6]), max_n) for _ in range(dim)]
    mode = rng.random()
    bounds = []
    for n in shape:
        if mode < 0.6:
            h, lo = 1.0, 0.0
        elif mode < 0.8:
            h, lo = rng.choice([0.5, 2.0]), rng.choice([0.0, -1.5])
        else:   # anisotropic
            h, lo = rng.choice([0.25, 0.5, 1.0, 2.0]), rng.choice([0.0, -1.5, 3.0])
        bounds.append([lo, lo + n * h])
    if periodic is None:
        periodic = [rng.random() < 0.5 for _ in range(dim)]
    return {"family": "cartesian", "bounds": bounds, "shape": shape, "periodic": list(periodic)}


def gen_grid(rng, family: str, max3=5):
    if family.startswith("cart"):
        d = int(family[4])
        return gen_cart(rng, d, max_n=6 if d < 3 else max3)
    if family in ("polar", "spherical"):
        n = rng.choice([1, 2, 3, 4, 5, 6])
        r0 = rng.choice([0.0, 0.0, 0.0, 0.5])
        return {"family": family, "radius": [r0, r0 + n * rng.choice([0.5, 1.0, 1.0, 2.0])], "shape": n}
    nr, nz = rng.choice([1, 2, 3, 4, 5]), rng.choice([1, 2, 3, 4, 5, 6])
    if rng.random() < 0.2:   # narrow and finely sliced: objects longer in z-cells than the grid has radial cells
        nr, nz = rng.choice([1, 2]), rng.choice([7, 8, 10, 12])
    hz = rng.choice([0.5, 1.0, 1.0, 2.0])
    z0 = rng.choice([0.0, 0.0, -1.5, 2.0])
    return {"family": "cylindrical", "radius": nr * rng.choice([0.5, 1.0, 1.0]), "bounds_z": [z0, z0 + nz * hz],
            "shape": [nr, nz], "periodic_z": rng.random() < 0.5}


FAMILIES = ["cart1", "cart2", "cart2", "cart3", "polar", "spherical", "cylindrical", "cylindrical"]


def all_cart_grids():
    """every periodicity mask on a few fixed tiny shapes (incl. one cell per axis)"""
    out = []
    for shape in [(1,), (2,), (4,), (1, 1), (1, 3), (3, 2), (4, 4), (1, 1, 1), (2, 1, 3), (3, 3, 2)]:
        for per in itertools.product([False, True], repeat=len(shape)):
            out.append({"family": "cartesian", "bounds": [[0.0, float(n)] for n in shape], "shape": list(shape),
                        "periodic": list(per)})
    return out


def inside_droplets(rng, gs, n):
    """a few valid diffuse droplets inside the grid (on the symmetry locus of symmetric grids)"""
    out = []
    fam = gs["family"]
    for _ in range(n):
        if fam == "cartesian":
            pos = [rng.uniform(b[0], b[1]) for b in gs["bounds"]]
            ext = min(b[1] - b[0] for b in gs["bounds"])
        elif fam in ("polar", "spherical"):
            pos = [0.0] * grid_dim(gs)
            ext = gs["radius"][1]
        else:
            pos = [0.0, 0.0, rng.uniform(*gs["bounds_z"])]
            ext = min(gs["radius"], gs["bounds_z"][1] - gs["bounds_z"][0])
        out.append({"cls": "DiffuseDroplet", "position": pos, "radius": rng.uniform(0.15, 0.6) * max(ext, 0.5),
                    "width": rng.choice([None, 0.0, 0.5, 1.0])})
    return out


def gen_field(rng, gs):
    fam = gs["family"]
    kinds = ["const", "const", "single", "single", "ones", "bnoise", "bnoise", "snoise", "snoise", "droplets"]
    if fam == "cylindrical":
        kinds += ["offaxis", "offaxis", "offaxis"]
    kind = rng.choice(kinds)
    fs = {"kind": kind, "seed": rng.randrange(1 << 30)}
    if kind == "const":
        fs["value"] = rng.choice([0.0, 1.0, 0.7])
    elif kind == "single":
        fs["cell"] = rng.randrange(1 << 16)
    elif kind == "bnoise":
        fs["p"] = rng.choice([0.1, 0.3, 0.5, 0.7, 0.9])
    elif kind == "snoise":
        fs["sigma"] = rng.choice([0.5, 1.0, 2.0])
    elif kind == "offaxis":
        fs["p"] = rng.choice([0.3, 0.6, 1.0])
    elif kind == "droplets":
        fs["droplets"] = inside_droplets(rng, gs, rng.choice([1, 1, 2, 3]))
    if rng.random() < 0.3:   # affinely rescaled: large range around zero / small range on a positive offset
        fs["a"], fs["b"] = rng.choice([(1000.0, -5.0), (1000.0, -5.0), (1.0, 5.0), (0.25, 5.0)])
    if rng.random() < 0.25:  # image data of another type
        fs["dtype"] = rng.choice(DTYPES[1:])
    return fs


def gen_options(rng, refine: bool):
    opt = {"threshold": rng.choice(THRESHOLDS), "minimal_radius": rng.choice(MIN_RADII),
           "interface_width": rng.choice(WIDTHS), "modes": rng.choice(MODES), "refine": refine,
           "refine_args": rng.randrange(len(REFINE_ARGS)) if refine else 0}
    if not refine and rng.random() < 0.05:   # nothing passed explicitly: the documented defaults
        opt = {"threshold": 0.5, "minimal_radius": 0, "interface_width": None, "modes": 0, "refine": False, "refine_args": 0,
               "all_defaults": True}
    return opt


def field_kind(fs: dict) -> str:
    if "bits" in fs:
        return "bits"
    k = fs["kind"] + (f"={fs['value']}" if fs["kind"] == "const" else "")
    return k + (f" *{fs['a']:g}{fs['b']:+g}" if "a" in fs else "")


def gen_locate_cases(ctx, rng):
    cases = []
    fixed = all_cart_grids()
    # (1) every fixed tiny grid x degenerate fields x every threshold rule / modes value (no refinement)
    for gs in fixed:
        for fs in ({"kind": "const", "value": 0.7}, {"kind": "single", "cell": 0}, {"kind": "ones"},
                   {"kind": "bnoise", "p": 0.5, "seed": 7}):
            for thr in THRESHOLDS:
                opt = gen_options(rng, False)
                opt["threshold"] = thr
                cases.append({"entry": "locate_droplets", "grid": gs, "field": dict(fs), "options": opt})
    # (2) random stream without refinement
    for _ in range(ctx.scale(10000, 60000)):
        gs = gen_grid(rng, rng.choice(FAMILIES), max3=6)
        cases.append({"entry": "locate_droplets", "grid": gs, "field": gen_field(rng, gs), "options": gen_options(rng, False)})
    # (3) with refinement (3-d grids <= 5 cells per axis)
    for _ in range(ctx.scale(3000, 20000)):
        gs = gen_grid(rng, rng.choice(FAMILIES), max3=ctx.scale(4, 5))
        opt = gen_options(rng, True)
        if grid_dim(gs) == 3 and opt["modes"] == 8 and rng.random() < ctx.scale(80, 30) / 100:
            opt["modes"] = rng.choice([0, 1, 2, 3])   # the slowest fits: thinned
        cases.append({"entry": "locate_droplets", "grid": gs, "field": gen_field(rng, gs), "options": opt})
    # (4) every option value at least once with refinement on one benign field per family
    for fam in ["cart1", "cart2", "cart3", "polar", "spherical", "cylindrical"]:
        gs = gen_grid(random.Random(5), fam, max3=4)
        if fam.startswith("cart"):
            gs = {"family": "cartesian", "bounds": [[0.0, 4.0]] * int(fam[4]), "shape": [4] * int(fam[4]),
                  "periodic": [True] * int(fam[4])}
        fs = {"kind": "droplets", "droplets": inside_droplets(random.Random(11), gs, 1)}
        for ra in range(len(REFINE_ARGS)):
            for modes in MODES:
                if modes == 8 and grid_dim(gs) == 3 and ctx.quick:
                    continue
                cases.append({"entry": "locate_droplets", "grid": gs, "field": fs,
                              "options": {"threshold": "extrema", "minimal_radius": 0, "interface_width": rng.choice(WIDTHS),
                                          "modes": modes, "refine": True, "refine_args": ra}})
    # (5) every image data type x family x threshold rule x {no refinement, refinement with given / fitted / adjusted levels}
    for fam in ["cart1", "cart2", "cart3", "polar", "spherical", "cylindrical"]:
        gs = gen_grid(random.Random(5), fam, max3=4)
        if fam.startswith("cart"):
            d = int(fam[4])
            gs = {"family": "cartesian", "bounds": [[0.0, 4.0]] * d, "shape": [4] * d, "periodic": [True] + [False] * (d - 1)}
        for dt in DTYPES[1:]:
            for fs0 in ({"kind": "droplets", "droplets": inside_droplets(random.Random(11), gs, 1)}, {"kind": "const", "value": 1.0},
                        {"kind": "bnoise", "p": 0.5, "seed": 3}):
                for thr in (0.5, "extrema", "mean", "otsu", "value", "zero"):
                    for refine, ra in ((False, 0), (True, 0), (True, 1), (True, 2)):
                        if refine and fs0["kind"] == "bnoise" and thr not in ("extrema", "value"):
                            continue
                        cases.append({"entry": "locate_droplets", "grid": gs, "field": {**fs0, "dtype": dt},
                                      "options": {"threshold": thr, "minimal_radius": rng.choice(MIN_RADII), "interface_width": rng.choice(WIDTHS),
                                                  "modes": rng.choice([0, 0, 2]), "refine": refine, "refine_args": ra}})
    # (6) refinement in worker processes (run in the main process of the check, see check())
    for fam, nproc in (("cart2", 2), ("cart2", "auto"), ("cart1", 3), ("cylindrical", 2), ("spherical", 2), ("cart3", 2))[:ctx.scale(4, 6)]:
        gs = gen_grid(random.Random(5), fam, max3=4)
        if fam.startswith("cart"):
            d = int(fam[4])
            gs = {"family": "cartesian", "bounds": [[0.0, 6.0]] * d, "shape": [6] * d, "periodic": [True] * d}
        for fs0 in ({"kind": "droplets", "droplets": inside_droplets(random.Random(12), gs, 2)}, {"kind": "const", "value": 0.0}):
            cases.append({"entry": "locate_droplets", "grid": gs, "field": fs0,
                          "options": {"threshold": "extrema", "minimal_radius": 0, "interface_width": None, "modes": 0, "refine": True,
                                      "refine_args": 1, "num_processes": nproc}})
    return cases


def gen_mask_cases(ctx, rng):
    cases = []
    for gs in all_cart_grids():
        n = int(np.prod(gs["shape"]))
        if n <= 6:
            for bits in range(1 << n):
                cases.append({"entry": "locate_droplets_in_mask", "grid": gs,
                              "field": {"kind": "bits", "bits": bits}})
    for _ in range(ctx.scale(5000, 40000)):
        gs = gen_grid(rng, rng.choice(FAMILIES), max3=6)
        fs = gen_field(rng, gs)
        fs.pop("a", None), fs.pop("b", None)
        cases.append({"entry": "locate_droplets_in_mask", "grid": gs, "field": fs})
    return cases


def gen_refine_cases(ctx, rng):
    cases = []
    for _ in range(ctx.scale(1000, 8000)):
        gs = gen_grid(rng, rng.choice(FAMILIES), max3=ctx.scale(4, 5))
        cases.append({"entry": "refine_droplet", "grid": gs, "field": gen_field(rng, gs),
                      "threshold": rng.choice(["extrema", 0.5, "mean"]), "refine_args": rng.randrange(len(REFINE_ARGS))})
    return cases


def gen_valid_droplet(rng, cls, gs):
    fam = gs["family"]
    dim = grid_dim(gs)
    if fam == "cartesian":
        pos = []
        for (lo, hi), n in zip(gs["bounds"], gs["shape"]):
            h = (hi - lo) / n
            m = rng.random()
            if m < 0.4:
                x = lo + (rng.randrange(n) + 0.5) * h        # exactly on a cell centre
            elif m < 0.55:
                x = lo + rng.randrange(n + 1) * h            # on a cell boundary
            elif m < 0.8:
                x = rng.uniform(lo, hi)
            else:
                x = rng.choice([lo - 2.5 * (hi - lo), hi + 1.25 * (hi - lo), lo - h, hi + 7.0])   # outside the box
            pos.append(x)
        if cls == "PerturbedDroplet3DAxisSym":
            pos[0] = pos[1] = 0.0
        ext = max(b[1] - b[0] for b in gs["bounds"])
    elif fam in ("polar", "spherical"):
        pos, ext = [0.0] * dim, gs["radius"][1]
    else:
        z0, z1 = gs["bounds_z"]
        nz = gs["shape"][1]
        z = rng.choice([z0 + (rng.randrange(nz) + 0.5) * (z1 - z0) / nz, rng.uniform(z0, z1), z0 - 1.5 * (z1 - z0), z1 + 3.0])
        pos, ext = [0.0, 0.0, z], max(gs["radius"], z1 - z0)
    ds = {"cls": cls, "position": pos,
          "radius": rng.choice([0.0, 2.0 ** -6, 0.5, ext / 2, rng.uniform(0.05, ext), 2 * ext, 1e6])}
    if cls != "SphericalDroplet":
        ds["width"] = rng.choice([None, 0.0, 2.0 ** -6, 0.5, 1.0, 4.0])
    if cls.startswith("Perturbed"):
        n = rng.choice({"PerturbedDroplet2D": [0, 1, 2, 4, 6], "PerturbedDroplet3D": [0, 3, 8, 15],
                        "PerturbedDroplet3DAxisSym": [0, 1, 2, 3, 5]}[cls])
        m = rng.random()
        ds["amplitudes"] = [(0.0 if m < 0.15 else rng.choice([-1.0, 1.0, 0.0, 0.5, rng.uniform(-1, 1), rng.uniform(-0.2, 0.2)]))
                            for _ in range(n)]
    return ds


def compatible_family(rng, cls):
    if cls in ("SphericalDroplet", "DiffuseDroplet"):
        return rng.choice(["cart1", "cart2", "cart3", "polar", "spherical", "cylindrical"])
    if cls == "PerturbedDroplet2D":
        return rng.choice(["cart2", "cart2", "polar"])
    if cls == "PerturbedDroplet3D":
        return rng.choice(["cart3", "cart3", "spherical", "cylindrical"])
    return rng.choice(["cart3", "cylindrical", "cylindrical", "spherical"])


def gen_render_cases(ctx, rng):
    cases = []
    for i in range(ctx.scale(6000, 48000)):
        cls = CLASSES[i % len(CLASSES)]
        gs = gen_grid(rng, compatible_family(rng, cls), max3=6)
        if cls == "PerturbedDroplet3DAxisSym" and gs["family"] == "cartesian":
            for k in (0, 1):   # the z axis x = y = 0 carries the droplet
                n = gs["shape"][k]
                h = (gs["bounds"][k][1] - gs["bounds"][k][0]) / n
                lo = -(n // 2) * h - rng.choice([0.0, 0.5, 0.25]) * h
                gs["bounds"][k] = [lo, lo + n * h]
        ds = gen_valid_droplet(rng, cls, gs)
        m = i % 3
        if m == 0:
            vmin, vmax = rng.choice([(0.0, 1.0), (-1.0, 1.0), (1.0, 0.0), (0.5, 0.5), (-5.0, 995.0)])
            cases.append({"entry": "get_phase_field", "grid": gs, "droplet": ds, "vmin": vmin, "vmax": vmax})
        elif m == 1:
            cases.append({"entry": "_get_phase_field", "grid": gs, "droplet": ds, "bool": rng.random() < 0.5})
        else:
            k = rng.choice([0, 1, 2, 3])
            dss = [ds] + [gen_valid_droplet(rng, cls, gs) for _ in range(max(0, k - 1))]
            if k == 0:
                dss = []
            if cls.startswith("Perturbed"):
                for d in dss:
                    d["amplitudes"] = (list(d["amplitudes"]) + [0.0] * 20)[:len(ds["amplitudes"])]
            cases.append({"entry": "Emulsion.get_phasefield", "grid": gs, "droplets": dss})
    # documented invalid request: dimension mismatch, every class against every other dimension / family
    grids = {1: {"family": "cartesian", "bounds": [[0, 4]], "shape": [4], "periodic": [True]},
             2: {"family": "cartesian", "bounds": [[0, 4], [0, 4]], "shape": [4, 4], "periodic": [True, False]},
             3: {"family": "cartesian", "bounds": [[-2, 2], [-2, 2], [0, 4]], "shape": [4, 4, 4], "periodic": [False] * 3}}
    others = [{"family": "polar", "radius": [0, 4], "shape": 4}, {"family": "spherical", "radius": [0, 4], "shape": 4},
              {"family": "cylindrical", "radius": 2, "bounds_z": [0, 4], "shape": [3, 4], "periodic_z": True}]
    for cls in CLASSES:
        for ddim in ((1, 2, 3) if cls in ("SphericalDroplet", "DiffuseDroplet") else ((2,) if cls.endswith("2D") else (3,))):
            ds = {"cls": cls, "position": [0.0] * ddim, "radius": 1.0, "width": 0.5, "amplitudes": [0.1, 0.2]}
            for gs in list(grids.values()) + others:
                if grid_dim(gs) != ddim:
                    cases.append({"entry": "get_phase_field", "grid": gs, "droplet": ds})
                    cases.append({"entry": "_get_phase_field", "grid": gs, "droplet": ds, "bool": True})
                    cases.append({"entry": "Emulsion.get_phasefield", "grid": gs, "droplets": [ds]})
    return cases


def gen_polar_cases(ctx, rng):
    cases = []
    for i in range(ctx.scale(1500, 10000)):
        gs = gen_grid(rng, rng.choice(["cart1", "cart2", "cart3", "cart3", "polar", "spherical", "cylindrical"]), max3=6)
        ds = gen_valid_droplet(rng, "SphericalDroplet", gs)
        cases.append({"entry": "polar_coordinates", "grid": gs, "origin": ds["position"], "ret_angle": i % 4 != 0})
    return cases


def gen_track_cases(ctx, rng):
    cases = []
    fixed = [([], []), ([0.0], [[]]), ([0.0, 1.0], [[], []])]
    for times, frames in fixed:
        for method in ("overlap", "distance"):
            cases.append({"entry": "from_emulsion_time_course", "times": times, "frames": frames, "method": method,
                          "max_dist": None, "grid": None})
    for _ in range(ctx.scale(1500, 10000)):
        dim = rng.choice([1, 2, 2, 3])
        L = rng.choice([4.0, 8.0])
        nf = rng.choice([0, 1, 2, 3, 3, 4, 5, 6])
        cls = rng.choice(["SphericalDroplet", "DiffuseDroplet"])
        frames, prev = [], []
        for _f in range(nf):
            m = rng.random()
            if m < 0.3:
                cur = []                                            # a frame without droplets
            elif m < 0.7 and prev:
                cur = [dict(d, position=[x + rng.uniform(-0.3, 0.3) for x in d["position"]]) for d in prev
                       if rng.random() < 0.8]
                if rng.random() < 0.3:
                    cur.append({"cls": cls, "position": [rng.uniform(0, L) for _ in range(dim)], "radius": rng.uniform(0.2, 1.5)})
            else:
                cur = [{"cls": cls, "position": [rng.uniform(0, L) for _ in range(dim)], "radius": rng.uniform(0.2, 1.5)}
                       for _ in range(rng.choice([1, 1, 2, 3, 4]))]
            if cls == "DiffuseDroplet":
                for d in cur:
                    d.setdefault("width", rng.choice([None, 0.5]))
            frames.append(cur)
            prev = cur
        times = [0.5 * k for k in range(nf)]
        gs = None if rng.random() < 0.5 else {"family": "cartesian", "bounds": [[0.0, L]] * dim, "shape": [int(L)] * dim,
                                              "periodic": [rng.random() < 0.7 for _ in range(dim)]}
        for method in ("overlap", "distance"):
            cases.append({"entry": "from_emulsion_time_course", "times": times, "frames": frames, "method": method,
                          "max_dist": rng.choice([None, 0.5, 2.0]) if method == "distance" else None, "grid": gs})
    return cases


def axis_droplets(rng, gs, cls, n):
    """valid droplets of a symmetric grid: on the symmetry centre (polar, spherical) / on the axis (cylindrical)"""
    fam = gs["family"]
    out = []
    for _ in range(n):
        if fam == "cylindrical":
            z0, z1 = gs["bounds_z"]
            pos = [0.0, 0.0, rng.choice([rng.uniform(z0, z1), z0, z1, z0 + 0.5 * (z1 - z0)])]
            ext = max(gs["radius"], z1 - z0)
        else:
            pos, ext = [0.0] * grid_dim(gs), gs["radius"][1]
        d = {"cls": cls, "position": pos, "radius": rng.choice([rng.uniform(0.05, ext), 0.0, 0.5, ext])}
        if cls == "DiffuseDroplet":
            d["width"] = rng.choice([None, 0.5])
        out.append(d)
    return out


def gen_symmetric_track_cases(ctx, rng):
    """tracking with grid= a polar / spherical / cylindrical (+- periodic z) grid, both methods, consecutive populated frames"""
    cases = []
    for i in range(ctx.scale(400, 3000)):
        gs = gen_grid(rng, ["polar", "spherical", "cylindrical", "cylindrical"][i % 4])
        cls = rng.choice(["SphericalDroplet", "DiffuseDroplet"])
        nf = rng.choice([2, 2, 3, 4, 6])
        frames = []
        for _f in range(nf):
            k = rng.choice([1, 1, 2, 3]) if gs["family"] == "cylindrical" else rng.choice([1, 1, 2])
            frames.append([] if rng.random() < 0.15 else axis_droplets(rng, gs, cls, k))
        times = [0.5 * k for k in range(nf)]
        for method in ("overlap", "distance"):
            cases.append({"entry": "from_emulsion_time_course", "times": times, "frames": frames, "method": method,
                          "max_dist": rng.choice([None, 0.5, 2.0]) if method == "distance" else None, "grid": gs})
    return cases


def gen_overlap_cases(ctx, rng):
    """SphericalDroplet.overlaps / Emulsion.get_pairwise_distances / Emulsion.remove_overlapping with grid= every family (and None)"""
    cases = []
    fams = ["cart1", "cart2", "cart3", "polar", "spherical", "cylindrical", "cylindrical"]
    for i in range(ctx.scale(1400, 10000)):
        gs = gen_grid(rng, fams[i % len(fams)], max3=6)
        cls = rng.choice(["SphericalDroplet", "DiffuseDroplet"])
        n = rng.choice([2, 2, 3, 5])
        if gs["family"] == "cartesian":
            drops = [gen_valid_droplet(rng, cls, gs) for _ in range(n)]
        else:
            drops = axis_droplets(rng, gs, cls, n)
        if rng.random() < 0.2:
            drops[-1] = dict(drops[0])     # coincident droplets
        entry = ["overlaps", "get_pairwise_distances", "remove_overlapping"][(i // len(fams)) % 3]
        case = {"entry": entry, "grid": gs if rng.random() < 0.85 else None, "droplets": drops}
        if entry == "get_pairwise_distances":
            case["subtract_radius"] = rng.random() < 0.5
        if entry == "remove_overlapping":
            case["min_distance"] = rng.choice([0, 0, 0.5, -0.5])
        cases.append(case)
    return cases


def gen_tracker_cases(ctx, rng):
    cases = []
    for _ in range(ctx.scale(300, 2000)):
        gs = gen_grid(rng, rng.choice(FAMILIES), max3=4)
        opt = gen_options(rng, rng.random() < 0.3)
        if grid_dim(gs) == 3 and opt["modes"] == 8:
            opt["modes"] = 2
        cases.append({"entry": "DropletTracker.handle", "grid": gs, "field": gen_field(rng, gs), "options": opt})
    for _ in range(ctx.scale(100, 800)):
        method = rng.choice(["structure_factor_mean", "structure_factor_maximum", "droplet_detection"])
        # droplet_detection on symmetric grids is known finding F16 (property C17) and is not probed here
        gs = gen_grid(rng, rng.choice(["cart1", "cart2", "cart3"] if method == "droplet_detection" else FAMILIES), max3=5)
        cases.append({"entry": "LengthScaleTracker.handle", "grid": gs, "field": gen_field(rng, gs), "method": method})
    # frames without droplets (constant images, every image type) through both trackers, every family
    for fam in ["cart1", "cart2", "cart3", "polar", "spherical", "cylindrical"]:
        gs = gen_grid(random.Random(7), fam, max3=4)
        for value in (0.0, 1.0):
            for dt in DTYPES:
                fs = {"kind": "const", "value": value, "dtype": dt}
                for refine, ra in ((False, 0), (True, 1)):
                    cases.append({"entry": "DropletTracker.handle", "grid": gs, "field": fs,
                                  "options": {"threshold": rng.choice(["extrema", "mean", "otsu", 0.5, "zero"]), "minimal_radius": 0,
                                              "interface_width": None, "modes": 0, "refine": refine, "refine_args": ra}})
                for method in ("structure_factor_mean", "structure_factor_maximum", "droplet_detection"):
                    if method == "droplet_detection" and not fam.startswith("cart"):
                        continue   # F16 (property C17)
                    cases.append({"entry": "LengthScaleTracker.handle", "grid": gs, "field": fs, "method": method})
    return cases


# =========================================================================================
# running
# =========================================================================================
def pool_map(fn, items, chunk=8):
    import multiprocessing as mp
    if len(items) < 64:
        return [fn(x) for x in items]
    with mp.get_context("fork").Pool(min(vlib.NPROC, 16)) as pool:
        return pool.map(fn, items, chunksize=chunk)


def prove_with_fallback(ctx) -> bool:
    """proofs over the freshly generated text; when a translator fails closed (or the fresh text no longer supports
    the proof scripts) the theorems are re-checked over the golden texts of ALL generated files of this property
    (vlib.prove_with_fallback: coq_golden/ + the in-module GOLDEN of Gen_shapes / Gen_refine) -- the tie of this
    property to the code is then the sweep + the guard correspondence (evaluated inside Coq against the golden
    Gen.*), which are run at full strength in any case and need nothing from the translators' Python side"""
    ok, fresh = vlib.prove_with_fallback(ctx, DEPS, gens=GENS)
    ctx.tie.append("error-kind sweep over the implementation + guard correspondence inside Coq (Model/Totality.v over the "
                   + ("regenerated" if fresh else "golden") + " Gen_analysis / Gen_shapes guards)")
    return ok


def strip(case: dict) -> dict:
    return json.loads(json.dumps(case))


def coq_call(case: dict, res: dict, cls: str):
    """-> (Coq literal of the call, observed literal) for the calls that have a model guard"""
    obs = {"ok": "ObsOk", "documented": "ObsValueError"}.get(cls, "ObsOther")
    entry = case["entry"]
    if entry in ("locate_droplets", "DropletTracker.handle"):
        return f"CallLocate {vlib.zlit(grid_dim(case['grid']))} {vlib.zlit(case['options']['modes'])}", obs
    if entry in ("get_phase_field", "_get_phase_field"):
        return f"CallRender {vlib.zlit(len(case['droplet']['position']))} {vlib.zlit(grid_dim(case['grid']))}", obs
    if entry == "Emulsion.get_phasefield" and case["droplets"]:
        dims = {len(d["position"]) for d in case["droplets"]}
        if len(dims) == 1:
            return f"CallRender {vlib.zlit(dims.pop())} {vlib.zlit(grid_dim(case['grid']))}", obs
    if entry == "from_emulsion_time_course":
        fr = vlib.listlit([f"({vlib.qlit(t)}, {len(f)}%nat)" for t, f in zip(case["times"], case["frames"])])
        md = "None" if case["max_dist"] is None else f"(Some {vlib.qlit(case['max_dist'])})"
        return f"CallTrack {vlib.blit(case['method'] == 'distance')} {md} {fr}", obs
    return None


HEADER = """From Coq Require Import QArith ZArith List Bool.
Import ListNotations.
From PD Require Import Model.Tracking Model.Totality.
Local Open Scope Q_scope.
"""


def record_hist(ctx, case, res, cls):
    entry = case["entry"]
    ctx.count("entry_point", entry)
    ctx.count("outcome", cls if cls != "abort" else f"abort:{res['kind']}")
    if case.get("grid"):
        ctx.count("grid_family", family_name(case["grid"]))
        gs = case["grid"]
        ctx.count("cells", int(np.prod(grid_shape(gs))) if int(np.prod(grid_shape(gs))) <= 8 else
                  ("9-36" if int(np.prod(grid_shape(gs))) <= 36 else ">36"))
        if gs["family"] == "cartesian":
            ctx.count("periodic_mask", "".join("P" if p else "-" for p in gs["periodic"]))
    if "field" in case:
        ctx.count("field_kind", field_kind(case["field"]))
        ctx.count("image_dtype", case["field"].get("dtype", "float64"))
        if case["grid"]["family"] == "cylindrical":
            nr, nz = case["grid"]["shape"]
            ctx.count("cylinder_shape", "narrow (nz > 3 nr)" if nz > 3 * nr else ("nz > nr" if nz > nr else "nz <= nr"))
    if "options" in case:
        o = case["options"]
        ctx.count("threshold", o["threshold"])
        ctx.count("options_passed", "none (all defaults)" if o.get("all_defaults") else "all explicitly")
        ctx.count("num_processes", str(o.get("num_processes", "default (1)")))
        ctx.count("minimal_radius", o["minimal_radius"])
        ctx.count("interface_width", o["interface_width"])
        ctx.count("modes", o["modes"])
        ctx.count("refine", ("refine_args=" + json.dumps(REFINE_ARGS[o["refine_args"]])) if o["refine"] else "off")
    if res["kind"] == "ok" and entry in ("locate_droplets", "locate_droplets_in_mask"):
        ctx.count("droplets_returned", min(res["n"], 5) if res["n"] < 5 else "5+")
    if entry in ("overlaps", "get_pairwise_distances", "remove_overlapping"):
        ctx.count("overlap_api", entry + (" grid=None" if case["grid"] is None else " grid=" + family_name(case["grid"])))
        ctx.count("droplets_in_call", len(case["droplets"]))
    if entry == "from_emulsion_time_course":
        ctx.count("track_grid", "none" if case["grid"] is None else family_name(case["grid"]))
        ctx.count("consecutive_populated_frames", "yes" if any(a and b for a, b in zip(case["frames"], case["frames"][1:])) else "no")
        ctx.count("track_method", case["method"] + ("" if case["grid"] is None else "+grid"))
        ctx.count("frames", len(case["frames"]))
        ctx.count("empty_frames", sum(1 for f in case["frames"] if not f))
    if "droplet" in case:
        ctx.count("render_class", case["droplet"]["cls"])


def run_corpus(name: str):
    """one replay of corpus/defects.py: None when the property holds, a description otherwise"""
    import importlib.util
    spec = importlib.util.spec_from_file_location("verif_corpus_defects", str(vlib.ROOT / "corpus" / "defects.py"))
    mod = importlib.util.module_from_spec(spec)
    spec.loader.exec_module(mod)
    try:
        return mod.ALL[name]()
    except Exception as e:  # noqa
        return f"replay {name} raised {type(e).__name__}: {e}"


def corpus_names() -> list[str]:
    """the replays of the defects repaired for this property (known_findings.json, kind = fixed)"""
    names = []
    for e in vlib.load_known():
        if e.get("property") == "C09" and e.get("kind") == "fixed":
            names += [w for w in str(e.get("replay", "")).replace(",", " ").split() if w.startswith("F")]
    return sorted(set(names), key=lambda s: (int("".join(c for c in s if c.isdigit()) or 0), s))


def check(ctx: vlib.Ctx) -> int:
    import droplets  # noqa: F401
    rng = random.Random(ctx.seed)
    ok = prove_with_fallback(ctx)
    # corpus first: the repaired defects of this property must stay repaired
    corpus_fails = []
    for name in corpus_names():
        msg = run_corpus(name)
        ctx.case(["corpus", name])
        ctx.count("stream", "corpus")
        ctx.count("outcome", "ok" if msg is None else "corpus replay fails")
        if msg is not None:
            corpus_fails.append({"what": f"corpus replay {name} (repaired defect): {msg}", "input": {"corpus": name}})
    streams = [("locate", gen_locate_cases), ("mask", gen_mask_cases), ("refine", gen_refine_cases),
               ("render", gen_render_cases), ("polar", gen_polar_cases), ("track", gen_track_cases),
               ("track-symmetric-grid", gen_symmetric_track_cases), ("overlap-api", gen_overlap_cases), ("tracker", gen_tracker_cases)]
    cases = []
    for name, gen in streams:
        cs = gen(ctx, rng)
        ctx.count("stream", name, len(cs))
        cases += cs
    # long fits first so that the pool stays busy; results are mapped back to the generation order
    main_proc = {i for i, c in enumerate(cases) if "num_processes" in (c.get("options") or {})}   # start worker processes themselves
    order = sorted((i for i in range(len(cases)) if i not in main_proc), key=lambda i: -_cost(cases[i]))
    res_sorted = pool_map(run_case, [cases[i] for i in order])
    results = [None] * len(cases)
    for i, r in zip(order, res_sorted):
        results[i] = r
    for i in sorted(main_proc):
        results[i] = run_case(cases[i])
    known_entries = vlib.load_known()
    fails, known_hits, lits, lit_meta, seen_lit = [], {}, [], [], set()
    for case, res in zip(cases, results):
        cls, what = judge(case, res)
        nontrivial = (res["kind"] != "ok") or res.get("n", 0) > 0 and res.get("nonconstant", True)
        ctx.case(case, nontrivial=bool(nontrivial))
        record_hist(ctx, case, res, cls)
        if cls == "harness":
            ctx.broken.append(what + " on " + json.dumps(strip(case))[:300])
            continue
        matched = None
        if what:
            attrs = failure_attrs(case, res, cls)
            matched = match_known(attrs, known_entries)
            inp = {"call": strip(case), "observed": {k: v for k, v in res.items() if k != "trace"}}
            if matched is not None:
                ctx.count("known_finding_hits", matched["id"])
                known_hits.setdefault(matched["id"], (matched, what, inp))
            else:
                fails.append({"what": what, "input": inp, "signature": (case["entry"], cls, res.get("kind"), res.get("site"))})
        lc = coq_call(case, res, cls)
        if lc is not None and matched is None:
            lit = f"({lc[0]}, {lc[1]})"
            if lit not in seen_lit:
                seen_lit.add(lit)
                lits.append(lit)
                lit_meta.append(strip(case))
    ctx.sample({"call": strip(cases[len(cases) // 3]), "outcome": results[len(cases) // 3].get("kind")})
    ctx.sample({"call": strip(cases[-1]), "outcome": results[-1].get("kind")})
    if lits:
        ctx.sample({"coq_case": lits[len(lits) // 2][:300]})
    ctx.count("coq_guard_cases", "distinct (call, observed kind) pairs", len(lits))
    if ok and lits:
        bad = vlib.run_cases(ctx, "outcome", HEADER, lits, "outcome_agree", shard=250)
        for b in bad[:3]:
            ctx.broken.append(f"correspondence error kinds: model guard and implementation differ on {json.dumps(lit_meta[b])[:400]} "
                              f"(case {lits[b][:160]})")
    for fid in sorted(known_hits):
        ent, what, inp = known_hits[fid]
        ctx.known_printed.append(f"[{fid}] {ent['what'][:140]} -- e.g. {what[:200]} on {json.dumps(inp['call'])[:600]}")
    # one violation per failure signature (entry point, class, exception type, raising function): the smallest call
    best = {}
    for f in fails:
        size = len(json.dumps(f["input"]["call"]))
        if f["signature"] not in best or size < best[f["signature"]][0]:
            best[f["signature"]] = (size, f)
    for sig in sorted(best, key=lambda s: [str(x) for x in s])[:5]:
        f = best[sig][1]
        ctx.violations.append({"what": f["what"], "input": f["input"], "found": True, "broken": ctx.broken[:3],
                               "same_signature_failures": sum(1 for g in fails if g["signature"] == sig)})
    for f in corpus_fails[:3]:
        ctx.violations.append({**f, "found": True, "broken": ctx.broken[:3]})
    ctx.extra["failing_calls_total"] = len(fails) + len(corpus_fails)
    return vlib.finish(ctx, "", TRUSTED, ASSUME, RULE)


def _cost(case: dict) -> float:
    """rough relative cost, only used to order the work"""
    n = int(np.prod(grid_shape(case["grid"]))) if case.get("grid") else 1
    if case["entry"] == "refine_droplet":
        return 3.0 * n
    o = case.get("options")
    if o and o.get("refine"):
        return n * (1 + o["modes"]) * (3 if grid_dim(case["grid"]) == 3 else 1)
    return 0.001 * n


def replay(path: str) -> int:
    import droplets  # noqa: F401
    obj = json.load(open(path))
    print(json.dumps(obj, indent=1)[:2500])
    inp = obj.get("input", {})
    if "corpus" in inp:
        msg = run_corpus(inp["corpus"])
        print("property oracle on the current tree:", msg or "holds")
        return 1 if msg else 0
    case = inp.get("call")
    if not case:
        return 0
    res = run_case(case)
    cls, what = judge(case, res)
    print("implementation on the current tree:", json.dumps({k: v for k, v in res.items() if k != "trace"}, default=str)[:800])
    ent = match_known(failure_attrs(case, res, cls)) if what else None
    print("property oracle on the current tree:", what or "holds", f"(known finding {ent['id']})" if ent else "")
    lc = coq_call(case, res, cls)
    if lc:
        print("model guard case:", lc[0], "observed", lc[1])
    return 1 if (what and ent is None) else 0
