"""C09 stub (being written)."""
from __future__ import annotations

import vlib


def check(ctx):
    vlib.prove(ctx, ["Proofs/C09.vo"], gens=["Gen_analysis", "Gen_shapes", "Gen_refine", "Gen_refine_R", "Gen_spherical",
                                             "Gen_spherical_index", "Gen_droplet_basic"])
    return vlib.finish(ctx, "", [], [], "stub")


def replay(path):
    return 0
