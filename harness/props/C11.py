"""C11 -- merging droplets conserves volume and centre of mass."""
from __future__ import annotations

import json
import math
import random

import numpy as np

import vlib

TRUSTED = [
    "Coq 8.16.1 kernel",
    "harness/translate.py + harness/gen_merge.py (Python-ast translator of the two merge_data bodies and of "
    "DropletBase.merge, validated by interval sample goals on every run)",
    "Interval tactic (sample goals only)",
    "real-number model: floating-point evaluation differs by rounding (bounded per sample goal)",
    "numba compiles the same arithmetic as the Python source of merge_data (compared numerically per sample)",
    "numpy: `out.position[...] = expr` evaluates expr into a temporary before copying; vector expressions are elementwise",
]
ASSUME = [
    "theorems are over Coq's R; the implementation computes in binary64",
    "precondition of the property: radii >= 0 and positive total volume (with total volume 0 the code divides 0 by 0)",
    "store model: a droplet record is (radius, position vector, width); `out` may alias drop1 and/or drop2",
    "interface widths are numbers (an unspecified width is stored as NaN and is outside R); with an unspecified width "
    "on either side only volume / centre conservation and path agreement are judged (observed merged width: None)",
    "merging droplets of different classes is outside the documented signature (merge(self: T, other: T)): "
    "SphericalDroplet.merge(DiffuseDroplet) returns a SphericalDroplet and is judged for conservation; the other "
    "direction and the Perturbed subclasses are listed under SUSPECTED in the evidence and not judged",
    "both radii zero (total volume 0) is excluded by the property's precondition",
]
RULE = ("translator sample goals: merge_radius_d / merge_pos_d / merge_width and the store-level merge_exec_d under the "
        "in-place aliasing, evaluated by the implementation (pure-Python merge_data) on seeded operands (radii over "
        "2^-50..2^50 incl. zero-radius operands, positions of both signs) and compared inside Coq by interval "
        "arithmetic; oracle cases: distinct (class, dim, operands) tuples, non-trivial = unequal radii; provenance stream: "
        "every way of obtaining a droplet (constructed, copy, deepcopy, pickle 2/HIGHEST, Emulsion member with and "
        "without copy / after get_linked_data, unpickled Emulsion, HDF5 round trip, previous merge) as first, as second "
        "and as both operands, in place and out of place")

REL = 1e-12  # conservation tolerance requested by the property design (k merges x few ulp each)
PATH_REL = 1e-14  # code paths evaluate the same arithmetic: 4 ulp x (<= 10 operations)


def vol(r: float, d: int) -> float:
    """Volume of a d-ball, written from the property text (not from the implementation)."""
    return {1: 2 * r, 2: math.pi * r * r, 3: 4 * math.pi / 3 * r ** 3}[d]


def _classes():
    from droplets.droplets import DiffuseDroplet, SphericalDroplet
    return {"SphericalDroplet": SphericalDroplet, "DiffuseDroplet": DiffuseDroplet}


def _make(cls_name, d, r, p, w):
    cls = _classes()[cls_name]
    if cls_name == "SphericalDroplet":
        return cls(np.array(p, dtype=float), r)
    return cls(np.array(p, dtype=float), r, w)


def _rand_operand(rng: random.Random, d: int, zero_ok=True):
    kind = rng.random()
    if zero_ok and kind < 0.12:
        r = 0.0
    elif kind < 0.5:
        r = rng.randrange(1, 64) / 8.0
    else:
        r = math.ldexp(1 + rng.randrange(0, 1024) / 1024.0, rng.randrange(-50, 51))  # 30 orders of magnitude
    p = [rng.choice([-1, 1]) * math.ldexp(rng.randrange(0, 4096) / 64.0, rng.randrange(-3, 6)) for _ in range(d)]
    w = rng.randrange(0, 64) / 16.0
    return r, p, w


def _pair(rng, d):
    while True:
        a, b = _rand_operand(rng, d), _rand_operand(rng, d)
        if a[0] + b[0] > 0:
            return a, b


_JIT = {}


def _jitted(cls_name):
    """The register_jitable merge_data called from compiled code (numba)."""
    if cls_name not in _JIT:
        import numba as nb
        md = _classes()[cls_name]._make_merge_data()

        @nb.njit
        def caller(a, b, out):
            md(a, b, out)

        _JIT[cls_name] = caller
    return _JIT[cls_name]


def _rec(drop):
    w = float(drop.data["interface_width"]) if "interface_width" in drop.data.dtype.names else None
    return float(drop.radius), [float(x) for x in drop.position], w


def _close(a, b, rel, scale=0.0):
    return abs(a - b) <= rel * max(abs(a), abs(b), scale)


def _same_rec(x, y, rel, scale):
    if not _close(x[0], y[0], rel):
        return False
    if any(not _close(a, b, rel, scale) for a, b in zip(x[1], y[1])):
        return False
    if x[2] is not None and not _close(x[2], y[2], rel):
        return False
    return True


def check_pair(cls_name, d, A, B, use_numba=True):
    """Property oracle for one pair of operands; returns a list of failure descriptions."""
    fails = []
    inp = {"class": cls_name, "dim": d, "r1": A[0], "p1": A[1], "w1": A[2], "r2": B[0], "p2": B[1], "w2": B[2]}

    def fail(what, **kw):
        fails.append({"what": what, **inp, **kw})

    cls = _classes()[cls_name]
    d1, d2 = _make(cls_name, d, *A), _make(cls_name, d, *B)
    b1, b2 = d1.data.tobytes(), d2.data.tobytes()
    V1, V2 = vol(A[0], d), vol(B[0], d)
    pscale = max([abs(x) for x in A[1] + B[1]] + [1e-300])
    want_pos = [(V1 * x + V2 * y) / (V1 + V2) for x, y in zip(A[1], B[1])]
    # out-of-place
    m = d1.merge(d2, inplace=False)
    rm = _rec(m)
    if m is d1 or m is d2 or type(m) is not cls:
        fail("merge(inplace=False) does not return a new droplet of the same class")
    kf = _kind_failure(m, cls, d)
    if kf:
        fail("result of the wrong kind: " + kf)
        return fails
    if d1.data.tobytes() != b1 or d2.data.tobytes() != b2:
        fail("merge(inplace=False) modified an operand", after=[_rec(d1), _rec(d2)])
    if not (rm[0] >= 0 and _close(vol(rm[0], d), V1 + V2, REL)):
        fail("volume of the merged droplet is not the sum of the volumes", merged_radius=rm[0],
             merged_volume=vol(rm[0], d), expected_volume=V1 + V2)
    if not _close(float(m.volume), float(d1.volume) + float(d2.volume), REL):
        fail("droplet.volume of the merged droplet is not the sum", merged_volume=float(m.volume))
    if any(not _close(a, b, REL, pscale) for a, b in zip(rm[1], want_pos)):
        fail("centre of the merged droplet is not the volume-weighted mean", merged_position=rm[1],
             expected_position=want_pos)
    if rm[2] is not None and not _close(rm[2], (A[2] + B[2]) / 2, PATH_REL):
        fail("interface width of the merged droplet is not the mean", merged_width=rm[2])
    # operand order
    rc = _rec(d2.merge(d1))
    if not _same_rec(rm, rc, PATH_REL, pscale):
        fail("result depends on operand order", a_b=rm, b_a=rc)
    # _merge_data with a fresh out record, with out = drop1 (in-place), via the compiled path
    out = np.record(np.zeros_like(d1.data))
    cls._merge_data(d1.data, d2.data, out=out)
    ro = _rec(cls.from_data(out))
    if not _same_rec(rm, ro, 0.0, 0.0) or d1.data.tobytes() != b1 or d2.data.tobytes() != b2:
        fail("_merge_data(a, b, out=fresh) differs from merge() or modified an operand", got=ro, merge=rm)
    e1 = d1.copy()
    cls._merge_data(e1.data, d2.data, out=e1.data)
    if not _same_rec(rm, _rec(e1), 0.0, 0.0) or d2.data.tobytes() != b2:
        fail("_merge_data(a, b, out=a) differs from the out-of-place result", got=_rec(e1), merge=rm)
    e1 = d1.copy()
    r = e1.merge(d2, inplace=True)
    if r is not e1 or not _same_rec(rm, _rec(e1), 0.0, 0.0):
        fail("merge(inplace=True) differs from merge(inplace=False)", inplace=_rec(e1), copy=rm)
    if d2.data.tobytes() != b2:
        fail("merge(inplace=True) modified the second operand", after=_rec(d2))
    if use_numba:
        jm = _jitted(cls_name)
        out = np.record(np.zeros_like(d1.data))
        jm(d1.data, d2.data, out)
        rj = _rec(cls.from_data(out))
        if not _same_rec(rm, rj, PATH_REL, pscale) or d1.data.tobytes() != b1 or d2.data.tobytes() != b2:
            fail("compiled merge_data (fresh out) differs from merge() or modified an operand", compiled=rj, merge=rm)
        e1 = d1.copy()
        jm(e1.data, d2.data, e1.data)
        if not _same_rec(rm, _rec(e1), PATH_REL, pscale) or d2.data.tobytes() != b2:
            fail("compiled merge_data (out = drop1) differs from merge()", compiled=_rec(e1), merge=rm)
    # a droplet merged with itself (drop1, drop2 and out all alias)
    if A[0] > 0:
        e1 = d1.copy()
        e1.merge(e1, inplace=True)
        rs = _rec(e1)
        if not (_close(vol(rs[0], d), 2 * V1, REL) and all(_close(a, b, REL, pscale) for a, b in zip(rs[1], A[1]))):
            fail("self-merge in place does not double the volume / keep the centre", got=rs)
    return fails


def _random_tree(rng, idx):
    """A random binary grouping (nested tuples) over the indices idx in a random order."""
    idx = list(idx)
    rng.shuffle(idx)

    def build(lst):
        if len(lst) == 1:
            return lst[0]
        k = rng.randrange(1, len(lst))
        return (build(lst[:k]), build(lst[k:]))
    return build(idx)


def check_tree(cls_name, d, ops, rng, ngroup=4):
    fails = []
    inp = {"class": cls_name, "dim": d, "operands": [{"r": o[0], "p": o[1], "w": o[2]} for o in ops]}
    Vs = [vol(o[0], d) for o in ops]
    Vtot = sum(Vs)
    com = [sum(V * o[1][i] for V, o in zip(Vs, ops)) / Vtot for i in range(d)]
    pscale = max(abs(x) for o in ops for x in o[1]) or 1.0

    def ev(t):
        if isinstance(t, int):
            return _make(cls_name, d, *ops[t])
        return ev(t[0]).merge(ev(t[1]))

    def ok(m):
        r, p, _ = _rec(m)
        return _close(vol(r, d), Vtot, REL) and all(_close(a, b, REL, pscale) for a, b in zip(p, com))

    results = []
    for g in range(ngroup):
        t = _random_tree(rng, range(len(ops)))
        m = ev(t)
        results.append(_rec(m))
        if not ok(m):
            fails.append({"what": "repeated merging does not conserve total volume / centre of mass", **inp,
                          "grouping": repr(t), "got": _rec(m), "expected_volume": Vtot, "expected_centre": com})
            break
    # sequential in-place accumulation
    acc = _make(cls_name, d, *ops[0])
    for o in ops[1:]:
        acc.merge(_make(cls_name, d, *o), inplace=True)
    if not ok(acc):
        fails.append({"what": "sequential in-place merging does not conserve total volume / centre of mass", **inp,
                      "got": _rec(acc), "expected_volume": Vtot, "expected_centre": com})
    for r in results[1:]:
        if not (_close(r[0], results[0][0], REL) and all(_close(a, b, REL, pscale) for a, b in zip(r[1], results[0][1]))):
            fails.append({"what": "result depends on the grouping", **inp, "a": results[0], "b": r})
            break
    return fails


def oracle(rng: random.Random, npairs: int, ntrees: int, use_numba=True, ctx=None):
    fails = []
    corpus = [  # fixed cases first: unit droplets of the repo's tests, unequal sizes, a zero-radius operand
        ((1.0, [0.0, 0.0, 0.0], 1.0), (1.0, [2.0, 2.0, 2.0], 2.0)),
        ((1.0, [0.0, 0.0, 0.0], 0.5), (2.0, [3.0, -1.0, 4.0], 1.5)),
        ((0.0, [5.0, 5.0, 5.0], 0.25), (1.5, [-1.0, 2.0, 0.5], 0.75)),
        ((3.0, [1.0, 1.0, 1.0], 1.0), (0.0, [-7.0, 0.0, 2.0], 3.0)),
    ]
    for cls_name in ("SphericalDroplet", "DiffuseDroplet"):
        for d in (1, 2, 3):
            cases = [((a[0], a[1][:d], a[2]), (b[0], b[1][:d], b[2])) for a, b in corpus]
            cases += [_pair(rng, d) for _ in range(npairs)]
            for A, B in cases:
                fails += check_pair(cls_name, d, A, B, use_numba)
                if ctx is not None:
                    ctx.case(["pair", cls_name, d, A, B], nontrivial=A[0] != B[0])
                    ctx.count("class", cls_name)
                    ctx.count("dim", d)
                    ctx.count("operand_kind", "zero-radius operand" if 0 in (A[0], B[0]) else
                              ("equal radii" if A[0] == B[0] else "unequal radii"))
            for _ in range(ntrees):
                n = rng.randrange(3, 11)
                ops = [_rand_operand(rng, d) for _ in range(n)]
                if sum(o[0] for o in ops[:2]) == 0:
                    ops[0] = (1.0, ops[0][1], ops[0][2])
                # every internal node needs positive volume: avoid two zero-radius leaves meeting
                ops = [o if (o[0] > 0 or i == 1) else (0.5, o[1], o[2]) for i, o in enumerate(ops)]
                fails += check_tree(cls_name, d, ops, rng)
                if ctx is not None:
                    ctx.case(["tree", cls_name, d, ops])
                    ctx.count("tree_size", n)
            if len(fails) > 40:
                return fails
    return fails


# ------------------------------------------------------------------------------------------------
# provenance of the operands: the property quantifies over all droplets, however they were obtained
# ------------------------------------------------------------------------------------------------
def _provenances(cls_name, d):
    """name -> function turning a freshly constructed droplet into an equal droplet of that provenance."""
    import copy
    import os
    import pickle
    import tempfile
    from droplets.emulsions import Emulsion

    def other():  # a second member for the emulsions
        return _make(cls_name, d, 0.25, [9.0] * d, 0.125)

    def linked(x):
        e = Emulsion([x, other()])
        e.get_linked_data()
        return e[0]

    def from_file(x):
        root = vlib.BUILD / "cases" / "C11"
        root.mkdir(parents=True, exist_ok=True)
        with tempfile.TemporaryDirectory(dir=root) as t:
            path = os.path.join(t, "emulsion.hdf5")
            Emulsion([x, other()]).to_file(path)
            return Emulsion.from_file(path)[0]

    def merged(x):  # result of a previous merge (with a vanished droplet at the same place: an equal droplet)
        w = x.data["interface_width"] if "interface_width" in x.data.dtype.names else None
        return x.merge(_make(cls_name, d, 0.0, list(x.position), w))

    return {
        "constructed": lambda x: x,
        "copy()": lambda x: x.copy(),
        "copy.deepcopy": lambda x: copy.deepcopy(x),
        "pickle protocol 2": lambda x: pickle.loads(pickle.dumps(x, 2)),
        "pickle HIGHEST_PROTOCOL": lambda x: pickle.loads(pickle.dumps(x, pickle.HIGHEST_PROTOCOL)),
        "Emulsion member": lambda x: Emulsion([x, other()])[0],
        "Emulsion member (copy=False)": lambda x: Emulsion([x, other()], copy=False)[0],
        "Emulsion member after get_linked_data": linked,
        "member of an unpickled Emulsion": lambda x: pickle.loads(pickle.dumps(Emulsion([x, other()])))[0],
        "read back from an HDF5 file": from_file,
        "result of a previous merge": merged,
    }


def check_provenance(cls_name, d, A, B, p1, p2):
    """Conservation, in-place == out-of-place and operand immutability for operands of provenance p1, p2."""
    fails = []
    inp = {"class": cls_name, "dim": d, "r1": A[0], "p1": A[1], "w1": A[2], "r2": B[0], "p2": B[1], "w2": B[2],
           "provenance_first": p1, "provenance_second": p2}

    def fail(what, **kw):
        fails.append({"what": what, **inp, **kw})

    cls = _classes()[cls_name]
    prov = _provenances(cls_name, d)
    try:
        x, y = prov[p1](_make(cls_name, d, *A)), prov[p2](_make(cls_name, d, *B))
        x2 = prov[p1](_make(cls_name, d, *A))
        x3 = prov[p1](_make(cls_name, d, *A))
    except Exception as e:
        fail(f"droplet of this provenance cannot be obtained: {type(e).__name__}: {e}")
        return fails
    sc = max([abs(v) for v in A[1] + B[1]] + [1e-300])
    if not (_same_rec(_rec(x), _rec(_make(cls_name, d, *A)), PATH_REL, sc)
            and _same_rec(_rec(y), _rec(_make(cls_name, d, *B)), PATH_REL, sc)):
        fail("droplet of this provenance differs from the constructed one", got=[_rec(x), _rec(y)])
        return fails
    bx, by = x.data.tobytes(), y.data.tobytes()
    V1, V2 = vol(A[0], d), vol(B[0], d)
    pscale = max([abs(v) for v in A[1] + B[1]] + [1e-300])
    want_pos = [(V1 * a + V2 * b) / (V1 + V2) for a, b in zip(A[1], B[1])]

    def conserved(rec):
        return (_close(vol(rec[0], d), V1 + V2, REL) and all(_close(a, b, REL, pscale) for a, b in zip(rec[1], want_pos))
                and (rec[2] is None or _close(rec[2], (A[2] + B[2]) / 2, PATH_REL)))

    try:
        m = x.merge(y, inplace=False)
        rm = _rec(m)
        if not conserved(rm):
            fail("out-of-place merge does not conserve volume / centre of mass / mean width", merged=rm,
                 expected_volume=V1 + V2, expected_position=want_pos)
        if x.data.tobytes() != bx or y.data.tobytes() != by:
            fail("merge(inplace=False) modified an operand", after=[_rec(x), _rec(y)])
        r = x2.merge(y, inplace=True)
        ri = _rec(x2)
        if r is not x2:
            fail("merge(inplace=True) does not return the first operand")
        if not conserved(ri):
            fail("in-place merge does not conserve volume / centre of mass / mean width", first_operand_after=ri,
                 expected_volume=V1 + V2, expected_position=want_pos)
        if not _same_rec(rm, ri, 0.0, 0.0):
            fail("merge(inplace=True) differs from merge(inplace=False)", inplace=ri, copy=rm)
        if y.data.tobytes() != by:
            fail("merge(inplace=True) modified the second operand", after=_rec(y))
        cls._merge_data(x3.data, y.data, out=x3.data)
        if not _same_rec(rm, _rec(x3), 0.0, 0.0) or y.data.tobytes() != by:
            fail("_merge_data(a, b, out=a) differs from the out-of-place result", got=_rec(x3), merge=rm)
    except Exception as e:
        fail(f"merging raised {type(e).__name__}: {e}")
    return fails


def oracle_provenance(rng, npairs, ctx=None):
    fails = []
    for cls_name in ("SphericalDroplet", "DiffuseDroplet"):
        for d in (1, 2, 3):
            names = list(_provenances(cls_name, d))
            for p in names:
                for k in range(npairs):
                    A, B = _pair(rng, d)
                    if A[0] == 0:
                        A = (1.25, A[1], A[2])
                    if B[0] == 0:
                        B = (0.75, B[1], B[2])
                    roles = [(p, "constructed"), ("constructed", p), (p, rng.choice(names))]
                    for p1, p2 in roles:
                        fails += check_provenance(cls_name, d, A, B, p1, p2)
                        if ctx is not None:
                            ctx.case(["provenance", cls_name, d, A, B, p1, p2])
                            ctx.count("provenance_first_operand", p1)
                            ctx.count("provenance_second_operand", p2)
                if len(fails) > 60:
                    return fails
    return fails


# ------------------------------------------------------------------------------------------------
# audit stream (notes/input_dimensions.md): boundary values, numeric types and scales, option defaults,
# long chains, Emulsion-level merges, results of the wrong kind
# ------------------------------------------------------------------------------------------------
# Inputs whose behaviour on the unchanged tree is reported to the lead and NOT judged (see the final report):
SUSPECTED = [
    {"id": "mixed-classes-diffuse-first",
     "what": "DiffuseDroplet.merge(SphericalDroplet) raises AttributeError (undocumented type); with inplace=True "
             "the first operand is left half-merged (radius and position overwritten, width not)"},
    {"id": "perturbed-subclass-amplitudes",
     "what": "PerturbedDroplet2D/3D.merge: out-of-place result has all amplitudes 0, in-place keeps the first "
             "operand's amplitudes: the two code paths differ for the Perturbed subclasses of DiffuseDroplet"},
]


def _kind_failure(m, cls, d):
    """A result that is not even of the right kind (input_dimensions.md item 7)."""
    if type(m) is not cls:
        return f"result has class {type(m).__name__}, expected {cls.__name__}"
    r = m.radius
    if isinstance(r, complex) or not isinstance(float(r), float) or not math.isfinite(float(r)) or float(r) < 0:
        return f"result radius {r!r} is not a finite non-negative real"
    pos = np.asarray(m.position)
    if pos.shape != (d,) or np.iscomplexobj(pos) or not np.all(np.isfinite(pos)):
        return f"result position {pos!r} is not a finite real vector of length {d}"
    return None


def probe_suspected():
    """Observed behaviour of the SUSPECTED inputs (reported, not judged)."""
    from droplets.droplets import DiffuseDroplet, PerturbedDroplet2D, SphericalDroplet
    out = {}
    x, y = DiffuseDroplet([0.0, 0.0], 1.0, 0.5), SphericalDroplet([2.0, 0.0], 1.0)
    before = _rec(x)
    try:
        x.merge(y, inplace=True)
        out["mixed-classes-diffuse-first"] = f"returned {_rec(x)}"
    except Exception as e:
        out["mixed-classes-diffuse-first"] = (f"raised {type(e).__name__}; first operand before {before}, after {_rec(x)}")
    import logging
    logging.getLogger("droplets.droplets").setLevel(logging.ERROR)
    p, q = PerturbedDroplet2D([0.0, 0.0], 1.0, 0.1, [0.1, 0.0]), PerturbedDroplet2D([2.0, 0.0], 1.0, 0.1, [0.0, 0.2])
    m = p.merge(q)
    pi_ = p.copy()
    pi_.merge(q, inplace=True)
    out["perturbed-subclass-amplitudes"] = (f"out-of-place amplitudes {m.amplitudes.tolist()}, in-place amplitudes "
                                            f"{pi_.amplitudes.tolist()}")
    return out


def check_width_none(d, A, B, none1, none2):
    """DiffuseDroplet with an unspecified width (None, stored as NaN) on either side: volume and centre must
    still be conserved and the code paths must agree; the merged width has no defined mean (observed: None)."""
    fails = []
    cls = _classes()["DiffuseDroplet"]
    w1, w2 = (None if none1 else A[2]), (None if none2 else B[2])
    inp = {"class": "DiffuseDroplet", "dim": d, "r1": A[0], "p1": A[1], "w1": w1, "r2": B[0], "p2": B[1], "w2": w2}
    x, y = cls(np.array(A[1], float), A[0], w1), cls(np.array(B[1], float), B[0], w2)
    by = y.data.tobytes()
    V1, V2 = vol(A[0], d), vol(B[0], d)
    pscale = max([abs(v) for v in A[1] + B[1]] + [1e-300])
    want = [(V1 * a + V2 * b) / (V1 + V2) for a, b in zip(A[1], B[1])]
    m = x.merge(y)
    x2 = x.copy()
    x2.merge(y, inplace=True)
    for tag, r in (("out-of-place", m), ("in-place", x2)):
        k = _kind_failure(r, cls, d)
        if k:
            fails.append({"what": f"{tag} merge with an unspecified width: {k}", **inp})
            continue
        if not (_close(vol(float(r.radius), d), V1 + V2, REL)
                and all(_close(float(a), b, REL, pscale) for a, b in zip(r.position, want))):
            fails.append({"what": f"{tag} merge with an unspecified width does not conserve volume / centre of mass",
                          **inp, "got": [float(r.radius), [float(v) for v in r.position]]})
    if not (float(m.radius) == float(x2.radius) and np.array_equal(m.position, x2.position)
            and m.interface_width == x2.interface_width):
        fails.append({"what": "merge(inplace=True) differs from merge(inplace=False) with an unspecified width", **inp})
    if y.data.tobytes() != by and not (np.isnan(y.data["interface_width"]) and none2):
        fails.append({"what": "merge modified the second operand (unspecified width)", **inp})
    return fails, m.interface_width


def check_types(cls_name, d, A, B, rng):
    """Radius / position / width given as Python int, float, numpy scalar, 0-d array, float32, list, tuple,
    integer array: the merge result must equal the one for plain floats."""
    fails = []
    cls = _classes()[cls_name]
    Ai = (float(round(A[0] * 4) / 4) or 0.25, [float(round(v)) for v in A[1]], float(round(A[2] * 4) / 4))
    Bi = (float(round(B[0])) or 1.0, [float(round(v)) for v in B[1]], float(round(B[2] * 4) / 4))  # integral radius
    ref = _rec(_make(cls_name, d, *Ai).merge(_make(cls_name, d, *Bi)))
    sc = max([abs(v) for v in Ai[1] + Bi[1]] + [1.0])
    kinds = {
        "python int radius, tuple position": lambda o: (int(o[0]), tuple(int(v) for v in o[1])),
        "numpy float64 scalar radius, list position": lambda o: (np.float64(o[0]), list(o[1])),
        "0-d array radius, int64 array position": lambda o: (np.array(o[0]), np.array(o[1], dtype=np.int64)),
        "float32 radius, float32 array position": lambda o: (np.float32(o[0]), np.array(o[1], dtype=np.float32)),
    }
    for name, conv in kinds.items():
        inp = {"class": cls_name, "dim": d, "r1": Ai[0], "p1": Ai[1], "w1": Ai[2], "r2": Bi[0], "p2": Bi[1], "w2": Bi[2],
               "input_type": name}
        try:
            rb, pb = conv(Bi)
            ra, pa = (Ai[0], Ai[1]) if "int radius" in name else conv(Ai)   # A's radius may be fractional
            x = cls(pa, ra) if cls_name == "SphericalDroplet" else cls(pa, ra, Ai[2])
            y = cls(pb, rb) if cls_name == "SphericalDroplet" else cls(pb, rb, Bi[2])
            m = x.merge(y)
            k = _kind_failure(m, cls, d)
            if k:
                fails.append({"what": "merge of droplets built from other numeric types: " + k, **inp})
            elif not _same_rec(_rec(m), ref, PATH_REL, sc):
                fails.append({"what": "merge depends on the numeric type of the constructor arguments", **inp,
                              "got": _rec(m), "expected": ref})
            x.merge(y, inplace=True)
            if not _same_rec(_rec(x), ref, PATH_REL, sc):
                fails.append({"what": "in-place merge depends on the numeric type of the constructor arguments", **inp,
                              "got": _rec(x), "expected": ref})
        except Exception as e:
            fails.append({"what": f"merging droplets built from other numeric types raised {type(e).__name__}: {e}", **inp})
    return fails, list(kinds)


def check_chain(cls_name, d, n, rng):
    """n droplets merged (i) sequentially in place, (ii) as a balanced tree, (iii) inside an Emulsion through its
    members, (iv) through the linked data records of the Emulsion (Class._merge_data on rows)."""
    from droplets.emulsions import Emulsion
    fails = []
    cls = _classes()[cls_name]
    ops = [_rand_operand(rng, d, zero_ok=(i % 7 == 3)) for i in range(n)]
    ops = [(min(max(o[0], 0.0), 2.0 ** 20) if o[0] else 0.0, o[1], o[2]) for o in ops]
    if ops[0][0] == 0:
        ops[0] = (1.0, ops[0][1], ops[0][2])
    Vs = [vol(o[0], d) for o in ops]
    Vtot = math.fsum(Vs)
    com = [math.fsum(V * o[1][i] for V, o in zip(Vs, ops)) / Vtot for i in range(d)]
    pscale = max(abs(x) for o in ops for x in o[1]) or 1.0
    tol = REL * max(1.0, n / 50)      # k merges x few ulp each
    inp = {"class": cls_name, "dim": d, "chain_length": n, "first_operands": [{"r": o[0], "p": o[1], "w": o[2]} for o in ops[:4]]}

    def ok(m):
        r, p, _ = _rec(m)
        return _close(vol(r, d), Vtot, tol) and all(_close(a, b, tol, pscale) for a, b in zip(p, com))

    acc = _make(cls_name, d, *ops[0])
    for o in ops[1:]:
        acc.merge(_make(cls_name, d, *o), inplace=True)
    if _kind_failure(acc, cls, d) or not ok(acc):
        fails.append({"what": "sequential in-place chain does not conserve total volume / centre of mass", **inp,
                      "got": _rec(acc), "expected_volume": Vtot, "expected_centre": com})
    layer = [_make(cls_name, d, *o) for o in ops]
    while len(layer) > 1:
        nxt = [layer[i].merge(layer[i + 1]) for i in range(0, len(layer) - 1, 2)]
        if len(layer) % 2:
            nxt.append(layer[-1])
        layer = nxt
    if _kind_failure(layer[0], cls, d) or not ok(layer[0]):
        fails.append({"what": "balanced merge tree does not conserve total volume / centre of mass", **inp,
                      "got": _rec(layer[0]), "expected_volume": Vtot, "expected_centre": com})
    ne = min(n, 60)
    sub = ops[:ne]
    Vs2 = [vol(o[0], d) for o in sub]
    Vt2 = math.fsum(Vs2)
    com2 = [math.fsum(V * o[1][i] for V, o in zip(Vs2, sub)) / Vt2 for i in range(d)]

    def ok2(m):
        r, p, _ = _rec(m)
        return _close(vol(r, d), Vt2, tol) and all(_close(a, b, tol, pscale) for a, b in zip(p, com2))

    em = Emulsion([_make(cls_name, d, *o) for o in sub])
    for i in range(1, len(em)):
        em[0].merge(em[i], inplace=True)
    if not ok2(em[0]):
        fails.append({"what": "merging the members of an Emulsion into the first one does not conserve volume / centre",
                      **inp, "got": _rec(em[0]), "expected_volume": Vt2, "expected_centre": com2})
    em = Emulsion([_make(cls_name, d, *o) for o in sub])
    rows = em.get_linked_data()
    for i in range(1, len(rows)):
        cls._merge_data(rows[0], rows[i], out=rows[0])
    if not ok2(em[0]):
        fails.append({"what": "Class._merge_data on the linked data rows of an Emulsion does not conserve volume / centre "
                              "(or the member does not see the merged record)",
                      **inp, "got": _rec(em[0]), "expected_volume": Vt2, "expected_centre": com2})
    return fails


def oracle_audit(rng, ctx=None, thorough=False):
    fails = []

    def cnt(key, val):
        if ctx is not None:
            ctx.count(key, val)

    for cls_name in ("SphericalDroplet", "DiffuseDroplet"):
        for d in (1, 2, 3):
            # equal positions (equal and unequal radii, one vanished operand at the same place)
            A, B = _pair(rng, d)
            for rb in (A[0] or 1.0, (A[0] or 1.0) * 3.5, 0.0):
                A2, B2 = (A[0] or 1.0, A[1], A[2]), (rb, list(A[1]), B[2])
                fails += check_pair(cls_name, d, A2, B2, use_numba=False)
                cnt("operand_kind", "equal positions")
                if ctx is not None:
                    ctx.case(["equal-positions", cls_name, d, A2, B2])
            # both operands vanished: excluded by the precondition (positive total volume); counted, not judged
            cnt("operand_kind", "both radii zero (excluded by the precondition, not judged)")
            # extreme and mixed scales: 2^-50 .. 2^50
            for e1, e2 in ((-50, 50), (50, -50), (50, 50), (-50, -50), (0, 45), (-45, 0)):
                A, B = _pair(rng, d)
                A2 = (math.ldexp(1 + rng.randrange(0, 8) / 8.0, e1), A[1], A[2])
                B2 = (math.ldexp(1 + rng.randrange(0, 8) / 8.0, e2), B[1], B[2])
                fails += check_pair(cls_name, d, A2, B2, use_numba=False)
                cnt("radius_scale_log2", f"({e1}, {e2})")
                if ctx is not None:
                    ctx.case(["scales", cls_name, d, A2, B2])
            # numeric types of the constructor arguments
            A, B = _pair(rng, d)
            f, kinds = check_types(cls_name, d, A, B, rng)
            fails += f
            for k in kinds:
                cnt("constructor_argument_types", k)
            # default keyword: merge(other) is the out-of-place merge
            x, y = _make(cls_name, d, *(A[0] or 1.0, A[1], A[2])), _make(cls_name, d, *B)
            bx = x.data.tobytes()
            m0, m1 = x.merge(y), x.merge(y, inplace=False)
            if m0 is x or x.data.tobytes() != bx or not _same_rec(_rec(m0), _rec(m1), 0.0, 0.0):
                fails.append({"what": "merge(other) without the keyword is not the out-of-place merge", "class": cls_name, "dim": d,
                              "r1": A[0] or 1.0, "p1": A[1], "r2": B[0], "p2": B[1]})
            cnt("inplace_keyword", "omitted (default)")
            # long chains and Emulsion-level merges
            for n in ((3, 40) if not thorough else (3, 40, 1200)):
                fails += check_chain(cls_name, d, n, rng)
                cnt("chain_length", n)
        # width kinds (DiffuseDroplet): 0.0 and None on either side
        if cls_name == "DiffuseDroplet":
            for d in (1, 2, 3):
                A, B = _pair(rng, d)
                A, B = (A[0] or 1.0, A[1], A[2]), (B[0] or 2.0, B[1], B[2])
                for w1, w2 in ((0.0, B[2] or 0.5), (A[2] or 0.5, 0.0), (0.0, 0.0)):
                    fails += check_pair(cls_name, d, (A[0], A[1], w1), (B[0], B[1], w2), use_numba=False)
                    cnt("width_kind", f"({'0.0' if w1 == 0 else 'value'}, {'0.0' if w2 == 0 else 'value'})")
                for n1, n2 in ((True, False), (False, True), (True, True)):
                    f, wres = check_width_none(d, A, B, n1, n2)
                    fails += f
                    cnt("width_kind", f"({'None' if n1 else 'value'}, {'None' if n2 else 'value'}) -> merged width {wres}")
    # mixed classes, first operand spherical (returns a SphericalDroplet): judged for conservation
    from droplets.droplets import DiffuseDroplet, SphericalDroplet
    for d in (1, 2, 3):
        A, B = _pair(rng, d)
        A, B = (A[0] or 1.0, A[1], A[2]), (B[0] or 2.0, B[1], B[2])
        x, y = _make("SphericalDroplet", d, *A), _make("DiffuseDroplet", d, *B)
        by = y.data.tobytes()
        inp = {"class": "SphericalDroplet.merge(DiffuseDroplet)", "dim": d, "r1": A[0], "p1": A[1], "r2": B[0], "p2": B[1], "w2": B[2]}
        try:
            m = x.merge(y)
            V1, V2 = vol(A[0], d), vol(B[0], d)
            ps = max([abs(v) for v in A[1] + B[1]] + [1e-300])
            want = [(V1 * a + V2 * b) / (V1 + V2) for a, b in zip(A[1], B[1])]
            k = _kind_failure(m, SphericalDroplet, d)
            if k or not (_close(vol(float(m.radius), d), V1 + V2, REL)
                         and all(_close(float(a), b, REL, ps) for a, b in zip(m.position, want))) or y.data.tobytes() != by:
                fails.append({"what": "SphericalDroplet.merge(DiffuseDroplet) returns a droplet that does not conserve volume / "
                                      "centre of mass (or modifies the second operand)" + (": " + k if k else ""), **inp})
        except Exception as e:
            if y.data.tobytes() != by or not _same_rec(_rec(x), _rec(_make("SphericalDroplet", d, *A)), 0.0, 0.0):
                fails.append({"what": f"SphericalDroplet.merge(DiffuseDroplet) raised {type(e).__name__} and modified an operand", **inp})
        cnt("operand_classes", "SphericalDroplet.merge(DiffuseDroplet)")
    cnt("operand_classes", "DiffuseDroplet.merge(SphericalDroplet): SUSPECTED, reported, not judged")
    cnt("operand_classes", "Perturbed subclasses: SUSPECTED, reported, not judged")
    return fails


def oracle_sequence(rng, ctx=None, n=10):
    """Sequence dimension: `_merge_data` is created once per class by a factory (and compiled once per record
    type by numba): merges of different dimensions and classes are interleaved in a random order, each pair is
    merged twice (out of place: the two results must be identical, nothing may remember an earlier call), and the
    radius / position of an operand is changed through the public setters between two merges."""
    fails = []
    hist = []
    keep = {}
    for i in range(n):
        cls_name = rng.choice(["SphericalDroplet", "DiffuseDroplet"])
        d = rng.choice([1, 2, 3])
        hist.append(f"{cls_name} dim {d}")
        if ctx is not None:
            ctx.count("sequence_class_and_dimension", f"{cls_name} dim {d}")
            ctx.count("sequence_transition", "first" if i == 0 else f"{hist[-2]} -> {hist[-1]}")
        A, B = _pair(rng, d)
        A, B = (A[0] or 1.0, A[1], A[2]), (B[0] or 2.0, B[1], B[2])
        f = check_pair(cls_name, d, A, B, use_numba=True)
        for x in f:
            x["sequence_of_earlier_merges"] = list(hist)
        fails += f
        x, y = _make(cls_name, d, *A), _make(cls_name, d, *B)
        m1, m2 = _rec(x.merge(y)), _rec(x.merge(y))
        if not _same_rec(m1, m2, 0.0, 0.0):
            fails.append({"what": "two identical out-of-place merges give different results", "class": cls_name, "dim": d,
                          "r1": A[0], "p1": A[1], "w1": A[2], "r2": B[0], "p2": B[1], "w2": B[2],
                          "sequence_of_earlier_merges": list(hist)})
        # change the first operand through the setters, merge again: the result must follow the new values
        x.radius = A[0] * 1.5
        x.position = np.array([v + 0.75 for v in A[1]])
        A2 = (A[0] * 1.5, [v + 0.75 for v in A[1]], A[2])
        got, want = _rec(x.merge(y)), _rec(_make(cls_name, d, *A2).merge(_make(cls_name, d, *B)))
        V1, V2 = vol(A2[0], d), vol(B[0], d)
        if not _same_rec(got, want, 0.0, 0.0) or not _close(vol(got[0], d), V1 + V2, REL):
            fails.append({"what": "merge after changing the first operand through its setters does not use the new values",
                          "class": cls_name, "dim": d, "r1": A2[0], "p1": A2[1], "w1": A2[2], "r2": B[0], "p2": B[1], "w2": B[2],
                          "got": got, "expected": want, "sequence_of_earlier_merges": list(hist)})
        # the same pair again after merges of other dimensions / classes in between
        key = (cls_name, d)
        if key in keep:
            A0, B0, m0 = keep[key]
            again = _rec(_make(cls_name, d, *A0).merge(_make(cls_name, d, *B0)))
            if not _same_rec(again, m0, 0.0, 0.0):
                fails.append({"what": "the same merge gives a different result after merges of other dimensions / classes",
                              "class": cls_name, "dim": d, "r1": A0[0], "p1": A0[1], "w1": A0[2], "r2": B0[0], "p2": B0[1],
                              "w2": B0[2], "first": m0, "later": again, "sequence_of_earlier_merges": list(hist)})
        keep[key] = (A, B, m1)
        if ctx is not None:
            ctx.case(["sequence", i, cls_name, d, A, B])
    return fails


def oracle_state(rng, ctx=None, n=8):
    """Dimension 8: merge results kept alive across later merges (no shared output buffer), results must not alias
    the operands or each other, getters of a merged droplet must not change it, arrays passed to constructors
    and setters stay unchanged and unaliased."""
    fails = []
    alive = []      # (droplet, record at creation, description)
    for i in range(n):
        cls_name = ["SphericalDroplet", "DiffuseDroplet"][i % 2] if i < 4 else rng.choice(["SphericalDroplet", "DiffuseDroplet"])
        d = [3, 3, 2, 2][i] if i < 4 else rng.choice([1, 2, 3])      # the same record type several times in a row
        A, B = _pair(rng, d)
        A, B = (A[0] or 1.0, A[1], A[2]), (B[0] or 2.0, B[1], B[2])
        inp = {"class": cls_name, "dim": d, "r1": A[0], "p1": A[1], "w1": A[2], "r2": B[0], "p2": B[1], "w2": B[2]}
        x, y = _make(cls_name, d, *A), _make(cls_name, d, *B)
        bx, by = x.data.tobytes(), y.data.tobytes()
        m = x.merge(y)
        mi = x.copy()
        mi.merge(y, inplace=True)
        alive.append((m, _rec(m), {**inp, "path": "out of place"}))
        alive.append((mi, _rec(mi), {**inp, "path": "in place"}))
        if ctx is not None:
            ctx.count("results_kept_alive", f"{cls_name} dim {d}")
            ctx.case(["state", i, cls_name, d, A, B])
        # the result must not share memory with the operands or with an earlier result
        fields = lambda dr: [np.asarray(dr.data[f]) for f in dr.data.dtype.names]
        if any(np.shares_memory(a, b) for a in fields(m) for b in fields(x) + fields(y)):
            fails.append({"what": "the out-of-place merge result shares memory with an operand", **inp})
        for (o, _, desc) in alive[:-2]:
            if type(o) is type(m) and len(o.position) == d and any(np.shares_memory(a, b) for a in fields(m) for b in fields(o)):
                fails.append({"what": "two merge results share memory", **inp, "earlier": desc})
                break
        # getters of the merged droplet: called twice, the record must not change
        b0 = m.data.tobytes()
        for g in ("volume", "surface_area", "radius", "position", "bbox", "interface_curvature", "data_bounds", "dim", "_args"):
            try:
                getattr(m, g)
                getattr(m, g)
            except Exception as e:
                fails.append({"what": f"getter {g} of a merged droplet raised {type(e).__name__}: {e}", **inp})
            if m.data.tobytes() != b0:
                fails.append({"what": f"the getter {g} changes the merged droplet's record", **inp, "getter": g})
                b0 = m.data.tobytes()
        # modifying the result must not reach the operands
        m2 = x.merge(y)
        m2.radius = 123.0
        m2.position = np.array(B[1]) + 7.0
        if x.data.tobytes() != bx or y.data.tobytes() != by:
            fails.append({"what": "modifying an out-of-place merge result changes an operand", **inp})
        # every result created so far still holds the value it had when it was created
        for (o, rec0, desc) in alive:
            if not _same_rec(_rec(o), rec0, 0.0, 0.0):
                fails.append({"what": "a merge result kept alive changed when later merges were performed", **desc,
                              "value_at_creation": rec0, "value_now": _rec(o), "later_merge": inp})
                break
        # arrays passed to the constructor / setter: unchanged, not aliased
        pa = np.array(A[1], dtype=float)
        pb = pa.copy()
        z = _make(cls_name, d, A[0], pa, A[2]) if False else _classes()[cls_name](pa, A[0], *( [A[2]] if cls_name == "DiffuseDroplet" else []))
        bz = z.data.tobytes()
        if not np.array_equal(pa, pb):
            fails.append({"what": "the constructor modified its position argument", **inp})
        pa += 1.0
        if z.data.tobytes() != bz:
            fails.append({"what": "the droplet aliases the position array passed to the constructor", **inp})
        pn = pb + 0.5
        z.position = pn
        bz = z.data.tobytes()
        pn += 2.0
        if z.data.tobytes() != bz:
            fails.append({"what": "the droplet aliases the array assigned through the position setter", **inp})
        if len(fails) > 20:
            break
    return fails


def _sample_goals_retry(ctx, name, req, goals, unfold, tries=3):
    """vlib.sample_goals, repeated when coqc died without any output (the signature of the kernel's OOM killer on
    the shared machine: a real Coq error always prints a message).  Nothing is retried when Coq reported anything."""
    import time
    marker = f"sample goals {name}: cannot evaluate: "
    for attempt in range(tries):
        res = vlib.sample_goals(ctx, name, req, goals, unfold)
        if marker in ctx.broken and attempt + 1 < tries:
            ctx.broken.remove(marker)
            ctx.notes.append(f"sample goals {name}: coqc died without output (killed); retried")
            time.sleep(5 + 10 * attempt)
            continue
        return res
    return res


def _sample_goals(ctx, rng):
    """Generated definitions vs the implementation's own results, compared inside Coq."""
    goals, exec_goals = [], []
    n = ctx.scale(5, 24)
    cls = _classes()["DiffuseDroplet"]
    for d in (1, 2, 3):
        for k in range(n):
            A, B = _pair(rng, d)
            if k == 0 and A[0] > 0:     # always a vanished second / first operand among the samples
                B = (0.0, B[1], B[2])
            elif k == 1 and B[0] > 0:
                A = (0.0, A[1], A[2])
            elif k == 2:                # equal positions
                A, B = (A[0] or 1.0, A[1], A[2]), (B[0] or 2.5, list(A[1]), B[2])
            elif k == 3:                # 30 orders of magnitude between the radii
                A, B = (math.ldexp(1.25, -50), A[1], A[2]), (math.ldexp(1.5, 50), B[1], B[2])
            ctx.count("sample_goal_kind", {0: "second operand vanished", 1: "first operand vanished", 2: "equal positions",
                                           3: "radii 2^-50 and 2^50"}.get(k, "random"))
            d1, d2 = _make("DiffuseDroplet", d, *A), _make("DiffuseDroplet", d, *B)
            out = np.record(np.zeros_like(d1.data))
            cls._merge_data(d1.data, d2.data, out=out)
            r, p, w = _rec(cls.from_data(out))
            ps = max(abs(A[1][0]), abs(B[1][0]))
            R = vlib.rlit
            goals.append((f"merge_radius_{d}({A[0]!r},{B[0]!r})", f"merge_radius_{d} {R(A[0])} {R(B[0])}", r,
                          1e-13 * abs(r) + 1e-300))
            goals.append((f"merge_pos_{d}({A[0]!r},{B[0]!r},{A[1][0]!r},{B[1][0]!r})",
                          f"merge_pos_{d} {R(A[0])} {R(B[0])} {R(A[1][0])} {R(B[1][0])}", p[0], 1e-13 * ps + 1e-300))
            if d == 1:
                goals.append((f"merge_width({A[2]!r},{B[2]!r})", f"merge_width {R(A[2])} {R(B[2])}", w,
                              1e-14 * abs(w) + 1e-300))
            ctx.case(["sample", d, A, B], nontrivial=A[0] != B[0])
            ctx.count("sample_goal_dim", d)
            if k < 2:
                # the statement-level store model under the aliasing of merge(inplace=True):
                # implementation values from the in-place call
                e1 = d1.copy()
                e1.merge(d2, inplace=True)
                ri, pi_, wi = _rec(e1)
                heap = (f"(fun c : nat => match c with O => mk_drop {R(A[0])} (fun _ => {R(A[1][0])}) {R(A[2])} "
                        f"| _ => mk_drop {R(B[0])} (fun _ => {R(B[1][0])}) {R(B[2])} end)")
                cell = f"(merge_exec_diffuse_{d} (fst merge_call_inplace) {heap} (snd merge_call_inplace))"
                ops = f"r=({A[0]!r},{B[0]!r}) p=({A[1][0]!r},{B[1][0]!r}) w=({A[2]!r},{B[2]!r})"
                exec_goals.append((f"exec_{d} radius in place {ops}", f"d_radius {cell}", ri, 1e-13 * abs(ri) + 1e-300))
                exec_goals.append((f"exec_{d} position in place {ops}", f"d_pos {cell} 0%nat", pi_[0], 1e-13 * ps + 1e-300))
                exec_goals.append((f"exec_{d} width in place {ops}", f"d_width {cell}", wi, 1e-14 * abs(wi) + 1e-300))
    ctx.sample({"goal": f"Rabs ({goals[1][1]} - {vlib.rlit(goals[1][2])}) <= tol", "impl_value": goals[1][2]})
    req = "From Coq Require Import Reals Arith.\nFrom PD Require Import Model.Num Gen.Gen_spherical Gen.Gen_merge."
    unfold = [f"{f}_{d}" for f in ("merge_radius", "merge_pos", "vfr_nd", "rfv_nd") for d in (1, 2, 3)] + ["merge_width"]
    unfold_exec = ([f"merge_exec_diffuse_{d}" for d in (1, 2, 3)] + [f"merge_exec_{d}" for d in (1, 2, 3)]
                   + ["merge_call_inplace", "set_radius", "set_pos", "set_width"]
                   + [f"{f}_{d}" for f in ("vfr_nd", "rfv_nd") for d in (1, 2, 3)]
                   + ["upd; cbn [Nat.eqb fst snd d_radius d_pos d_width]"])
    from concurrent.futures import ThreadPoolExecutor
    shards = [(f"c11_{i}", goals[i::6], unfold) for i in range(6)] + [("c11_exec", exec_goals, unfold_exec)]
    with ThreadPoolExecutor(8) as ex:
        res = list(ex.map(lambda a: _sample_goals_retry(ctx, a[0], req, a[1], a[2]), shards))
    return [g for r in res for g in r]


def check(ctx: vlib.Ctx) -> int:
    rng = random.Random(ctx.seed)
    ok, fresh = vlib.prove_with_fallback(ctx, ["Proofs/C11.vo", "Model/Samples.vo"], gens=["Gen_spherical", "Gen_merge"])
    ctx.tie.append("interval sample goals: merge_radius_d / merge_pos_d / merge_width / in-place merge_exec_d of the "
                   + ("regenerated" if fresh else "golden") + " Gen_merge evaluated inside Coq against the implementation's "
                   "results; numerical correspondence of merge()/_merge_data/compiled paths on seeded operands")
    if ok:
        # the goals mention only Coq names of Gen_merge (fresh or golden text) and values computed by the
        # implementation: nothing from the translator's Python side is needed
        failed = _sample_goals(ctx, rng)
        if not fresh:
            for label, expr, val in failed[:3]:
                ctx.violations.append({"what": "golden merge model and implementation differ", "found": True,
                                       "input": {"sample": label, "coq_expression": expr, "implementation_value": val}})
    # property oracle over the implementation: always a small stream; larger when something is broken
    big = bool(ctx.broken)
    fails = oracle(rng, ctx.scale(12, 120) * (3 if big else 1), ctx.scale(4, 40) * (3 if big else 1), True, ctx)
    fails += oracle_provenance(rng, ctx.scale(1, 6), ctx)
    fails += oracle_audit(rng, ctx, thorough=not ctx.quick)
    fails += oracle_sequence(rng, ctx, n=ctx.scale(10, 60))
    fails += oracle_state(rng, ctx, n=ctx.scale(8, 40))
    try:
        sus = probe_suspected()
    except Exception as e:  # reported, never judged
        sus = {"probe": f"raised {type(e).__name__}: {e}"}
    ctx.extra["suspected_not_judged"] = [{**x, "observed": sus.get(x["id"])} for x in SUSPECTED]
    ctx.notes.append("SUSPECTED inputs (reported to the lead, not judged): " + "; ".join(
        f"{x['id']}: {sus.get(x['id'])}" for x in SUSPECTED))
    seen = set()
    for f in fails:
        if f["what"] in seen:
            continue
        seen.add(f["what"])
        ctx.violations.append({"what": f["what"], "input": f, "found": True, "broken": ctx.broken[:3]})
        if len(seen) >= 4:
            break
    return vlib.finish(ctx, "", TRUSTED, ASSUME, RULE)


def replay(path: str) -> int:
    obj = json.load(open(path))
    print(json.dumps(obj, indent=1))
    inp = obj.get("input") or {}
    fails = []
    if "provenance_first" in inp:
        fails = check_provenance(inp["class"], inp["dim"], (inp["r1"], inp["p1"], inp["w1"]),
                                 (inp["r2"], inp["p2"], inp["w2"]), inp["provenance_first"], inp["provenance_second"])
    elif "r1" in inp:
        fails = check_pair(inp["class"], inp["dim"], (inp["r1"], inp["p1"], inp["w1"]),
                           (inp["r2"], inp["p2"], inp["w2"]))
    elif "operands" in inp:
        ops = [(o["r"], o["p"], o["w"]) for o in inp["operands"]]
        fails = check_tree(inp["class"], inp["dim"], ops, random.Random(0), 8)
    else:
        fails = oracle(random.Random(0), 20, 6)
    print("oracle failures on the current tree:", len(fails))
    for f in fails[:5]:
        print("  ", f["what"])
    return 1 if fails else 0
