"""C19 -- the requested droplet model determines the class and shape of every result."""
from __future__ import annotations

import itertools
import json
import random

import numpy as np

import vlib

TRUSTED = [
    "Coq 8.16.1 kernel + vm_compute",
    "harness/gen_analysis.py (fail-closed translator of the class decision tree, the modes guard, amplitude count, refine promotion)",
    "correspondence harness: classes/amplitude counts/widths observed through locate_droplets on the enumerated configurations",
]
ASSUME = [
    "locate_droplets_in_mask returns SphericalDroplet candidates (checked per configuration)",
    "refined results keep the candidate's class (C04: refine_class); observed per configuration",
]
RULE = ("complete enumeration: 12 grids (Cartesian 1-3d x periodicity masks, polar, spherical, cylindrical +/- periodic z) x modes {0,1,2,3,8} "
        "x width {not given, 0.5, 0.0} x refine on/off x threshold rule {0.5, extrema, mean, otsu}; non-trivial = at least one droplet located; "
        "distinct by configuration")

CLS = {"SphericalDroplet": "Spherical", "DiffuseDroplet": "Diffuse", "PerturbedDroplet2D": "P2D",
       "PerturbedDroplet3D": "P3D", "PerturbedDroplet3DAxisSym": "P3DAxi"}


def grids():
    from pde import CartesianGrid, PolarSymGrid, SphericalSymGrid, CylindricalSymGrid
    out = []
    for per in (False, True):
        out.append((f"cart1d[{per}]", CartesianGrid([(0, 16)], [16], periodic=per), False))
    for per in ([False, False], [True, True], [True, False]):
        out.append((f"cart2d{per}", CartesianGrid([(0, 10), (0, 10)], [10, 10], periodic=per), False))
    for per in ([False] * 3, [True] * 3, [True, False, True]):
        out.append((f"cart3d{per}", CartesianGrid([(0, 6)] * 3, [6, 6, 6], periodic=per), False))
    out.append(("polar", PolarSymGrid(8, 12), False))
    out.append(("spherical", SphericalSymGrid(6, 8), False))
    out.append(("cyl", CylindricalSymGrid(4, (0, 8), (5, 10)), True))
    out.append(("cyl-periodic", CylindricalSymGrid(4, (0, 8), (5, 10), periodic_z=True), True))
    return out


def field_for(name, grid, k):
    from pde import CartesianGrid
    from droplets import DiffuseDroplet, Emulsion
    if isinstance(grid, CartesianGrid):
        n = grid.shape[0]
        c1 = [n * 0.3 + 0.13 * k] * grid.dim
        c2 = [n * 0.74] * grid.dim
        r = {1: 2.2, 2: 2.3, 3: 1.6}[grid.dim]
        em = Emulsion([DiffuseDroplet(c1, r, 0.7), DiffuseDroplet(c2, r * 0.8, 0.7)])
    elif name.startswith("cyl"):
        em = Emulsion([DiffuseDroplet([0, 0, 3.1], 2.0, 0.7)])
    else:
        em = Emulsion([DiffuseDroplet([0.0] * grid.dim, 3.0 if name == "polar" else 2.6, 0.7)])
    return em.get_phasefield(grid)


def expected_class(dim, cyl, modes, width_given, refine):
    """The table of the property text, written independently of the code."""
    if modes > 0:
        if dim == 2:
            return "P2D"
        return "P3DAxi" if cyl else "P3D"
    return "Diffuse" if (width_given or refine) else "Spherical"


def run_config(name, grid, cyl, modes, width, refine, thr, k=0):
    from droplets.image_analysis import locate_droplets
    f = field_for(name, grid, k)
    try:
        em = locate_droplets(f, threshold=thr, modes=modes, interface_width=width, refine=refine)
    except Exception as e:  # noqa
        return {"exc": type(e).__name__, "msg": str(e)[:120]}
    try:
        data_ok = em.data is not None
    except Exception as e:  # noqa
        data_ok = False
    res = []
    for d in em:
        res.append({"cls": CLS.get(type(d).__name__, type(d).__name__), "dim": int(d.dim),
                    "nampl": int(len(d.amplitudes)) if hasattr(d, "amplitudes") else -1,
                    "width": (None if not hasattr(d, "interface_width") else d.interface_width),
                    "has_width": hasattr(d, "interface_width")})
    return {"exc": None, "drops": res, "data_ok": data_ok}


def oracle(cfg, out):
    name, dim, cyl, modes, width, refine, thr = cfg
    if modes > 0 and dim not in (2, 3):
        if out["exc"] != "ValueError":
            return f"modes in {dim}-d must raise ValueError, got {out['exc'] or 'a result'}"
        return None
    if out["exc"]:
        return f"locate_droplets raised {out['exc']}: {out.get('msg')}"
    want = expected_class(dim, cyl, modes, width is not None, refine)
    for d in out["drops"]:
        if d["cls"] != want:
            return f"class {d['cls']}, requested model implies {want}"
        if d["dim"] != dim:
            return f"droplet dimension {d['dim']} != grid dimension {dim}"
        if modes > 0 and d["nampl"] != modes:
            return f"{d['nampl']} amplitudes, requested {modes}"
        if width is not None and not refine and d["width"] != width:
            return f"supplied width {width} not carried (got {d['width']})"
    if not out["data_ok"]:
        return "emulsion.data cannot be formed (no uniform layout)"
    return None


def check(ctx: vlib.Ctx) -> int:
    rng = random.Random(ctx.seed)
    ok, fresh = vlib.prove_with_fallback(ctx, ["Proofs/C19.vo"], gens=["Gen_analysis"])
    ctx.tie.append("exhaustive correspondence through locate_droplets against the "
                   + ("regenerated" if fresh else "golden") + " class decision tree (Gen_analysis)")
    cases, meta, fails = [], [], []
    modes_list = [0, 1, 2, 3, 8]
    for (name, grid, cyl) in grids():
        dim = grid.dim
        for modes, width, refine, thr in itertools.product(modes_list, [None, 0.5, 0.0], [False, True], [0.5, "extrema", "mean", "otsu"]):
            if ctx.quick and refine and dim == 3 and modes == 8 and thr != "extrema":
                ctx.count("skipped_in_quick_tier", "3-d, 8 modes, refine, non-extrema threshold")
                continue  # the slowest fits; all enumerated in the thorough tier
            cfg = (name, dim, cyl, modes, width, refine, thr)
            out = run_config(name, grid, cyl, modes, width, refine, thr, k=rng.randrange(0, 3))
            nd = len(out.get("drops", []))
            ctx.case(list(map(str, cfg)), nontrivial=nd > 0 or out["exc"] is not None)
            ctx.count("grid", name.split("[")[0])
            ctx.count("outcome", out["exc"] or f"{nd} droplet(s)")
            ctx.count("modes", modes)
            f = oracle(cfg, out)
            if f:
                fails.append({"what": f, "input": {"grid": name, "dim": dim, "cyl": cyl, "modes": modes, "width": width,
                                                   "refine": refine, "threshold": thr}})
            # Coq case: request + observed result
            if out["exc"]:
                obs = "ObsRaise " + ("true" if out["exc"] == "ValueError" else "false")
            else:
                ds = vlib.listlit([f"({d['cls']}, {d['dim']}%nat, {max(d['nampl'], 0)}%nat, "
                                   f"{'Some ' + vlib.qlit(d['width']) if d['width'] is not None else 'None'})"
                                   for d in out["drops"]])
                obs = f"ObsLocated {ds}"
            wl = f"(Some {vlib.qlit(width)})" if width is not None else "None"
            cases.append(f"({{| rq_dim := {vlib.zlit(dim)}; rq_cyl := {vlib.blit(cyl)}; rq_width := {wl}; "
                         f"rq_modes := {vlib.zlit(modes)}; rq_refine := {vlib.blit(refine)} |}}, {obs})")
            meta.append(cfg)
    ctx.sample({"config": list(map(str, meta[len(meta) // 2])), "coq_case": cases[len(cases) // 2]})
    header = """From Coq Require Import QArith ZArith List Bool.
Import ListNotations.
From PD Require Import Gen.Gen_analysis Model.Request.
Inductive obs := ObsRaise (value_error : bool) | ObsLocated (ds : list (dclass * nat * nat * option Q)).
Definition qopt_eqb (a b : option Q) : bool :=
  match a, b with Some x, Some y => Qeq_bool x y | None, None => true | _, _ => false end.
Definition agree (c : request * obs) : bool :=
  let '(r, o) := c in
  match o with
  | ObsRaise ve => ve && modes_guard (rq_dim r) (modes_pos r)
  | ObsLocated ds =>
      negb (modes_guard (rq_dim r) (modes_pos r)) &&
      forallb (fun d => let '(c, dim, na, w) := d in
        dclass_eqb c (final_class r) && Nat.eqb dim (Z.to_nat (rq_dim r)) &&
        (if has_ampl c then Nat.eqb na (Z.to_nat (amplitude_count (rq_modes r))) else Nat.eqb na 0) &&
        (if rq_refine r then true   (* refinement fits the width *)
         else qopt_eqb w (if has_width c then rq_width r else None))) ds
  end.
"""
    if ok:
        bad = vlib.run_cases(ctx, "req", header, cases, "agree", shard=400)
        for b in bad[:3]:
            ctx.broken.append(f"correspondence class selection: model and implementation differ on {meta[b]}")
    for f in fails[:3]:
        ctx.violations.append({**f, "found": True, "broken": ctx.broken[:3]})
    return vlib.finish(ctx, "", TRUSTED, ASSUME, RULE, exhaustive=not ctx.quick)


def replay(path: str) -> int:
    obj = json.load(open(path))
    print(json.dumps(obj, indent=1)[:1500])
    inp = obj.get("input", {})
    if "grid" in inp:
        for (name, grid, cyl) in grids():
            if name == inp["grid"]:
                out = run_config(name, grid, cyl, inp["modes"], inp["width"], inp["refine"], inp["threshold"])
                f = oracle((name, grid.dim, cyl, inp["modes"], inp["width"], inp["refine"], inp["threshold"]), out)
                print("property oracle on the current tree:", f or "holds")
                return 1 if f else 0
    return 0
