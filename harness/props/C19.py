"""C19 -- the requested droplet model determines the class and shape of every result."""
from __future__ import annotations

import itertools
import json
import random

import numpy as np

import vlib

TRUSTED = [
    "Coq 8.16.1 kernel + vm_compute",
    "harness/gen_analysis.py (fail-closed translator of the class decision tree, the modes guard, amplitude count, refine promotion)",
    "correspondence harness: classes/amplitude counts/widths observed through locate_droplets on the enumerated configurations",
]
ASSUME = [
    "locate_droplets_in_mask returns SphericalDroplet candidates (checked per configuration)",
    "refined results keep the candidate's class (C04: refine_class); observed per configuration",
]
RULE = ("complete enumeration: 12 base grids (Cartesian 1-3d x periodicity masks, polar, spherical, cylindrical +/- periodic z) + 17 geometry "
        "variants (non-zero / negative origin, unequal cell counts and spacings in both orders, periodic axis first / middle / last, polar and "
        "spherical grids with inner radius > 0 and fine slicing, narrow / flat / shifted / dz != dr cylinders) x modes {0,1,2,3,8} "
        "x width {not given, 0.5, 0.0} x refine on/off x threshold rule {0.5, extrema, mean, otsu}, minimal_radius drawn from {default, 0, -1, -inf}; "
        "+ image types (int64, uint8 with grey levels 10..250, float32 data) x every grid x modes {0,2} x width {not given, 0.5} x refine on/off x {extrema, mean}; "
        "+ images whose components are not resolvable spheres: 16 grids of every family with isotropic and strongly anisotropic cells "
        "(spacing 10:1 in both orders, dr >> dz and dz >> dr) x {single cell, two cells along each axis} x {alone, next to an ordinary "
        "cluster} x modes {0,2,3} x width {not given, 0.5, 0.0} x refine on/off, threshold rule drawn; "
        "+ images without droplets x every grid x modes {0,2} x width x refine; + num_processes in {2, 'auto'} with refinement on five grids; "
        "non-trivial = at least one droplet located; distinct by configuration")

# behaviour that is observed and counted in the evidence but lies outside the judged property (decision of the lead): the property
# speaks about every RESULT droplet (class, amplitudes, width, one layout so that the table can be formed); a result without droplets
# has none, and the error its .data raises is the documented one of an empty emulsion without explicit dtype
OBSERVED_OUTSIDE_PROPERTY = [
    "empty-result-data: when no droplet is located, locate_droplets returns Emulsion([]) whose .data raises the documented RuntimeError "
    "('emulsion is empty and an explicit dtype has not been specified'), whereas locate_droplets_in_mask returns Emulsion.empty(example) "
    "for the same image; 'tabular data can be formed' is judged for results with at least one droplet",
]

CLS = {"SphericalDroplet": "Spherical", "DiffuseDroplet": "Diffuse", "PerturbedDroplet2D": "P2D",
       "PerturbedDroplet3D": "P3D", "PerturbedDroplet3DAxisSym": "P3DAxi"}


def grids():
    from pde import CartesianGrid, PolarSymGrid, SphericalSymGrid, CylindricalSymGrid
    out = []
    for per in (False, True):
        out.append((f"cart1d[{per}]", CartesianGrid([(0, 16)], [16], periodic=per), False))
    for per in ([False, False], [True, True], [True, False]):
        out.append((f"cart2d{per}", CartesianGrid([(0, 10), (0, 10)], [10, 10], periodic=per), False))
    for per in ([False] * 3, [True] * 3, [True, False, True]):
        out.append((f"cart3d{per}", CartesianGrid([(0, 6)] * 3, [6, 6, 6], periodic=per), False))
    out.append(("polar", PolarSymGrid(8, 12), False))
    out.append(("spherical", SphericalSymGrid(6, 8), False))
    out.append(("cyl", CylindricalSymGrid(4, (0, 8), (5, 10)), True))
    out.append(("cyl-periodic", CylindricalSymGrid(4, (0, 8), (5, 10), periodic_z=True), True))
    return out + geometry_variants()


def geometry_variants():
    """grids on which a class decision keyed on anything but (dimension, cylindrical) shows: non-zero origins, unequal cell
    counts / spacings (larger first and larger last), periodic axis first / middle / last, symmetric grids with inner radius > 0
    or many cells, narrow / flat / shifted cylinders (names start with `v-`)"""
    from pde import CartesianGrid, PolarSymGrid, SphericalSymGrid, CylindricalSymGrid
    out = [
        ("v-cart1d-centred", CartesianGrid([(-8, 8)], [16], periodic=False), False),
        ("v-cart1d-negative", CartesianGrid([(-30, -10)], [10], periodic=True), False),
        ("v-cart2d-shifted-12x10", CartesianGrid([(3, 15), (-5, 5)], [12, 10], periodic=[False, True]), False),
        ("v-cart2d-negative-8x12", CartesianGrid([(-20, -12), (-12, 0)], [8, 12], periodic=[True, False]), False),
        ("v-cart2d-dx1-dy2", CartesianGrid([(0, 10), (0, 20)], [10, 10], periodic=[False, False]), False),
        ("v-cart3d-8x6x5-per-first", CartesianGrid([(-4, 4), (0, 6), (10, 15)], [8, 6, 5], periodic=[True, False, False]), False),
        ("v-cart3d-5x6x8-per-middle", CartesianGrid([(-9, -4), (-3, 3), (0, 8)], [5, 6, 8], periodic=[False, True, False]), False),
        ("v-cart3d-dz2-per-last", CartesianGrid([(0, 6), (0, 6), (0, 12)], [6, 6, 6], periodic=[False, False, True]), False),
        ("v-polar-inner", PolarSymGrid((1, 9), 8), False),
        ("v-polar-fine", PolarSymGrid(5, 20), False),
        ("v-spherical-inner", SphericalSymGrid((1, 7), 6), False),
        ("v-spherical-fine", SphericalSymGrid(4, 16), False),
        ("v-cyl-narrow", CylindricalSymGrid(2, (0, 12), (2, 12)), True),
        ("v-cyl-narrow-periodic", CylindricalSymGrid(2, (0, 12), (2, 12), periodic_z=True), True),
        ("v-cyl-flat", CylindricalSymGrid(8, (0, 4), (8, 4)), True),
        ("v-cyl-shifted-dz2", CylindricalSymGrid(4, (-12, -4), (8, 4)), True),
        ("v-cyl-shifted-periodic", CylindricalSymGrid(3, (5, 11), (3, 12), periodic_z=True), True),
    ]
    return out


IMAGES = ["float64", "int64", "uint8", "float32", "empty"]


def cluster_grids():
    """grids of the stream of images whose components are NOT resolvable spheres (names start with `a-`): strongly anisotropic cells
    (spacing ratio 10:1 in both orders, dr >> dz and dz >> dr) and isotropic ones of every family"""
    from pde import CartesianGrid, PolarSymGrid, SphericalSymGrid, CylindricalSymGrid
    return [
        ("a-cart1d", CartesianGrid([(0, 12)], [12], periodic=False), False),
        ("a-cart1d-periodic-dx0.1", CartesianGrid([(0, 1.2)], [12], periodic=True), False),
        ("a-cart2d-iso", CartesianGrid([(0, 10), (0, 10)], [10, 10], periodic=[True, False]), False),
        ("a-cart2d-1x0.1", CartesianGrid([(0, 10), (0, 1)], [10, 10], periodic=[False, True]), False),
        ("a-cart2d-0.1x1", CartesianGrid([(-1, 0), (5, 15)], [10, 10], periodic=[False, False]), False),
        ("a-cart3d-iso", CartesianGrid([(0, 6)] * 3, [6, 6, 6], periodic=[False, True, False]), False),
        ("a-cart3d-1x1x0.1", CartesianGrid([(0, 6), (0, 6), (0, 0.6)], [6, 6, 6], periodic=[False, False, True]), False),
        ("a-cart3d-0.1x1x1", CartesianGrid([(0, 0.6), (0, 6), (0, 6)], [6, 6, 6], periodic=[True, False, False]), False),
        ("a-polar", PolarSymGrid(8, 8), False),
        ("a-polar-dr0.1", PolarSymGrid(1, 10), False),
        ("a-spherical", SphericalSymGrid(6, 6), False),
        ("a-spherical-inner", SphericalSymGrid((1, 7), 6), False),
        ("a-cyl-iso", CylindricalSymGrid(6, (0, 10), (6, 10)), True),
        ("a-cyl-dr1-dz0.1", CylindricalSymGrid(6, (0, 1), (6, 10)), True),
        ("a-cyl-dr1-dz0.1-periodic", CylindricalSymGrid(6, (2, 3), (6, 10), periodic_z=True), True),
        ("a-cyl-dr0.1-dz1", CylindricalSymGrid(0.6, (0, 10), (6, 10)), True),
    ]


def cluster_kinds(grid, cyl):
    """the tiny / thin clusters of one grid: a single cell, two cells along each axis (symmetric grids: on the axis / at the origin)"""
    if cyl:
        return ["single", "pair-axis0", "pair-axis1"]
    if grid.num_axes < grid.dim:
        return ["single", "pair-axis0"]
    return ["single"] + [f"pair-axis{k}" for k in range(grid.num_axes)]


def cluster_image(grid, cyl, kind, companion):
    """binary image (1 inside, 0 outside) with one tiny cluster and -- `companion` -- an ordinary cluster (its equal-volume sphere
    contains cell centres) elsewhere; built on cell indices, so that nothing depends on rendering"""
    from pde import ScalarField
    data = np.zeros(grid.shape)
    nax = grid.num_axes
    sym = nax < grid.dim or cyl
    base = [0] * nax if (sym and not cyl) else ([0, 2] if cyl else [2] * nax)
    cells = [tuple(base)]
    if kind.startswith("pair-axis"):
        k = int(kind[-1])
        second = list(base)
        second[k] += 1
        cells.append(tuple(second))
    for c in cells:
        data[c] = 1.0
    if companion:
        if cyl:
            data[0:2, 6:9] = 1.0                 # on the axis, 2 x 3 cells
        elif nax == 1 and not sym:
            data[6:11] = 1.0
        elif not sym:
            h = list(grid.discretization)
            f = int(np.argmin(h))                # five cells along the finest axis, the other indices far from the tiny cluster
            idx = [grid.shape[a] - 3 for a in range(nax)]
            sl = [slice(i, i + 1) for i in idx]
            sl[f] = slice(0, 5)
            data[tuple(sl)] = 1.0
            if any(data[c] != 1.0 for c in cells):
                raise RuntimeError("cluster image: companion overwrote the cluster")
        else:
            raise ValueError("symmetric grids hold one droplet")
    return ScalarField(grid, data)


def field_for(name, grid, k, image="float64"):
    """the image of one configuration; `image`: float64 (rendered droplets), int64 (the same, 8 grey levels, integer data),
    uint8 (grey levels 10..250: min + max is outside the range of the type, defect F36 of C18), float32, empty (all zero: nothing
    to locate)"""
    from pde import ScalarField
    if image.startswith("cluster:"):     # cluster:<kind>:<alone|companion>
        _, kind, comp = image.split(":")
        return cluster_image(grid, isinstance(grid, __import__("pde").CylindricalSymGrid), kind, comp == "companion")
    f = _rendered(name, grid, k)
    if image == "float64":
        return f
    if image == "empty":
        return ScalarField(grid, np.zeros(grid.shape))
    if image == "float32":
        return ScalarField(grid, f.data.astype(np.float32), dtype=np.float32)
    if image == "uint8":
        return ScalarField(grid, np.round(10 + np.clip(f.data, 0, 1) * 240).astype(np.uint8), dtype=np.uint8)
    return ScalarField(grid, np.round(f.data * 8).astype(np.int64), dtype=np.int64)


def _rendered(name, grid, k):
    from pde import CartesianGrid
    from droplets import DiffuseDroplet, Emulsion
    if name.startswith("v-"):   # geometry variants: droplets placed relative to the box
        if isinstance(grid, CartesianGrid):
            lo = [b[0] for b in grid.axes_bounds]
            ext = [b[1] - b[0] for b in grid.axes_bounds]
            r = {1: 0.14, 2: 0.23, 3: 0.27}[grid.dim] * min(ext)
            c1 = [a + 0.3 * e + 0.13 * k for a, e in zip(lo, ext)]
            c2 = [a + 0.74 * e for a, e in zip(lo, ext)]
            em = Emulsion([DiffuseDroplet(c1, r, 0.7), DiffuseDroplet(c2, r * 0.8, 0.7)])
        elif "cyl" in name:
            (r0, r1), (z0, z1) = grid.axes_bounds
            em = Emulsion([DiffuseDroplet([0, 0, z0 + 0.4 * (z1 - z0) + 0.13 * k], 0.55 * min(r1, (z1 - z0) / 2), 0.7)])
        else:
            r0, r1 = grid.axes_bounds[0]
            em = Emulsion([DiffuseDroplet([0.0] * grid.dim, r0 + 0.45 * (r1 - r0), 0.7)])
        return em.get_phasefield(grid)
    if isinstance(grid, CartesianGrid):
        n = grid.shape[0]
        c1 = [n * 0.3 + 0.13 * k] * grid.dim
        c2 = [n * 0.74] * grid.dim
        r = {1: 2.2, 2: 2.3, 3: 1.6}[grid.dim]
        em = Emulsion([DiffuseDroplet(c1, r, 0.7), DiffuseDroplet(c2, r * 0.8, 0.7)])
    elif name.startswith("cyl"):
        em = Emulsion([DiffuseDroplet([0, 0, 3.1], 2.0, 0.7)])
    else:
        em = Emulsion([DiffuseDroplet([0.0] * grid.dim, 3.0 if name == "polar" else 2.6, 0.7)])
    return em.get_phasefield(grid)


def expected_class(dim, cyl, modes, width_given, refine):
    """The table of the property text, written independently of the code."""
    if modes > 0:
        if dim == 2:
            return "P2D"
        return "P3DAxi" if cyl else "P3D"
    return "Diffuse" if (width_given or refine) else "Spherical"


def option_kwargs(opts: dict) -> dict:
    """JSON-able option record -> keyword arguments (absent key = the documented default is used)"""
    kw = {}
    if "minimal_radius" in opts:
        kw["minimal_radius"] = -np.inf if opts["minimal_radius"] == "-inf" else opts["minimal_radius"]
    if "num_processes" in opts:
        kw["num_processes"] = opts["num_processes"]
    if "refine_args" in opts:
        kw["refine_args"] = opts["refine_args"]
    return kw


def run_config(name, grid, cyl, modes, width, refine, thr, k=0, image="float64", opts=None):
    from droplets.image_analysis import locate_droplets
    f = field_for(name, grid, k, image)
    try:
        em = locate_droplets(f, threshold=thr, modes=modes, interface_width=width, refine=refine, **option_kwargs(opts or {}))
    except Exception as e:  # noqa
        return {"exc": type(e).__name__, "msg": str(e)[:120]}
    try:
        data_ok = em.data is not None and (len(em) == 0 or len(em.data) == len(em))
    except Exception as e:  # noqa
        data_ok = False
    res = []
    for d in em:
        res.append({"cls": CLS.get(type(d).__name__, type(d).__name__), "dim": int(d.dim),
                    "nampl": int(len(d.amplitudes)) if hasattr(d, "amplitudes") else -1,
                    "width": (None if not hasattr(d, "interface_width") else d.interface_width),
                    "has_width": hasattr(d, "interface_width")})
    return {"exc": None, "drops": res, "data_ok": data_ok}


def oracle(cfg, out):
    name, dim, cyl, modes, width, refine, thr = cfg
    if modes > 0 and dim not in (2, 3):
        if out["exc"] != "ValueError":
            return f"modes in {dim}-d must raise ValueError, got {out['exc'] or 'a result'}"
        return None
    if out["exc"]:
        return f"locate_droplets raised {out['exc']}: {out.get('msg')}"
    want = expected_class(dim, cyl, modes, width is not None, refine)
    for d in out["drops"]:
        if d["cls"] != want:
            return f"class {d['cls']}, requested model implies {want}"
        if d["dim"] != dim:
            return f"droplet dimension {d['dim']} != grid dimension {dim}"
        if modes > 0 and d["nampl"] != modes:
            return f"{d['nampl']} amplitudes, requested {modes}"
        if d["width"] is not None and not np.isfinite(d["width"]):
            return f"non-finite interface width {d['width']}"
        if width is not None and not refine and d["width"] != width:
            return f"supplied width {width} not carried (got {d['width']})"
    if not out["data_ok"] and out["drops"]:      # without droplets: OBSERVED_OUTSIDE_PROPERTY[0], counted, not judged
        return "emulsion.data cannot be formed (no uniform layout)"
    return None


def check(ctx: vlib.Ctx) -> int:
    rng = random.Random(ctx.seed)
    ok, fresh = vlib.prove_with_fallback(ctx, ["Proofs/C19.vo"], gens=["Gen_analysis"])
    ctx.tie.append("exhaustive correspondence through locate_droplets against the "
                   + ("regenerated" if fresh else "golden") + " class decision tree (Gen_analysis)")
    cases, meta, fails = [], [], []
    modes_list = [0, 1, 2, 3, 8]
    all_grids = grids()
    # ---- the configurations: (stream, name, grid, cyl, modes, width, refine, threshold, image, options) --------------
    configs = []
    for (name, grid, cyl) in all_grids:
        for modes, width, refine, thr in itertools.product(modes_list, [None, 0.5, 0.0], [False, True], [0.5, "extrema", "mean", "otsu"]):
            if ctx.quick and refine and grid.dim == 3 and modes == 8 and thr != "extrema":
                ctx.count("skipped_in_quick_tier", "3-d, 8 modes, refine, non-extrema threshold")
                continue  # the slowest fits; all enumerated in the thorough tier
            mr = rng.choice(["default", "default", 0, -1.0, "-inf"])
            configs.append(("enumeration", name, grid, cyl, modes, width, refine, thr, "float64",
                            {} if mr == "default" else {"minimal_radius": mr}))
    for (name, grid, cyl) in all_grids:   # integer / float32 image data
        for image in ("int64", "uint8", "float32"):
            for modes, width, refine, thr in itertools.product([0, 2], [None, 0.5], [False, True], ["extrema", "mean"]):
                configs.append(("image-type", name, grid, cyl, modes, width, refine, thr, image, {}))
    for (name, grid, cyl) in all_grids:   # nothing to locate
        for modes, width, refine in itertools.product([0, 2], [None, 0.5], [False, True]):
            configs.append(("no-droplets", name, grid, cyl, modes, width, refine, 0.5, "empty", {}))
    for (name, grid, cyl) in cluster_grids():   # components that are not resolvable spheres
        for kind in cluster_kinds(grid, cyl):
            for comp in (("alone", "companion") if (cyl or grid.num_axes == grid.dim) else ("alone",)):
                for modes, width, refine in itertools.product([0, 2, 3], [None, 0.5, 0.0], [False, True]):
                    if ctx.quick and refine and (modes == 3 or width == 0.0):
                        ctx.count("skipped_in_quick_tier", "tiny clusters, refine, 3 modes or width 0.0")
                        continue  # the slow fits of unresolvable clusters; all enumerated in the thorough tier
                    configs.append(("tiny-clusters", name, grid, cyl, modes, width, refine, rng.choice([0.5, "extrema", "mean", "otsu"]),
                                    f"cluster:{kind}:{comp}", {}))
    for name, nproc in (("cart2d[True, False]", 2), ("spherical", 2), ("cyl", 2), ("v-cart3d-5x6x8-per-middle", "auto"), ("v-cyl-narrow", 2)):
        grid, cyl = next((g, c) for n, g, c in all_grids if n == name)   # refinement in worker processes
        for modes, width in ((0, None), (2, 0.5)):
            configs.append(("parallel", name, grid, cyl, modes, width, True, "extrema", "float64",
                            {"num_processes": nproc, "refine_args": {"vmin": None, "vmax": None}}))
    empty_data = {"formed": 0, "RuntimeError or other failure": 0}
    for (stream, name, grid, cyl, modes, width, refine, thr, image, opts) in configs:
        dim = grid.dim
        cfg = (name, dim, cyl, modes, width, refine, thr)
        out = run_config(name, grid, cyl, modes, width, refine, thr, k=rng.randrange(0, 3), image=image, opts=opts)
        nd = len(out.get("drops", []))
        ctx.case(list(map(str, cfg)) + [image, json.dumps(opts, sort_keys=True)], nontrivial=nd > 0 or out["exc"] is not None)
        ctx.count("stream", stream)
        ctx.count("grid", name.split("[")[0])
        ctx.count("grid_family", "cartesian" if "cart" in name else name.replace("v-", "").replace("a-", "").split("-")[0])
        ctx.count("grid_geometry", "variant (origin / shape / spacing / inner radius / narrow)" if name.startswith("v-") else
                  ("anisotropic 10:1 / isotropic, tiny clusters" if name.startswith("a-") else "base"))
        ctx.count("image", image.split(":")[0])
        if stream == "tiny-clusters":
            ctx.count("tiny_cluster", image.split(":", 1)[1])
            ctx.count("tiny_cluster_grid", name)
        ctx.count("minimal_radius", str(opts.get("minimal_radius", "default")))
        ctx.count("num_processes", str(opts.get("num_processes", "default (1)")))
        ctx.count("refine", "on" if refine else "off")
        ctx.count("width", "not given" if width is None else str(width))
        ctx.count("threshold", str(thr))
        ctx.count("outcome", out["exc"] or f"{nd} droplet(s)")
        ctx.count("modes", modes)
        if out["exc"] is None and nd == 0:
            empty_data["formed" if out["data_ok"] else "RuntimeError or other failure"] += 1
        f = oracle(cfg, out)
        if f is None and stream == "no-droplets" and out["exc"] is None and nd != 0:
            f = f"{nd} droplet(s) located in an image without any cell above the threshold"
        if f:
            fails.append({"what": f, "input": {"grid": name, "dim": dim, "cyl": cyl, "modes": modes, "width": width,
                                               "refine": refine, "threshold": thr, "image": image, "options": opts}})
        # Coq case: request + observed result
        if out["exc"]:
            obs = "ObsRaise " + ("true" if out["exc"] == "ValueError" else "false")
        else:
            ds = vlib.listlit([f"({d['cls'] if d['cls'] in CLS.values() else 'Spherical'}, {d['dim']}%nat, {max(d['nampl'], 0)}%nat, "
                               f"{'Some ' + vlib.qlit(d['width']) if d['width'] is not None and np.isfinite(d['width']) else 'None'})"
                               for d in out["drops"]])
            obs = f"ObsLocated {ds}"
        wl = f"(Some {vlib.qlit(width)})" if width is not None else "None"
        cases.append(f"({{| rq_dim := {vlib.zlit(dim)}; rq_cyl := {vlib.blit(cyl)}; rq_width := {wl}; "
                     f"rq_modes := {vlib.zlit(modes)}; rq_refine := {vlib.blit(refine)} |}}, {obs})")
        meta.append(cfg + (image, opts))
    for k, v in empty_data.items():
        ctx.count("observed outside the property: .data of a result without droplets", k, v)
    ctx.notes.append("observed, outside the judged property: " + " | ".join(OBSERVED_OUTSIDE_PROPERTY))
    ctx.sample({"config": list(map(str, meta[len(meta) // 2])), "coq_case": cases[len(cases) // 2]})
    header = """From Coq Require Import QArith ZArith List Bool.
Import ListNotations.
From PD Require Import Gen.Gen_analysis Model.Request.
Inductive obs := ObsRaise (value_error : bool) | ObsLocated (ds : list (dclass * nat * nat * option Q)).
Definition qopt_eqb (a b : option Q) : bool :=
  match a, b with Some x, Some y => Qeq_bool x y | None, None => true | _, _ => false end.
Definition agree (c : request * obs) : bool :=
  let '(r, o) := c in
  match o with
  | ObsRaise ve => ve && modes_guard (rq_dim r) (modes_pos r)
  | ObsLocated ds =>
      negb (modes_guard (rq_dim r) (modes_pos r)) &&
      forallb (fun d => let '(c, dim, na, w) := d in
        dclass_eqb c (final_class r) && Nat.eqb dim (Z.to_nat (rq_dim r)) &&
        (if has_ampl c then Nat.eqb na (Z.to_nat (amplitude_count (rq_modes r))) else Nat.eqb na 0) &&
        (if rq_refine r then true   (* refinement fits the width *)
         else qopt_eqb w (if has_width c then rq_width r else None))) ds
  end.
"""
    if ok:
        bad = vlib.run_cases(ctx, "req", header, cases, "agree", shard=400)
        for b in bad[:3]:
            ctx.broken.append(f"correspondence class selection: model and implementation differ on {meta[b]}")
    for f in fails[:3]:
        ctx.violations.append({**f, "found": True, "broken": ctx.broken[:3]})
    return vlib.finish(ctx, "", TRUSTED, ASSUME, RULE, exhaustive=not ctx.quick)


def replay(path: str) -> int:
    obj = json.load(open(path))
    print(json.dumps(obj, indent=1)[:1500])
    inp = obj.get("input", {})
    if "grid" in inp:
        for (name, grid, cyl) in grids() + cluster_grids():
            if name == inp["grid"]:
                out = run_config(name, grid, cyl, inp["modes"], inp["width"], inp["refine"], inp["threshold"],
                                 image=inp.get("image", "float64"), opts=inp.get("options") or {})
                f = oracle((name, grid.dim, cyl, inp["modes"], inp["width"], inp["refine"], inp["threshold"]), out)
                print("property oracle on the current tree:", f or "holds")
                return 1 if f else 0
    return 0
