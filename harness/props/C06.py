"""C06 -- tracking neither loses, duplicates nor alters droplets (see harness/tracking_common.py)."""
from __future__ import annotations

import tracking_common as tc


def check(ctx) -> int:
    return tc.run_check(ctx, "C06", ["Proofs/C06.vo"])


def replay(path: str) -> int:
    return tc.replay(path, "C06")
