"""C10 -- overlap removal leaves a separated subset and distance queries agree.

Input streams (every random choice from random.Random(ctx.seed); see DESIGN.md 5.10 for the dimension table):
  exh      exhaustive small lattice with tied radii, with / without a fully periodic grid
  rand     random emulsions: every grid kind (none / Cartesian with every periodicity mask, non-zero origin, unequal
           extents and cell counts / cylindrical periodic and non-periodic in z / polar / spherical with and without an
           inner radius), positions inside / on faces / on corners / outside the box / coincident, radius patterns,
           min_distance incl. exactly an occurring surface distance and its float neighbours, +-inf, scaled by 2^k,
           provenance of the emulsion, droplet class, numeric types of the arguments, call style
  masks    for every dimension, periodicity mask, axis, origin kind and extent order: a pair straddling that axis
           (overlapping exactly when the axis is periodic), and a pair straddling a corner
  cyl      cylindrical grids (narrow finely sliced / flat wide / single cell), droplets on and off the axis
  coin     two to five droplets at one position (defect F30), tied / distinct / zero radii
  chain    chains of successive removals in which the removed index precedes the pairs that are examined later
  long     long emulsions
  large    emulsions of 40 / 64 / 100 / 250 droplets (random, clustered, integer lattice with ties, coincident groups; d=1..3):
           the nearest-neighbour clause needs sizes beyond the leaf size of the k-d tree (an approximate or truncated tree
           search is exact on small inputs); 40 and 64 go through the whole oracle, 100 and 250 through the neighbour oracle
  raise    an operation that raises in the middle (grid of the wrong dimension) must leave the emulsion untouched
  from_random   regions (bounds list / array / every grid kind), radius forms, num, flags, droplet class, rng
"""
from __future__ import annotations

import copy as _copy
import itertools
import json
import math
import pickle
import random

import numpy as np

import vlib

TRUSTED = [
    "Coq 8.16.1 kernel + vm_compute",
    "correspondence harness (harness/props/C10.py): exact float->Q conversion, survivors identified by object identity",
    "numpy argmin/delete/unravel_index semantics as modelled (first minimum in row-major order)",
    "py-pde grid.distance (checked per sample against Model/Grid.v dist2 on dyadic inputs; cylindrical / polar / spherical "
    "grids through Model/OverlapCases.v cyl_metric / sym_metric = py-pde 0.58.0 behaviour incl. the F19 quirk)",
    "scipy cKDTree.query and numpy RNG ranges (checked per sample by the oracle, not modelled)",
]
ASSUME = [
    "the model consumes the float distance matrix the implementation computed (exact rationals); it only compares/selects, hence is bit-faithful",
    "positions and radii are finite",
]
RULE = ("exhaustive: all emulsions of <=4 droplets on a 3-point half-integer lattice with radii in {0,1/2,1} in 1-d and "
        "<=3 droplets in 2-d, min_distance in {-1,0,1/2,1}, with/without periodic grid; structured: every periodicity mask x "
        "straddled axis x origin kind x extent order (d=1..3), cylinders, coincident groups, removal chains, long emulsions; "
        "random: up to 12 droplets, d=1..3, every grid kind; non-trivial = at least one pair closer than min_distance "
        "(something is removed or a tie is resolved); distinct by the full input specification")

# new inputs on which the UNCHANGED /repo fails the property and that await a decision (reported in the evidence notes, not
# judged).  Empty: the one former entry (get_neighbor_distances raised TypeError on emulsions that mix droplet classes) was
# confirmed as defect F37 and repaired in /repo 7e05325; mixed emulsions are judged in full since then.
SUSPECTED: list[str] = []

# behaviour that was noticed through the new inputs but lies OUTSIDE the property text: named, counted per run in the evidence
# (histogram key observed_outside_property), never judged.
OBSERVED_OUTSIDE_PROPERTY = {
    "from_random_ignores_grid_metric":
        "Emulsion.from_random(num, grid, ..., remove_overlapping=True) calls remove_overlapping() WITHOUT the grid it was given: on "
        "a grid with periodic axes droplets that overlap through the periodic boundary (overlaps(grid=grid) is True) are kept.  "
        "The property text speaks only of region and radius range for random emulsions, so this is not a C10 failure "
        "(replay: CartesianGrid([(0, 3)], 6, periodic=True), from_random(4, grid, 0.5, rng=default_rng(5))).",
}

PLAIN = {"prov": "nocopy", "cls": "spherical", "ctor": "array64", "md_type": "float", "call": "kw", "k": 0}
PROVS = ["nocopy", "nocopy", "ctor_copy", "em_copy", "deepcopy", "pickle", "slice", "concat", "append", "shared", "queried",
         "generator", "timecourse"]
CLASSES = ["spherical", "spherical", "spherical", "diffuse", "perturbed", "mixed"]
CTORS = ["array64", "array64", "list", "tuple", "f32", "int", "np0d"]
MD_TYPES = ["float", "float", "int", "np64", "np32", "arr0d"]
CALLS = ["kw", "pos", "default"]
SCALES = [0, 0, 0, 0, 0, -50, -10, 10, 50]


# --------------------------------------------------------------------------------------------------------------------
# grids
# --------------------------------------------------------------------------------------------------------------------
def make_grid(gs, s=1.0):
    """grid specification (JSON-serialisable, unscaled) -> py-pde grid scaled by s (a power of two)"""
    if gs is None:
        return None
    from pde import CartesianGrid, CylindricalSymGrid, PolarSymGrid, SphericalSymGrid
    kind = gs["kind"]
    if kind == "cart":
        return CartesianGrid([(lo * s, hi * s) for lo, hi in gs["bounds"]], list(gs["shape"]), periodic=list(gs["periodic"]))
    if kind == "cyl":
        z0, z1 = gs["bounds_z"]
        return CylindricalSymGrid(gs["radius"] * s, (z0 * s, z1 * s), list(gs["shape"]), periodic_z=bool(gs["periodic_z"]))
    rad = gs["radius"]
    rad = (rad[0] * s, rad[1] * s) if isinstance(rad, (list, tuple)) else rad * s
    if kind == "polar":
        return PolarSymGrid(rad, gs["shape"])
    if kind == "spherical":
        return SphericalSymGrid(rad, gs["shape"])
    raise ValueError(kind)


def cart_spec(bounds, shape, periodic):
    return {"kind": "cart", "bounds": [list(map(float, b)) for b in bounds], "shape": [int(n) for n in shape],
            "periodic": [bool(p) for p in periodic]}


def legacy_grid_spec(dim, per):
    """the grids of the exhaustive stream / of old replay files: [0, 3]^dim, 6 cells per axis"""
    if per in (None, "None"):
        return None
    mask = [True] * dim if per in (True, "True") else [i % 2 == 0 for i in range(dim)]
    return cart_spec([(0.0, 3.0)] * dim, [6] * dim, mask)


def grid_tag(gs):
    if gs is None:
        return "none"
    if gs["kind"] == "cart":
        return "cart:" + "".join("T" if p else "F" for p in gs["periodic"])
    if gs["kind"] == "cyl":
        return "cyl:z" + ("T" if gs["periodic_z"] else "F")
    inner = isinstance(gs["radius"], (list, tuple)) and gs["radius"][0] > 0
    return gs["kind"] + (":inner" if inner else "")


def grid_lit(gs, s):
    """the metric of the grid as a Model/Grid.v axis list"""
    if gs is None:
        return "None"
    if gs["kind"] == "cart":
        axes = ["{| ncell := %s; alo := %s; ahi := %s; aper := %s |}" % (vlib.zlit(n), vlib.qlit(lo * s), vlib.qlit(hi * s), vlib.blit(p))
                for (lo, hi), n, p in zip(gs["bounds"], gs["shape"], gs["periodic"])]
        return "(Some " + vlib.listlit(axes) + ")"
    if gs["kind"] == "cyl":
        z0, z1 = gs["bounds_z"]
        return "(Some (cyl_metric %s %s %s %s %s %s))" % (vlib.zlit(gs["shape"][0]), vlib.zlit(gs["shape"][1]),
                                                         vlib.qlit(gs["radius"] * s), vlib.qlit(z0 * s), vlib.qlit(z1 * s),
                                                         vlib.blit(gs["periodic_z"]))
    return "(Some (sym_metric %d%%nat))" % (2 if gs["kind"] == "polar" else 3)


def grid_box(gs, dim):
    """a bounding box [(lo, hi)] * dim used to place positions"""
    if gs is None:
        return [(0.0, 3.0)] * dim
    if gs["kind"] == "cart":
        return [tuple(b) for b in gs["bounds"]]
    if gs["kind"] == "cyl":
        r = gs["radius"]
        return [(-r, r), (-r, r), tuple(gs["bounds_z"])]
    r = gs["radius"]
    r = r[1] if isinstance(r, (list, tuple)) else r
    return [(-r, r)] * dim


ORIGINS = ["zero", "centred", "positive", "negative"]
EXTENTS = [1.5, 2.0, 3.0, 4.5, 6.0]
CELLS = [1, 2, 3, 6, 8]


def origin_of(kind, L):
    return {"zero": 0.0, "centred": -L / 2, "positive": 5.25, "negative": -L - 1.5}[kind]


def extent_order(L):
    if len(L) < 2 or len(set(L)) == 1:
        return "equal"
    if L[0] == max(L) and L[-1] == min(L) and L[0] > L[-1]:
        return "larger_first"
    if L[-1] == max(L) and L[0] == min(L):
        return "larger_last"
    return "other"


def periodic_place(mask):
    """where the periodic axes sit (for the histogram)"""
    idx = [i for i, p in enumerate(mask) if p]
    if not idx:
        return "none"
    if len(idx) == len(mask):
        return "all"
    names = {0: "first", len(mask) - 1: "last"}
    return "+".join(names.get(i, "middle") for i in idx)


# --------------------------------------------------------------------------------------------------------------------
# building the emulsion of a specification
# --------------------------------------------------------------------------------------------------------------------
def _f32_exact(x):
    return math.isfinite(x) and float(np.float32(x)) == x


def effective_variant(spec):
    """resolve requested variants that are not applicable to the values of this case to their fallback"""
    v = dict(PLAIN)
    v.update(spec.get("var") or {})
    s = math.ldexp(1.0, v["k"])
    vals = [x * s for p in spec["positions"] for x in p] + [r * s for r in spec["radii"]]
    if v["ctor"] == "f32" and not all(_f32_exact(x) for x in vals):
        v["ctor"] = "array64"
    if v["ctor"] == "int" and not all(float(x).is_integer() and abs(x) < 2 ** 53 for x in vals):
        v["ctor"] = "array64"
    md = spec["min_distance"] * s
    if v["md_type"] == "int" and not (math.isfinite(md) and float(md).is_integer()):
        v["md_type"] = "float"
    if v["md_type"] == "np32" and not (_f32_exact(md) or math.isinf(md)):
        v["md_type"] = "float"
    if v["call"] == "default" and md != 0:
        v["call"] = "kw"
    if v["cls"] == "perturbed" and spec["dim"] == 1:
        v["cls"] = "diffuse"
    return v


def _droplet(cls, dim, p, r, ctor, s):
    from droplets import DiffuseDroplet, SphericalDroplet
    from droplets.droplets import PerturbedDroplet2D, PerturbedDroplet3D
    if ctor == "list":
        pos = [float(x) for x in p]
    elif ctor == "tuple":
        pos = tuple(float(x) for x in p)
    elif ctor == "f32":
        pos, r = np.array(p, dtype=np.float32), np.float32(r)
    elif ctor == "int":
        pos, r = [int(x) for x in p], int(r)
    elif ctor == "np0d":
        pos, r = np.array(p, dtype=float), np.array(float(r))
    else:
        pos = np.array(p, dtype=float)
    if cls == "spherical":
        return SphericalDroplet(pos, r)
    if cls == "diffuse":
        return DiffuseDroplet(pos, r, 0.25 * s)
    if dim == 2:
        return PerturbedDroplet2D(pos, r, 0.25 * s, [0.125, 0.0625])
    return PerturbedDroplet3D(pos, r, 0.25 * s, [0.125, 0.0, 0.0625])


def build(spec, v):
    """-> (emulsion, the caller's own list of droplets, a second emulsion sharing the droplets or None)"""
    from droplets import Emulsion
    s = math.ldexp(1.0, v["k"])
    dim = spec["dim"]
    kinds = ("spherical", "diffuse") if dim == 1 else ("spherical", "diffuse", "perturbed")  # "mixed": classes in turn
    classes = [v["cls"] if v["cls"] != "mixed" else kinds[i % len(kinds)] for i in range(len(spec["radii"]))]
    caller = [_droplet(c, dim, [x * s for x in p], r * s, v["ctor"], s) for c, p, r in zip(classes, spec["positions"], spec["radii"])]
    prov, other = v["prov"], None
    if prov == "ctor_copy":
        em = Emulsion(caller)
    elif prov == "em_copy":
        em = Emulsion(caller, copy=False).copy()
    elif prov == "deepcopy":
        em = _copy.deepcopy(Emulsion(caller, copy=False))
    elif prov == "pickle":
        em = pickle.loads(pickle.dumps(Emulsion(caller, copy=False)))
    elif prov == "slice":
        em = Emulsion(caller, copy=False)[:]
    elif prov == "concat":
        k = len(caller) // 2
        em = Emulsion(caller[:k], copy=False) + Emulsion(caller[k:], copy=False)
    elif prov == "append":
        em = Emulsion()
        for d in caller:
            em.append(d, copy=False)
    elif prov == "generator":  # as the locators do
        em = Emulsion((d for d in caller), copy=False)
    elif prov == "timecourse":  # member of a time course
        from droplets.emulsions import EmulsionTimeCourse
        em = EmulsionTimeCourse([Emulsion(caller, copy=False)], times=[0.5])[0]
    elif prov == "shared":
        em, other = Emulsion(caller, copy=False), Emulsion(caller, copy=False)
    elif prov == "queried":
        em = Emulsion(caller, copy=False)
        _ = em.get_pairwise_distances(), em.get_neighbor_distances()
        if len(em) and v["cls"] != "mixed":  # (the data array of an empty / a mixed emulsion is documented to raise)
            _ = em.data
        em.remove_small(-1.0 * s)
        em.remove_overlapping(min_distance=-math.inf)
    else:
        em = Emulsion(caller, copy=False)
    return em, caller, other


def _state(objs):
    return [(id(d), type(d).__name__, np.asarray(d.data).tobytes()) for d in objs]


def _md_arg(md, md_type):
    if md_type == "int":
        return int(md)
    if md_type == "np64":
        return np.float64(md)
    if md_type == "np32":
        return np.float32(md)
    if md_type == "arr0d":
        return np.array(md)
    return float(md)


def _is_real_matrix(M, n):
    return (isinstance(M, np.ndarray) and M.shape == (n, n) and M.dtype.kind == "f" and bool(np.isfinite(M).all()))


# --------------------------------------------------------------------------------------------------------------------
# property oracle (written from the property text; results of the wrong kind are failures, never crashes)
# --------------------------------------------------------------------------------------------------------------------
def run_spec(spec):
    """-> (failure description or None, info for the correspondence / the histogram)"""
    info: dict = {}
    try:
        return _oracle(spec, info), info
    except Exception as e:  # an undocumented exception on a valid input is a property failure with that input
        return f"exception {type(e).__name__}: {e}"[:300], info


def _oracle(spec, info):
    v = effective_variant(spec)
    info["var"] = v
    s = math.ldexp(1.0, v["k"])
    grid = make_grid(spec["grid"], s)
    grid_sig = None if grid is None else (repr(grid), tuple(grid.periodic), tuple(map(tuple, np.asarray(grid.axes_bounds, float))))
    md = spec["min_distance"] * s
    em, caller, other = build(spec, v)
    caller_ids = [id(d) for d in caller]
    caller_state = _state(caller)
    if v["prov"] in ("nocopy", "append", "shared", "queried", "generator") and not (len(em) == len(caller) and all(a is b for a, b in zip(em, caller))):
        return "an emulsion built without copying does not hold the given objects in the given order"
    members = list(em)
    n = len(members)
    if n != len(spec["positions"]):
        return f"emulsion built via {v['prov']} has {n} droplets instead of {len(spec['positions'])}"
    P = [np.array(d.position, dtype=float) for d in members]
    R = [float(d.radius) for d in members]
    for p, r, p0, r0 in zip(P, R, spec["positions"], spec["radii"]):
        if r != r0 * s or p.shape != (spec["dim"],) or any(a != b * s for a, b in zip(p, p0)):
            return f"emulsion built via {v['prov']} / {v['ctor']} does not hold the given positions and radii"
    before = _state(members)
    ids = {id(d): i for i, d in enumerate(members)}

    def dist(a, b):
        if grid is None:
            return float(np.linalg.norm(a - b))
        return float(grid.distance(a, b, coords="cartesian"))

    if v["call"] == "pos":
        M0 = em.get_pairwise_distances(False, grid)
        M1 = em.get_pairwise_distances(True, grid)
    elif v["call"] == "default":
        M0 = em.get_pairwise_distances() if grid is None else em.get_pairwise_distances(grid=grid)
        M1 = em.get_pairwise_distances(subtract_radius=True) if grid is None else em.get_pairwise_distances(True, grid=grid)
    else:
        M0 = em.get_pairwise_distances(subtract_radius=False, grid=grid)
        M1 = em.get_pairwise_distances(subtract_radius=True, grid=grid)
    for name, M in (("distance", M0), ("surface distance", M1)):
        if not _is_real_matrix(M, n):
            return (f"{name} matrix is not a finite real {n}x{n} array: {type(M).__name__} "
                    f"{getattr(M, 'shape', None)} {getattr(M, 'dtype', None)}")
    info.update(M0=M0, M1=M1, R=R, P=P, md=md)
    DD = [[dist(P[i], P[j]) if i != j else 0.0 for j in range(n)] for i in range(n)]
    info["wrap"] = grid is not None and any(DD[i][j] != float(np.linalg.norm(P[i] - P[j])) for i in range(n) for j in range(i))
    exact_edge = 0
    for i in range(n):
        if M0[i, i] != 0 or M1[i, i] != 0:
            return "non-zero diagonal"
        for j in range(n):
            if M0[i, j] != M0[j, i] or M1[i, j] != M1[j, i]:
                return "distance matrix not symmetric"
            if i != j:
                d = DD[i][j]
                if M0[i, j] != d and M0[i, j] != DD[j][i]:
                    return f"matrix entry {M0[i, j]} is not the centre distance {d}"
                if not math.isclose(M1[i, j], d - (R[i] + R[j]), rel_tol=1e-15, abs_tol=1e-15 * s):
                    return "surface distance is not centre distance minus both radii"
                ov = members[i].overlaps(members[j], grid=grid) if (i + j) % 2 else members[i].overlaps(members[j], grid)
                if not isinstance(ov, (bool, np.bool_)):
                    return f"overlaps() returned {type(ov).__name__}"
                # `d < r1 + r2` and `d - (r1 + r2) < 0` are the same predicate also in IEEE arithmetic, so the knife edge
                # (touching droplets) is judged exactly whenever the matrix entry is the canonical expression of the
                # distance overlaps() sees; otherwise (last-bit differences) the knife edge is excluded
                if M1[i, j] == d - (R[i] + R[j]):
                    exact_edge += M1[i, j] == 0
                    if bool(ov) != bool(M1[i, j] < 0):
                        return f"overlaps()={ov} but surface distance {M1[i, j]}"
                elif abs(M1[i, j]) > 1e-12 * s and bool(ov) != bool(M1[i, j] < 0):
                    return f"overlaps()={ov} but surface distance {M1[i, j]}"
    info["touching_pairs"] = exact_edge // 2
    # nearest neighbours: always the non-periodic metric (documented); compared with the matrix of that metric
    E0 = M0 if grid is None else em.get_pairwise_distances(subtract_radius=False)
    E1 = M1 if grid is None else em.get_pairwise_distances(subtract_radius=True)
    nd = em.get_neighbor_distances() if v["call"] == "default" else em.get_neighbor_distances(subtract_radius=False)
    nds = em.get_neighbor_distances(True) if v["call"] == "pos" else em.get_neighbor_distances(subtract_radius=True)
    info["classes"] = len({type(d) for d in members})
    for name, a in (("neighbour distances", nd), ("neighbour surface distances", nds)):
        if not (isinstance(a, np.ndarray) and a.shape == (n,) and a.dtype.kind == "f"):
            return f"{name} are not a real vector of length {n}: {type(a).__name__} {getattr(a, 'shape', None)} {getattr(a, 'dtype', None)}"
        if n == 1 and math.isfinite(a[0]):
            return f"{name} of a single droplet are finite ({a[0]})"
        if n >= 2 and not np.isfinite(a).all():
            return f"{name} are not finite"
    if n >= 2:
        if not _is_real_matrix(E0, n) or not _is_real_matrix(E1, n):
            return "Euclidean distance matrix is not a finite real array"
        for i in range(n):
            row = min(E0[i, j] for j in range(n) if j != i)
            if not math.isclose(nd[i], row, rel_tol=1e-12, abs_tol=1e-12 * s):
                return f"neighbour distance {nd[i]} is not the row minimum {row}"
            # surface variant: distance to a nearest neighbour (by centre distance) minus both radii
            ok_vals = [E1[i, j] for j in range(n) if j != i and math.isclose(E0[i, j], row, rel_tol=1e-12, abs_tol=1e-12 * s)]
            if not any(math.isclose(nds[i], x, rel_tol=1e-12, abs_tol=1e-12 * s) for x in ok_vals):
                return (f"neighbour distance with subtracted radii {nds[i]} of droplet {i} is not the surface distance to a "
                        f"nearest neighbour {ok_vals}")
    if list(map(id, em)) != list(map(id, members)) or _state(members) != before:
        return "a distance query changed the emulsion or its droplets"
    # ---- removal ----
    md_arg = _md_arg(md, v["md_type"])

    def remove():
        if v["call"] == "pos":
            return em.remove_overlapping(md_arg, grid)
        if v["call"] == "default":
            return em.remove_overlapping() if grid is None else em.remove_overlapping(grid=grid)
        return em.remove_overlapping(min_distance=md_arg, grid=grid)

    if remove() is not None:
        return "remove_overlapping returned a value"
    if not isinstance(em, list) or type(em).__name__ != "Emulsion":
        return "emulsion changed its class"
    out = [ids.get(id(d), -1) for d in em]
    info["out"] = out
    if -1 in out:
        return "survivor is not one of the original objects"
    if out != sorted(out) or len(set(out)) != len(out):
        return f"survivors not in original order: {out}"
    for a, b in itertools.combinations(out, 2):
        if DD[a][b] - (R[a] + R[b]) < md - 1e-12 * s:
            return f"survivors {a},{b} closer than min_distance"
    for k in range(n):
        if k not in out:
            if not any(j != k and R[j] >= R[k] and M1[k, j] < md for j in range(n)):
                return f"droplet {k} removed although no droplet at least as large is closer than min_distance"
    if n:
        mx = max(R)
        if R.count(mx) == 1 and R.index(mx) not in out:
            return "strictly largest droplet removed"
    # the objects themselves (survivors and removed ones), the caller's list and a second collection are untouched
    if _state(members) != before:
        return "remove_overlapping changed a droplet"
    if [id(d) for d in caller] != caller_ids or _state(caller) != caller_state:
        return "remove_overlapping changed the caller's list of droplets"
    if other is not None and ([id(d) for d in other] != caller_ids or _state(other) != caller_state):
        return "removing from one emulsion changed another emulsion that shares the droplets"
    if grid is not None and grid_sig != (repr(grid), tuple(grid.periodic), tuple(map(tuple, np.asarray(grid.axes_bounds, float)))):
        return "the grid was changed"
    kept = list(em)
    if remove() is not None:
        return "remove_overlapping returned a value"
    if [id(d) for d in em] != [id(d) for d in kept]:
        return "second call removed something"
    return None


def run_raising(spec):
    """an operation that raises in the middle: a grid of the wrong dimension.  Whatever is raised, the emulsion and its
    droplets must be what they were (remove_overlapping computes all distances before it removes anything)."""
    info: dict = {}
    try:
        v = effective_variant(spec)
        em, caller, _other = build(spec, v)
        members, before = list(em), _state(list(em))
        grid = make_grid(spec["wrong_grid"])
        try:
            em.remove_overlapping(min_distance=spec["min_distance"], grid=grid)
            info["raised"] = "no exception"
            return None, info  # accepted the grid: nothing to judge here
        except Exception as e:
            info["raised"] = type(e).__name__
        if [id(d) for d in em] != [id(d) for d in members] or _state(members) != before:
            return "remove_overlapping raised and left a partially modified emulsion", info
        return None, info
    except Exception as e:
        return f"exception {type(e).__name__}: {e}"[:300], info


def run_neighbours(spec):
    """the distance-query part of the property on a LARGE emulsion, vectorised (no removal, no per-pair overlaps() calls)"""
    info: dict = {}
    try:
        return _oracle_neighbours(spec, info), info
    except Exception as e:
        return f"exception {type(e).__name__}: {e}"[:300], info


def _close(a, b, rel, abs_tol):
    """math.isclose, element-wise"""
    return np.abs(a - b) <= np.maximum(rel * np.maximum(np.abs(a), np.abs(b)), abs_tol)


def _oracle_neighbours(spec, info):
    v = effective_variant(spec)
    info["var"] = v
    s = math.ldexp(1.0, v["k"])
    em, caller, other = build(spec, v)
    members = list(em)
    n = len(members)
    if n != len(spec["positions"]):
        return f"emulsion built via {v['prov']} has {n} droplets instead of {len(spec['positions'])}"
    before = _state(members)
    P = np.array([np.asarray(d.position, dtype=float) for d in members])
    R = np.array([float(d.radius) for d in members])
    info["classes"] = len({type(d) for d in members})
    E0 = em.get_pairwise_distances() if v["call"] == "default" else (
        em.get_pairwise_distances(False) if v["call"] == "pos" else em.get_pairwise_distances(subtract_radius=False))
    if not _is_real_matrix(E0, n):
        return f"distance matrix is not a finite real {n}x{n} array"
    if not np.array_equal(E0, E0.T) or np.diag(E0).any():
        return "distance matrix not symmetric with zero diagonal"
    D = np.sqrt(((P[:, None, :] - P[None, :, :]) ** 2).sum(-1))
    if not _close(E0, D, 1e-14, 1e-14 * s).all():
        i, j = map(int, np.argwhere(~_close(E0, D, 1e-14, 1e-14 * s))[0])
        return f"matrix entry {E0[i, j]} of droplets {i},{j} is not the centre distance {D[i, j]}"
    # surface distances by the documented formula (the implementation's own surface matrix is compared with it entry by
    # entry on the small emulsions)
    E1 = E0 - (R[:, None] + R[None, :])
    nd = em.get_neighbor_distances() if v["call"] == "default" else em.get_neighbor_distances(subtract_radius=False)
    nds = em.get_neighbor_distances(True) if v["call"] == "pos" else em.get_neighbor_distances(subtract_radius=True)
    for name, a in (("neighbour distances", nd), ("neighbour surface distances", nds)):
        if not (isinstance(a, np.ndarray) and a.shape == (n,) and a.dtype.kind == "f" and np.isfinite(a).all()):
            return f"{name} are not a finite real vector of length {n}: {type(a).__name__} {getattr(a, 'shape', None)} {getattr(a, 'dtype', None)}"
    off = E0 + np.diag([np.inf] * n)
    row = off.min(axis=1)
    bad = ~_close(nd, row, 1e-12, 1e-12 * s)
    if bad.any():
        i = int(np.argmax(bad))
        return f"neighbour distance {nd[i]} of droplet {i} is not the row minimum {row[i]}"
    nearest = _close(off, row[:, None], 1e-12, 1e-12 * s)
    ok = (nearest & _close(E1, nds[:, None], 1e-12, 1e-12 * s)).any(axis=1)
    if not ok.all():
        i = int(np.argmin(ok))
        return (f"neighbour distance with subtracted radii {nds[i]} of droplet {i} is not the surface distance to a "
                f"nearest neighbour {E1[i][nearest[i]].tolist()[:5]}")
    if list(map(id, em)) != list(map(id, members)) or _state(members) != before:
        return "a distance query changed the emulsion or its droplets"
    return None


# --------------------------------------------------------------------------------------------------------------------
# generators
# --------------------------------------------------------------------------------------------------------------------
def mk(stream, positions, radii, md, dim, gs, var=None, **extra):
    return {"stream": stream, "positions": [list(map(float, p)) for p in positions], "radii": list(map(float, radii)),
            "min_distance": float(md), "dim": dim, "grid": gs, "var": dict(var or PLAIN), **extra}


def gen_exhaustive(ctx):
    lat = [0.5, 1.5, 2.5]
    rs = [0.0, 0.5, 1.0]
    mds = [-1.0, 0.0, 0.5, 1.0]
    out = []
    for dim, maxn in ((1, ctx.scale(3, 4)), (2, ctx.scale(2, 3))):
        pts = [list(p) for p in itertools.product(lat, repeat=dim)]
        for n in range(0, maxn + 1):
            for pos in itertools.product(pts, repeat=n):
                for rad in itertools.product(rs, repeat=n):
                    for md in mds:
                        for per in (None, True):
                            out.append(mk("exh", pos, rad, md, dim, legacy_grid_spec(dim, per)))
    return out


def rand_variant(rng, plain_share=0.35):
    if rng.random() < plain_share:
        return dict(PLAIN)
    return {"prov": rng.choice(PROVS), "cls": rng.choice(CLASSES), "ctor": rng.choice(CTORS), "md_type": rng.choice(MD_TYPES),
            "call": rng.choice(CALLS), "k": rng.choice(SCALES)}


def rand_grid(rng, dim):
    kinds = ["none", "none", "cart", "cart", "cart", "cart"]
    if dim == 2:
        kinds += ["polar"]
    if dim == 3:
        kinds += ["cyl", "cyl", "spherical"]
    kind = rng.choice(kinds)
    if kind == "none":
        return None
    if kind == "cart":
        L = [rng.choice(EXTENTS) for _ in range(dim)]
        if rng.random() < 0.3:
            L = sorted(L, reverse=rng.random() < 0.5)
        bounds = []
        for l in L:
            o = origin_of(rng.choice(ORIGINS), l)
            bounds.append((o, o + l))
        return cart_spec(bounds, [rng.choice(CELLS) for _ in range(dim)], [rng.random() < 0.5 for _ in range(dim)])
    if kind == "cyl":
        lz = rng.choice([1.5, 3.0, 12.0])
        z0 = origin_of(rng.choice(ORIGINS), lz)
        return {"kind": "cyl", "radius": rng.choice([0.5, 2.0, 6.0]), "bounds_z": [z0, z0 + lz],
                "shape": list(rng.choice([(2, 24), (8, 2), (4, 8), (1, 1), (3, 5)])), "periodic_z": rng.random() < 0.5}
    rad = rng.choice([3.0, 1.5, [1.0, 3.0], [0.5, 4.5]])
    return {"kind": kind, "radius": rad, "shape": rng.choice([1, 2, 4, 7])}


def rand_positions(rng, gs, dim, n, hist):
    box = grid_box(gs, dim)
    on_axis = gs is not None and gs["kind"] == "cyl" and rng.random() < 0.75
    pos = []
    for _ in range(n):
        mode = rng.choice(["inside"] * 5 + ["face", "corner", "outside", "dup", "dup"])
        if mode == "dup" and not pos:
            mode = "inside"
        if mode == "dup":
            p = list(rng.choice(pos))
        else:
            p = []
            for lo, hi in box:
                steps = int((hi - lo) * 64)
                if mode == "inside":
                    x = lo + rng.randrange(0, steps + 1) / 64.0
                elif mode == "corner":
                    x = rng.choice([lo, hi])
                elif mode == "outside":
                    x = rng.choice([lo - rng.randrange(1, steps + 1) / 64.0, hi + rng.randrange(1, steps + 1) / 64.0,
                                    lo + rng.randrange(0, steps + 1) / 64.0])
                else:
                    x = lo + rng.randrange(0, steps + 1) / 64.0
                p.append(x)
            if mode == "face":
                k = rng.randrange(dim)
                p[k] = rng.choice(box[k])
        if on_axis:
            p[0] = p[1] = 0.0
        hist.append(mode)
        pos.append(p)
    return pos


def rand_radii(rng, n):
    pat = rng.choice(["mixed", "mixed", "mixed", "all_equal", "all_zero", "two_values", "one_big"])
    if pat == "all_equal":
        r = rng.choice([0.25, 0.5, 1.0])
        return pat, [r] * n
    if pat == "all_zero":
        return pat, [0.0] * n
    if pat == "two_values":
        return pat, [rng.choice([0.25, 0.75]) for _ in range(n)]
    if pat == "one_big":
        rad = [rng.choice([0.0, 0.25, 0.5]) for _ in range(n)]
        if n:
            rad[rng.randrange(n)] = 2.0
        return pat, rad
    return pat, [rng.choice([0.0, 0.25, 0.5, 0.5, 1.0, rng.randrange(1, 96) / 64.0]) for _ in range(n)]


def surface_distance(spec, i, j):
    """the surface distance of droplets i < j in the metric of the case, evaluated like the documented formula"""
    grid = make_grid(spec["grid"])
    a, b = np.array(spec["positions"][i], float), np.array(spec["positions"][j], float)
    d = float(np.linalg.norm(a - b)) if grid is None else float(grid.distance(a, b, coords="cartesian"))
    return d - (spec["radii"][i] + spec["radii"][j])


def gen_random(ctx, rng, count):
    out = []
    for _ in range(count):
        dim = rng.choice([1, 2, 3])
        n = rng.choice([0, 1, 2, 2, 3, 3] + list(range(4, 13)))
        gs = rand_grid(rng, dim)
        modes: list = []
        pos = rand_positions(rng, gs, dim, n, modes)
        pat, rad = rand_radii(rng, n)
        var = rand_variant(rng)
        spec = mk("rand", pos, rad, 0.0, dim, gs, var, pos_modes=modes, radii_pattern=pat)
        kind = rng.choice(["fixed"] * 5 + ["occurring", "occurring", "occurring_up", "occurring_down", "inf", "-inf"])
        if kind.startswith("occurring") and n >= 2:
            i, j = sorted(rng.sample(range(n), 2))
            md = surface_distance(spec, i, j)
            md = {"occurring": md, "occurring_up": math.nextafter(md, math.inf), "occurring_down": math.nextafter(md, -math.inf)}[kind]
            if kind != "occurring" and var["k"] != 0:
                var["k"] = 0  # the float neighbours are taken at scale 1
        elif kind == "inf":
            md = math.inf
        elif kind == "-inf":
            md = -math.inf
        else:
            kind = "fixed"
            md = rng.choice([-1.0, -0.25, 0.0, 0.0, 0.5, 1.0])
        spec["min_distance"], spec["md_kind"] = md, kind
        out.append(spec)
    return out


def gen_masks(ctx, rng):
    """every dimension x periodicity mask x straddled axis x origin kind x extent order, plus a pair across the corner"""
    out = []
    for dim in (1, 2, 3):
        for mask in itertools.product([False, True], repeat=dim):
            for okind in ORIGINS:
                for eo in ("equal", "larger_first", "larger_last"):
                    if dim == 1 and eo != "equal":
                        continue
                    L = {"equal": [3.0] * dim, "larger_first": [6.0, 3.0, 1.5][:dim] if dim == 3 else [6.0, 1.5],
                         "larger_last": [1.5, 3.0, 6.0][:dim] if dim == 3 else [1.5, 6.0]}[eo]
                    bounds = [(origin_of(okind, l), origin_of(okind, l) + l) for l in L]
                    shape = [rng.choice(CELLS) for _ in range(dim)]
                    gs = cart_spec(bounds, shape, mask)
                    mid = [(lo + hi) / 2 for lo, hi in bounds]
                    for k in list(range(dim)) + ["corner"]:
                        if k == "corner":
                            if eo != "equal":
                                continue
                            a = [lo + 0.25 for lo, hi in bounds]
                            b = [hi - 0.25 for lo, hi in bounds]
                        else:
                            a, b = list(mid), list(mid)
                            a[k], b[k] = bounds[k][0] + 0.25, bounds[k][1] - 0.25
                        drops = [(a, 0.5), (b, 0.375), (mid, 0.125)]
                        rng.shuffle(drops)
                        md = rng.choice([0.0, 0.0, -0.25, 0.25])
                        out.append(mk("masks", [p for p, _ in drops], [r for _, r in drops], md, dim, gs,
                                      straddle=str(k), origin=okind, extents=eo))
    return out


def gen_cyl(ctx, rng):
    out = []
    geoms = [(0.5, 12.0, (2, 24), "narrow_fine"), (6.0, 1.5, (8, 2), "flat_wide"), (2.0, 3.0, (4, 8), "regular"), (1.0, 3.0, (1, 1), "single_cell")]
    for pz in (False, True):
        for R, lz, shape, gname in geoms:
            for okind in ORIGINS:
                z0 = origin_of(okind, lz)
                gs = {"kind": "cyl", "radius": R, "bounds_z": [z0, z0 + lz], "shape": list(shape), "periodic_z": pz}
                zmid = z0 + lz / 2
                # on the axis: across the z boundary, in the middle, a coincident pair
                pos = [[0, 0, z0 + 0.25], [0, 0, z0 + lz - 0.25], [0, 0, zmid], [0, 0, zmid]]
                rad = [0.5, 0.375, 0.25, 0.125]
                order = list(range(4))
                rng.shuffle(order)
                out.append(mk("cyl", [pos[i] for i in order], [rad[i] for i in order], rng.choice([0.0, -0.25, 0.25]), 3, gs,
                              geometry=gname, origin=okind, placement="axis"))
                # off the axis: Cartesian y separated by almost the z period (py-pde wraps y with the z period when periodic)
                pos = [[0, -(lz / 2 - 0.25), zmid], [0, lz / 2 - 0.25, zmid], [0.125, 0, z0], [0, 0, z0 + lz]]
                out.append(mk("cyl", pos, [0.5, 0.375, 0.25, 0.25], 0.0, 3, gs, geometry=gname, origin=okind, placement="off_axis"))
    return out


def gen_coincident(ctx, rng):
    out = []
    for dim in (1, 2, 3):
        for g in (2, 3, 4, 5):
            for pat in ("equal", "distinct", "zero", "one_big"):
                for md in (-1.0, 0.0, 0.5):
                    c = [rng.randrange(0, 193) / 64.0 for _ in range(dim)]
                    pos = [list(c) for _ in range(g)]
                    rad = {"equal": [0.5] * g, "distinct": [0.25 * (i + 1) for i in range(g)], "zero": [0.0] * g,
                           "one_big": [0.25] * (g - 1) + [1.0]}[pat]
                    rng.shuffle(rad)
                    for _ in range(rng.randrange(0, 3)):
                        pos.insert(rng.randrange(len(pos) + 1), [rng.randrange(0, 193) / 64.0 for _ in range(dim)])
                        rad.insert(rng.randrange(len(rad) + 1), rng.choice([0.0, 0.25, 0.5]))
                    gs = rng.choice([None, None, None, legacy_grid_spec(dim, True), legacy_grid_spec(dim, "mixed")])
                    out.append(mk("coin", pos, rad, md, dim, gs, rand_variant(rng, 0.6), group=g, radii_pattern=pat))
                    if md == 0.0:
                        # the same group inside an emulsion that mixes droplet classes (defects F30 + F37), no grid, so that
                        # both neighbour queries are compared with the matrix of the very same metric
                        var = {**PLAIN, "cls": "mixed", "call": rng.choice(CALLS), "prov": rng.choice(["nocopy", "ctor_copy", "pickle"])}
                        out.append(mk("coin", pos, rad, md, dim, None, var, group=g, radii_pattern=pat))
    return out


def gen_chains(ctx, rng):
    """neighbours overlap; with the patterns below the first removal hits a LOW index while later minima involve higher
    indices (their rows / radii shift), and ties walk along the chain"""
    out = []
    for n in (3, 4, 5, 6, 8) if ctx.quick else range(3, 10):
        for pat in ("inc", "dec", "equal", "alt", "first_small", "valley"):
            for md in (0.0, 0.5):
                for order in ("asis", "reversed", "shuffled"):
                    rad = {"inc": [0.55 + 0.03125 * i for i in range(n)], "dec": [0.55 + 0.03125 * (n - i) for i in range(n)],
                           "equal": [0.625] * n, "alt": [0.5 if i % 2 else 0.75 for i in range(n)],
                           "first_small": [0.25] + [0.75] * (n - 1),
                           "valley": [0.55 + 0.0625 * abs(i - n // 2) for i in range(n)]}[pat]
                    dim = rng.choice([1, 2])
                    pos = [[float(i)] + [0.25 * (i % 2)] * (dim - 1) for i in range(n)]
                    idx = list(range(n))
                    if order == "reversed":
                        idx.reverse()
                    elif order == "shuffled":
                        rng.shuffle(idx)
                    out.append(mk("chain", [pos[i] for i in idx], [rad[i] for i in idx], md, dim, None, chain=pat, order=order))
    return out


def gen_long(ctx, rng):
    out = []
    for n, coq in [(32, True)] + ([] if ctx.quick else [(120, True), (600, False)]):
        side = math.sqrt(n) * 1.5
        pos = [[rng.randrange(0, int(side * 64)) / 64.0 for _ in range(2)] for _ in range(n)]
        rad = [rng.choice([0.25, 0.5, 0.5, 0.75, 1.0]) for _ in range(n)]
        out.append(mk("long", pos, rad, 0.0, 2, None, no_coq=not coq))
    return out


LARGE_SIZES = (40, 64, 100, 250)
LARGE_FULL_ORACLE = 64  # up to this size the whole oracle (incl. removal) runs; above it the neighbour oracle


def gen_large(ctx, rng):
    """sizes beyond the leaf size (16) of the k-d tree behind get_neighbor_distances, in every dimension"""
    out = []
    for rep_ in range(ctx.scale(1, 3)):
        for n in LARGE_SIZES + (() if ctx.quick or rep_ else (600,)):
            for dim in (1, 2, 3):
                for kind in ("random", "clustered", "lattice", "coincident"):
                    side = max(2, round(n ** (1.0 / dim) * 1.5))
                    if kind == "lattice":  # integer lattice: every droplet has several nearest neighbours at distance exactly 1
                        m = math.ceil(n ** (1.0 / dim))
                        pts = [list(map(float, p)) for p in itertools.product(range(m), repeat=dim)]
                        rng.shuffle(pts)
                        pos = pts[:n]
                    elif kind == "clustered":
                        centres = [[rng.randrange(0, 8) * 8.0 for _ in range(dim)] for _ in range(rng.choice([3, 4, 6]))]
                        pos = [[c + rng.randrange(-48, 49) / 64.0 for c in rng.choice(centres)] for _ in range(n)]
                    else:
                        pos = []
                        for _ in range(n):
                            if kind == "coincident" and pos and rng.random() < 0.3:
                                pos.append(list(rng.choice(pos)))
                            else:
                                pos.append([rng.randrange(0, side * 64 + 1) / 64.0 for _ in range(dim)])
                    pat, rad = rand_radii(rng, n)
                    if kind == "lattice":
                        rad = [rng.choice([0.25, 0.5]) for _ in range(n)]
                    var = rand_variant(rng, 0.5)
                    var["ctor"] = "array64" if var["ctor"] == "int" and kind != "lattice" else var["ctor"]
                    out.append(mk("large", pos, rad, rng.choice([0.0, 0.0, -0.25, 0.25]), dim, None, var, large_kind=kind,
                                  no_coq=True, neighbours_only=n > LARGE_FULL_ORACLE))
    return out


def gen_raising(ctx, rng):
    out = []
    for dim in (1, 2, 3):
        for wrong in (1, 2, 3):
            if wrong == dim:
                continue
            for prov in ("nocopy", "ctor_copy"):
                n = rng.randrange(2, 6)
                pos = [[rng.randrange(0, 193) / 64.0 for _ in range(dim)] for _ in range(n)]
                rad = [rng.choice([0.5, 1.0, 1.5]) for _ in range(n)]
                out.append(mk("raise", pos, rad, 0.0, dim, None, {**PLAIN, "prov": prov},
                              wrong_grid=legacy_grid_spec(wrong, rng.choice([True, "mixed"]))))
    return out


# --------------------------------------------------------------------------------------------------------------------
# Emulsion.from_random
# --------------------------------------------------------------------------------------------------------------------
def gen_from_random(ctx, rng, count):
    out = []
    for k in range(count):
        dim = 1 + k % 3
        region = rng.choice(["bounds", "bounds", "bounds_tuple", "bounds_array", "grid", "grid"])
        if region == "grid":
            gs = None
            while gs is None:
                gs = rand_grid(rng, dim)
            reg = {"grid": gs}
        else:
            b = []
            for _ in range(dim):
                l = rng.choice(EXTENTS + [0.0])  # a degenerate axis [x, x] is a valid interval
                o = origin_of(rng.choice(ORIGINS), l)
                b.append([o, o + l])
            reg = {"bounds": b}
        r0 = rng.choice([0.0, 0.125, 0.25, 0.5])
        r1 = r0 + rng.choice([0.0, 0.125, 0.5])
        out.append({"stream": "from_random", "k": k, "dim": dim, "region": region, **reg,
                    "radius_form": rng.choice(["tuple", "tuple", "list", "array", "float", "int", "np64"]), "r0": r0, "r1": r1,
                    "num": rng.choice([0, 1, 2, 10, 10, 25]), "remove_overlapping": rng.choice(["default", True, False]),
                    "droplet_class": rng.choice(["default", "SphericalDroplet", "DiffuseDroplet"]),
                    "rng": rng.choice(["seeded"] * 5 + ["none"]), "rng_seed": rng.randrange(2 ** 31)})
    return out


def run_from_random(spec):
    info: dict = {}
    try:
        return _oracle_from_random(spec, info), info
    except Exception as e:
        return f"exception {type(e).__name__}: {e}"[:300], info


def _oracle_from_random(spec, info):
    from droplets import DiffuseDroplet, Emulsion, SphericalDroplet
    dim, r0, r1 = spec["dim"], spec["r0"], spec["r1"]
    form = spec["radius_form"]
    if form in ("float", "int", "np64"):
        r1 = r0 = {"float": float, "int": lambda x: int(math.ceil(x)), "np64": np.float64}[form](r0 if form != "int" else max(r0, 1))
        radius = r0
    else:
        radius = {"tuple": (r0, r1), "list": [r0, r1], "array": np.array([r0, r1])}[form]
    grid = None
    if "grid" in spec:
        region = grid = make_grid(spec["grid"])
        keep = None
    elif spec["region"] == "bounds_tuple":
        region = tuple(tuple(b) for b in spec["bounds"])
        keep = _copy.deepcopy(region)
    elif spec["region"] == "bounds_array":
        region = np.array(spec["bounds"], dtype=float)
        keep = region.copy()
    else:
        region = [tuple(b) for b in spec["bounds"]]
        keep = _copy.deepcopy(region)
    kw = {}
    if spec["remove_overlapping"] != "default":
        kw["remove_overlapping"] = spec["remove_overlapping"]
    cls = SphericalDroplet
    if spec["droplet_class"] != "default":
        cls = kw["droplet_class"] = {"SphericalDroplet": SphericalDroplet, "DiffuseDroplet": DiffuseDroplet}[spec["droplet_class"]]
    if spec["rng"] == "seeded":
        kw["rng"] = np.random.default_rng(spec["rng_seed"])
    em = Emulsion.from_random(spec["num"], region, radius, **kw)
    if not isinstance(em, Emulsion):
        return f"from_random returned {type(em).__name__}"
    info["len"] = len(em)
    removing = spec["remove_overlapping"] in ("default", True)
    if len(em) > spec["num"] or (not removing and len(em) != spec["num"]):
        return f"from_random({spec['num']}) returned {len(em)} droplets"
    if keep is not None and not (np.array_equal(np.asarray(region, float), np.asarray(keep, float)) and type(region) is type(keep)):
        return "from_random changed the caller's bounds"
    pos, rad = [], []
    for d in em:
        if type(d) is not cls:
            return f"droplet of class {type(d).__name__} instead of {cls.__name__}"
        p = np.asarray(d.position)
        r = d.radius
        if p.shape != (dim,) or p.dtype.kind != "f" or not np.isfinite(p).all() or isinstance(r, complex) or not math.isfinite(r):
            return f"droplet with position {p!r} radius {r!r}"
        if not (r0 <= r <= r1):
            return f"radius {r} outside [{r0}, {r1}]"
        if grid is None:
            inside = all(lo <= x <= hi for x, (lo, hi) in zip(p, spec["bounds"]))
        else:
            gs = spec["grid"]
            if gs["kind"] == "cart":
                inside = all(lo <= x <= hi for x, (lo, hi) in zip(p, gs["bounds"]))
            elif gs["kind"] == "cyl":
                inside = math.hypot(p[0], p[1]) <= gs["radius"] * (1 + 1e-15) and gs["bounds_z"][0] <= p[2] <= gs["bounds_z"][1]
            else:
                rr = gs["radius"] if isinstance(gs["radius"], (list, tuple)) else [0.0, gs["radius"]]
                nrm = float(np.linalg.norm(p))
                inside = rr[0] * (1 - 1e-15) <= nrm <= rr[1] * (1 + 1e-15)
            inside = inside and bool(np.all(grid.contains_point(p, coords="cartesian")))
        if not inside:
            return f"position {p.tolist()} outside the requested region"
        pos.append([float(x) for x in p])
        rad.append(float(r))
    info["droplets"] = {"positions": pos, "radii": rad}
    if removing and grid is not None and any(grid.periodic):  # OBSERVED_OUTSIDE_PROPERTY["from_random_ignores_grid_metric"]
        ds = list(em)
        info["periodic_overlaps_left"] = sum(bool(a.overlaps(b, grid=grid)) for a, b in itertools.combinations(ds, 2))
    if removing:
        f, _ = run_spec(mk("from_random_result", pos, rad, 0.0, dim, None))
        if f:
            return "from_random(remove_overlapping=True) result: " + f
    return None


# --------------------------------------------------------------------------------------------------------------------
# check
# --------------------------------------------------------------------------------------------------------------------
def _case_ro(R, md, M, out):
    rows = vlib.listlit([vlib.listlit(r, vlib.qlit) for r in M.tolist()])
    return ("{| rc_md := %s; rc_rad := %s; rc_D := %s; rc_out := %s |}"
            % (vlib.qlit(md), vlib.listlit(R, vlib.qlit), rows, vlib.listlit(out, lambda i: f"{i}%nat")))


def _case_dist(spec, info, rng, most=4):
    """the metric is a statement about pairs: of a larger emulsion a random sub-emulsion of `most` droplets is compared"""
    s = math.ldexp(1.0, info["var"]["k"])
    n = len(info["P"])
    sel = list(range(n)) if n <= most else sorted(rng.sample(range(n), most))
    sub = info["M0"][np.ix_(sel, sel)]
    return "{| dc_grid := %s; dc_unit := %s; dc_pos := %s; dc_M := %s |}" % (
        grid_lit(spec["grid"], s), vlib.qlit(s * s), vlib.listlit([vlib.listlit(info["P"][i].tolist(), vlib.qlit) for i in sel]),
        vlib.listlit([vlib.listlit(r, vlib.qlit) for r in sub.tolist()]))


def _count_spec(ctx, spec, info):
    n = len(spec["positions"])
    gs = spec["grid"]
    v = info.get("var", spec["var"])
    ctx.count("stream", spec["stream"])
    ctx.count("droplets", n)
    ctx.count("neighbour_clause_judged_on_size", "<=12" if n <= 12 else ("13-39" if n < 40 else ("40-99" if n < 100 else ("100-249" if n < 250 else ">=250"))))
    if spec["stream"] == "large":
        ctx.count("large", "n=%d d=%d %s %s" % (n, spec["dim"], spec["large_kind"], "neighbour oracle" if spec.get("neighbours_only") else "whole oracle"))
    ctx.count("dim", spec["dim"])
    ctx.count("grid", grid_tag(gs))
    if gs is not None:
        ctx.count("wrap_matters:" + grid_tag(gs), bool(info.get("wrap")))
        if gs["kind"] == "cart":
            ctx.count("periodic_axes", periodic_place(gs["periodic"]))
            ctx.count("origin", "+".join(sorted({"zero" if lo == 0 else ("negative" if hi <= 0 else ("centred" if lo == -hi else ("positive" if lo > 0 else "other")))
                                                 for lo, hi in gs["bounds"]})))
            ctx.count("extents", extent_order([hi - lo for lo, hi in gs["bounds"]]))
            ctx.count("cells_min", min(gs["shape"]))
            ctx.count("cells_equal", len(set(gs["shape"])) == 1)
        elif gs["kind"] == "cyl":
            nr, nz = gs["shape"]
            lz = gs["bounds_z"][1] - gs["bounds_z"][0]
            ctx.count("cyl_cells", "dz%sdr nr=%d nz=%d" % ("<" if lz / nz < gs["radius"] / nr else (">" if lz / nz > gs["radius"] / nr else "="), nr, nz))
            ctx.count("cyl_z_origin", "zero" if gs["bounds_z"][0] == 0 else ("negative" if gs["bounds_z"][1] <= 0 else ("positive" if gs["bounds_z"][0] > 0 else "straddling")))
            ctx.count("cyl_on_axis", all(p[0] == 0 and p[1] == 0 for p in spec["positions"]))
    for m in spec.get("pos_modes", []):
        ctx.count("position_mode", m)
    groups: dict = {}
    for p in spec["positions"]:
        groups[tuple(p)] = groups.get(tuple(p), 0) + 1
    ctx.count("largest_coincident_group", max(groups.values()) if groups else 0)
    if "classes" in info:
        ctx.count("droplet_classes_in_emulsion x largest_coincident_group",
                  "%d class(es), group %s" % (info["classes"], min(max(groups.values()) if groups else 0, 3)))
    rad = spec["radii"]
    ctx.count("radius_zero_present", 0.0 in rad)
    ctx.count("radius_ties", "none" if len(set(rad)) == len(rad) else ("all_equal" if len(set(rad)) == 1 else "some"))
    md = spec["min_distance"]
    ctx.count("min_distance", "+inf" if md == math.inf else ("-inf" if md == -math.inf else ("0" if md == 0 else ("neg" if md < 0 else "pos"))))
    ctx.count("min_distance_kind", spec.get("md_kind", "fixed"))
    if "M1" in info and n >= 2:
        off = info["M1"][~np.eye(n, dtype=bool)]
        ctx.count("min_distance_equals_a_surface_distance", bool((off == info["md"]).any()))
        ctx.count("touching_pairs_judged_exactly", min(info.get("touching_pairs", 0), 3))
    for key in ("prov", "cls", "ctor", "md_type", "call"):
        ctx.count(key, v[key])
    ctx.count("scale_log2", v["k"])
    for key in ("straddle", "chain", "order", "geometry", "placement", "group"):
        if key in spec:
            ctx.count(spec["stream"] + "_" + key, spec[key])
    if "out" in info:
        r = n - len(info["out"])
        ctx.count("removed", r if r <= 12 else ">12")
        # a removal chain in which an index below a later removed pair disappears first
        if r >= 2:
            ctx.count("removals>=2_lowest_removed_index", min(set(range(n)) - set(info["out"])))


def check(ctx: vlib.Ctx) -> int:
    rng = random.Random(ctx.seed)
    ok = vlib.prove(ctx, ["Proofs/C10.vo", "Proofs/GridSym.vo", "Model/OverlapCases.vo"], gens=[])
    ctx.tie.append("hand-written model (Model/Overlap.v) + correspondence on Emulsion.remove_overlapping / get_pairwise_distances")
    specs = gen_exhaustive(ctx)
    nex = len(specs)
    # the exhaustive set is large: thin it deterministically in the quick tier
    if ctx.quick and nex > 6000:
        specs = [s for i, s in enumerate(specs) if i % (nex // 6000 + 1) == 0 or len(s["positions"]) <= 2]
    specs += gen_masks(ctx, rng) + gen_cyl(ctx, rng) + gen_coincident(ctx, rng) + gen_chains(ctx, rng) + gen_long(ctx, rng)
    specs += gen_large(ctx, rng)
    specs += gen_random(ctx, rng, ctx.scale(900, 6000))
    ro_cases, ro_meta, dist_cases = [], [], []
    fails = []
    dist_cap = ctx.scale(2500, 12000)
    for idx, spec in enumerate(specs):
        if spec.get("neighbours_only"):
            f, info = run_neighbours(spec)
            ctx.case(spec)
            _count_spec(ctx, spec, info)
            ctx.count("coq_correspondence", "oracle only (size)")
            if f:
                fails.append({"what": f, "input": {"neighbour_spec": spec}})
            continue
        f, info = run_spec(spec)
        n = len(spec["positions"])
        md = spec["min_distance"]
        nontriv = "M1" in info and n >= 2 and bool((info["M1"] + np.diag([np.inf] * n) < info["md"]).any())
        ctx.case({k: v for k, v in spec.items() if k not in ("pos_modes",)}, nontrivial=nontriv)
        _count_spec(ctx, spec, info)
        if f:
            fails.append({"what": f, "input": {"spec": spec}})
            continue
        if math.isinf(md) or spec.get("no_coq"):
            ctx.count("coq_correspondence", "oracle only (min_distance infinite)" if math.isinf(md) else "oracle only (size)")
            continue
        ctx.count("coq_correspondence", "remove_overlapping")
        ro_cases.append(_case_ro(info["R"], info["md"], info["M1"], info["out"]))
        ro_meta.append(spec)
        # distance-matrix comparison: every structured grid case and every random case with a grid, a thinned share of the rest
        if spec["stream"] in ("masks", "cyl") or (spec["grid"] is not None and spec["stream"] != "exh"):
            want = True
        else:
            want = idx % (29 if spec["stream"] == "exh" else 3) == 0
        if want and n >= 2 and len(dist_cases) < dist_cap:
            dist_cases.append(_case_dist(spec, info, rng))
            ctx.count("coq_distance_matrix", grid_tag(spec["grid"]))
    for spec in gen_raising(ctx, rng):
        f, info = run_raising(spec)
        ctx.case(spec)
        ctx.count("stream", "raise")
        ctx.count("raise_outcome", info.get("raised", "-"))
        if f:
            fails.append({"what": f, "input": {"raising_spec": spec}})
    ctx.sample({k: specs[-1][k] for k in ("positions", "radii", "min_distance", "grid", "var")})
    if ro_cases:
        ctx.sample({"coq_case": ro_cases[len(ro_cases) // 2][:400]})
    header = ("From Coq Require Import QArith List.\nImport ListNotations.\n"
              "From PD Require Import Model.Grid Model.Overlap Model.OverlapCases.\nLocal Open Scope Q_scope.\n")
    if ok:
        bad = vlib.run_cases(ctx, "ro", header, ro_cases, "ro_agree", shard=400)
        for b in bad[:3]:
            ctx.broken.append(f"correspondence remove_overlapping: model and implementation differ on {json.dumps(ro_meta[b])[:600]}")
        bad2 = vlib.run_cases(ctx, "dist", header, dist_cases, "dist_agree", shard=150)
        if bad2:
            ctx.broken.append(f"correspondence distance matrix vs Model/Grid.v: {len(bad2)} disagreeing case(s), first index {bad2[0]}")
    # random emulsions stay inside the requested region and radius range (RNG oracle)
    for spec in gen_from_random(ctx, rng, ctx.scale(90, 500)):
        f, info = run_from_random(spec)
        ctx.case(spec)
        ctx.count("stream", "from_random")
        for key in ("region", "radius_form", "num", "remove_overlapping", "droplet_class", "rng", "dim"):
            ctx.count("from_random_" + key, spec[key])
        if "grid" in spec:
            ctx.count("from_random_grid", grid_tag(spec["grid"]))
        ctx.count("from_random_radius_range", "r0=0" if spec["r0"] == 0 else ("r0=r1" if spec["r0"] == spec["r1"] else "r0<r1"))
        if "periodic_overlaps_left" in info:
            ctx.count("observed_outside_property", "from_random_ignores_grid_metric: overlap through the periodic boundary left"
                      if info["periodic_overlaps_left"] else "from_random on a periodic grid: no overlap left")
        if "len" in info:
            ctx.count("from_random_returned", "num" if info["len"] == spec["num"] else "fewer")
        if f:
            fails.append({"what": f, "input": {"from_random_spec": spec, "droplets": info.get("droplets")}})
    ctx.notes.append("min_distance = +-inf and the emulsions of the streams `large` (40 .. 250 droplets; 600 in the thorough tier) and "
                     "`long` (600) are fed to the property oracle only (the Q model has no infinite value; the model costs O(n^3) "
                     "exact comparisons and the matrix literal would be too large); all other cases also go through the in-Coq "
                     "comparison.  Emulsions of more than 64 droplets go through the vectorised distance / nearest-neighbour part of "
                     "the oracle (run_neighbours), smaller ones through the whole oracle")
    ctx.notes.append("cylindrical / polar / spherical grids: the in-Coq distance comparison uses Model/OverlapCases.v cyl_metric / "
                     "sym_metric, i.e. py-pde 0.58.0 grid.distance(coords='cartesian') as it is (cylinder: Cartesian y wrapped with the z "
                     "period, z never wrapped = finding F19); the property oracle only uses grid.distance itself as 'the same metric'")
    ctx.notes.append(f"SUSPECTED (reported, not judged): {SUSPECTED or 'none'}")
    for name, why in OBSERVED_OUTSIDE_PROPERTY.items():
        ctx.notes.append(f"OBSERVED_OUTSIDE_PROPERTY (counted under histogram key observed_outside_property, not judged) {name}: {why}")
    for f in fails[:3]:
        ctx.violations.append({**f, "found": True, "broken": ctx.broken[:3]})
    return vlib.finish(ctx, "", TRUSTED, ASSUME, RULE, exhaustive=not ctx.quick)


def replay(path: str) -> int:
    obj = json.load(open(path))
    inp = obj.get("input", {})
    print(json.dumps(obj, indent=1)[:2000])
    if "spec" in inp:
        f, _ = run_spec(inp["spec"])
    elif "neighbour_spec" in inp:
        f, _ = run_neighbours(inp["neighbour_spec"])
    elif "raising_spec" in inp:
        f, _ = run_raising(inp["raising_spec"])
    elif "from_random_spec" in inp:
        f, _ = run_from_random(inp["from_random_spec"])
        if not f and inp["from_random_spec"].get("rng") == "none":
            print("(the failing run used rng=None; the recorded droplets are in the replay file)")
    elif "positions" in inp:  # replay files written before the input specification was generalised
        f, _ = run_spec(mk("replay", inp["positions"], inp["radii"], inp["min_distance"], inp["dim"],
                           legacy_grid_spec(inp["dim"], inp.get("grid"))))
    else:
        return 0
    print("property oracle on the current tree:", f or "holds")
    return 1 if f else 0
