"""C10 -- overlap removal leaves a separated subset and distance queries agree."""
from __future__ import annotations

import itertools
import json
import math
import random

import numpy as np

import vlib

TRUSTED = [
    "Coq 8.16.1 kernel + vm_compute",
    "correspondence harness (harness/props/C10.py): exact float->Q conversion, survivors identified by object identity",
    "numpy argmin/delete/unravel_index semantics as modelled (first minimum in row-major order)",
    "py-pde grid.distance (checked per sample against Model/Grid.v dist2 on coarse-dyadic inputs)",
    "scipy cKDTree.query and numpy RNG ranges (checked per sample by the oracle, not modelled)",
]
ASSUME = [
    "the model consumes the float distance matrix the implementation computed (exact rationals); it only compares/selects, hence is bit-faithful",
    "positions and radii are finite",
]
RULE = ("exhaustive: all emulsions of <=4 droplets on a 3-point half-integer lattice with radii in {0,1/2,1} in 1-d and "
        "<=3 droplets in 2-d, min_distance in {-1,0,1/2,1}, with/without periodic grid; random: up to 12 droplets, d=1..3; "
        "non-trivial = at least one pair closer than min_distance (something is removed or a tie is resolved); distinct by "
        "(positions, radii, min_distance, grid)")


def _grid(dim, periodic, rng=None, L=None):
    from pde import CartesianGrid
    L = L or [3.0] * dim
    return CartesianGrid([(0.0, l) for l in L], [max(2, int(l * 2)) for l in L], periodic=periodic)


def _run_ro(positions, radii, md, grid):
    from droplets import SphericalDroplet, Emulsion
    drops = [SphericalDroplet(np.array(p, float), r) for p, r in zip(positions, radii)]
    em = Emulsion(drops, copy=False)
    M = em.get_pairwise_distances(subtract_radius=True, grid=grid)
    ids = {id(d): i for i, d in enumerate(drops)}
    em.remove_overlapping(min_distance=md, grid=grid)
    out = [ids[id(d)] for d in em]
    return M, out, em, drops


def _case_ro(radii, md, M, out):
    rows = vlib.listlit([vlib.listlit(r, vlib.qlit) for r in M.tolist()])
    return ("{| rc_md := %s; rc_rad := %s; rc_D := %s; rc_out := %s |}"
            % (vlib.qlit(md), vlib.listlit(radii, vlib.qlit), rows, vlib.listlit(out, lambda i: f"{i}%nat")))


def _grid_lit(grid):
    if grid is None:
        return "None"
    axes = []
    for (lo, hi), n, per in zip(grid.axes_bounds, grid.shape, grid.periodic):
        axes.append("{| ncell := %s; alo := %s; ahi := %s; aper := %s |}"
                    % (vlib.zlit(n), vlib.qlit(lo), vlib.qlit(hi), vlib.blit(per)))
    return "(Some " + vlib.listlit(axes) + ")"


def oracle_one(positions, radii, md, grid):
    """Property text over the implementation for one emulsion; returns failure description or None."""
    from droplets import SphericalDroplet, Emulsion
    drops = [SphericalDroplet(np.array(p, float), r) for p, r in zip(positions, radii)]
    em = Emulsion(drops, copy=False)
    n = len(drops)

    def dist(a, b):
        if grid is None:
            return float(np.linalg.norm(a.position - b.position))
        return float(grid.distance(a.position, b.position, coords="cartesian"))

    M0 = em.get_pairwise_distances(subtract_radius=False, grid=grid)
    M1 = em.get_pairwise_distances(subtract_radius=True, grid=grid)
    for i in range(n):
        if M0[i, i] != 0 or M1[i, i] != 0:
            return "non-zero diagonal"
        for j in range(n):
            if M0[i, j] != M0[j, i] or M1[i, j] != M1[j, i]:
                return "distance matrix not symmetric"
            if i != j:
                d = dist(drops[i], drops[j])
                if M0[i, j] != d and not math.isclose(M0[i, j], dist(drops[j], drops[i]), rel_tol=0, abs_tol=0):
                    return f"matrix entry {M0[i, j]} is not the centre distance {d}"
                if not math.isclose(M1[i, j], d - (radii[i] + radii[j]), rel_tol=1e-15, abs_tol=1e-15):
                    return "surface distance is not centre distance minus both radii"
                ov = drops[i].overlaps(drops[j], grid=grid)
                # knife edge (distance == r1 + r2 up to rounding) excluded
                if abs(M1[i, j]) > 1e-12 and ov != (M1[i, j] < 0):
                    return f"overlaps()={ov} but surface distance {M1[i, j]}"
    if grid is None and n >= 2:
        nd = em.get_neighbor_distances(subtract_radius=False)
        nds = em.get_neighbor_distances(subtract_radius=True)
        for i in range(n):
            row = min(M0[i, j] for j in range(n) if j != i)
            if not math.isclose(nd[i], row, rel_tol=1e-12, abs_tol=1e-12):
                return f"neighbour distance {nd[i]} is not the row minimum {row}"
            # surface variant: distance to a nearest neighbour (by centre distance) minus both radii
            ok_vals = [M1[i, j] for j in range(n) if j != i and math.isclose(M0[i, j], row, rel_tol=1e-12, abs_tol=1e-12)]
            if not any(math.isclose(nds[i], v, rel_tol=1e-12, abs_tol=1e-12) for v in ok_vals):
                return (f"neighbour distance with subtracted radii {nds[i]} of droplet {i} is not the surface distance to a "
                        f"nearest neighbour {ok_vals}")
    ids = {id(d): i for i, d in enumerate(drops)}
    em.remove_overlapping(min_distance=md, grid=grid)
    out = [ids.get(id(d), -1) for d in em]
    if -1 in out:
        return "survivor is not one of the original objects"
    if out != sorted(out) or len(set(out)) != len(out):
        return f"survivors not in original order: {out}"
    for a, b in itertools.combinations(out, 2):
        if dist(drops[a], drops[b]) - (radii[a] + radii[b]) < md - 1e-12:
            return f"survivors {a},{b} closer than min_distance"
    for k in range(n):
        if k not in out:
            if not any(j != k and radii[j] >= radii[k] and M1[k, j] < md for j in range(n)):
                return f"droplet {k} removed although no droplet at least as large is closer than min_distance"
    if n:
        mx = max(radii)
        if radii.count(mx) == 1 and radii.index(mx) not in out:
            return "strictly largest droplet removed"
    before = list(em)
    em.remove_overlapping(min_distance=md, grid=grid)
    if [id(d) for d in em] != [id(d) for d in before]:
        return "second call removed something"
    return None


def gen_exhaustive(ctx):
    lat = [0.5, 1.5, 2.5]
    rs = [0.0, 0.5, 1.0]
    mds = [-1.0, 0.0, 0.5, 1.0]
    out = []
    for dim, maxn in ((1, ctx.scale(3, 4)), (2, ctx.scale(2, 3))):
        pts = [list(p) for p in itertools.product(lat, repeat=dim)]
        for n in range(0, maxn + 1):
            for pos in itertools.product(pts, repeat=n):
                for rad in itertools.product(rs, repeat=n):
                    for md in mds:
                        for per in (None, True):
                            out.append((list(pos), list(rad), md, dim, per))
    return out


def gen_random(ctx, rng, count):
    out = []
    for _ in range(count):
        dim = rng.choice([1, 2, 3])
        n = rng.randrange(0, 13)
        pos = [[rng.randrange(0, 3 * 64) / 64.0 for _ in range(dim)] for _ in range(n)]
        rad = [rng.choice([0.0, 0.25, 0.5, 0.5, 1.0, rng.randrange(1, 96) / 64.0]) for _ in range(n)]
        md = rng.choice([-1.0, -0.25, 0.0, 0.0, 0.5, 1.0])
        per = rng.choice([None, True, "mixed"])
        out.append((pos, rad, md, dim, per))
    return out


def check(ctx: vlib.Ctx) -> int:
    rng = random.Random(ctx.seed)
    ok = vlib.prove(ctx, ["Proofs/C10.vo", "Proofs/GridSym.vo", "Model/OverlapCases.vo"], gens=[])
    ctx.tie.append("hand-written model (Model/Overlap.v) + correspondence on Emulsion.remove_overlapping / get_pairwise_distances")
    specs = gen_exhaustive(ctx)
    nex = len(specs)
    # the exhaustive set is large: thin it deterministically in the quick tier
    if ctx.quick and nex > 6000:
        specs = [s for i, s in enumerate(specs) if i % (nex // 6000 + 1) == 0 or len(s[0]) <= 2]
    specs += gen_random(ctx, rng, ctx.scale(600, 6000))
    ro_cases, dist_cases, meta = [], [], []
    fails = []
    for pos, rad, md, dim, per in specs:
        if per is None:
            grid = None
        elif per == "mixed":
            grid = _grid(dim, [i % 2 == 0 for i in range(dim)])
        else:
            grid = _grid(dim, True)
        M, out, em, drops = _run_ro(pos, rad, md, grid)
        n = len(pos)
        nontriv = n >= 2 and bool((M + np.diag([np.inf] * n) < md).any())
        ctx.case([pos, rad, md, dim, str(per)], nontrivial=nontriv)
        ctx.count("droplets", n)
        ctx.count("dim", dim)
        ctx.count("grid", "none" if grid is None else ("periodic" if per is True else "mixed"))
        ctx.count("removed", n - len(out))
        ro_cases.append(_case_ro(rad, md, M, out))
        meta.append((pos, rad, md, dim, per))
        if n >= 2 and len(dist_cases) < ctx.scale(400, 3000) and (len(ro_cases) % 7 == 0):
            from droplets import Emulsion
            M0 = Emulsion(drops, copy=False).get_pairwise_distances(subtract_radius=False, grid=grid)
            dist_cases.append("{| dc_grid := %s; dc_pos := %s; dc_M := %s |}" % (
                _grid_lit(grid), vlib.listlit([vlib.listlit(p, vlib.qlit) for p in pos]),
                vlib.listlit([vlib.listlit(r, vlib.qlit) for r in M0.tolist()])))
        f = oracle_one(pos, rad, md, grid)
        if f:
            fails.append({"what": f, "input": {"positions": pos, "radii": rad, "min_distance": md, "dim": dim, "grid": str(per)}})
    ctx.sample({"positions": meta[-1][0], "radii": meta[-1][1], "min_distance": meta[-1][2], "grid": str(meta[-1][4])})
    ctx.sample({"coq_case": ro_cases[len(ro_cases) // 2][:400]})
    header = ("From Coq Require Import QArith List.\nImport ListNotations.\n"
              "From PD Require Import Model.Grid Model.Overlap Model.OverlapCases.\nLocal Open Scope Q_scope.\n")
    if ok:
        bad = vlib.run_cases(ctx, "ro", header, ro_cases, "ro_agree", shard=400)
        for b in bad[:3]:
            ctx.broken.append(f"correspondence remove_overlapping: model and implementation differ on {meta[b]}")
        bad2 = vlib.run_cases(ctx, "dist", header, dist_cases, "dist_agree", shard=300)
        if bad2:
            ctx.broken.append(f"correspondence distance matrix vs Model/Grid.v: {len(bad2)} disagreeing case(s), first index {bad2[0]}")
    # random emulsions stay inside the requested region and radius range (RNG oracle)
    from droplets import Emulsion
    for k in range(ctx.scale(20, 200)):
        dim = 1 + k % 3
        bounds = [(-1.0 - k % 5, 2.0 + k % 7)] * dim
        r0, r1 = 0.1 + (k % 4) * 0.1, 0.6 + (k % 3) * 0.2
        em = Emulsion.from_random(10, bounds, (r0, r1), rng=np.random.default_rng(ctx.seed + k),
                                  remove_overlapping=bool(k % 2))
        for d in em:
            if not (r0 <= d.radius <= r1 and all(b[0] <= x <= b[1] for x, b in zip(d.position, bounds))):
                fails.append({"what": "from_random outside region / radius range", "input": {"k": k, "bounds": bounds, "radius": (r0, r1)}})
        if k % 2 and oracle_one([list(d.position) for d in em], [d.radius for d in em], 0.0, None):
            fails.append({"what": "from_random(remove_overlapping=True) leaves overlapping droplets", "input": {"k": k}})
        ctx.case(["from_random", k])
    for f in fails[:3]:
        ctx.violations.append({**f, "found": True, "broken": ctx.broken[:3]})
    return vlib.finish(ctx, "", TRUSTED, ASSUME, RULE, exhaustive=not ctx.quick)


def replay(path: str) -> int:
    obj = json.load(open(path))
    inp = obj.get("input", {})
    print(json.dumps(obj, indent=1)[:2000])
    if "positions" in inp:
        per = inp.get("grid")
        dim = inp["dim"]
        grid = None if per in (None, "None") else (_grid(dim, True) if per == "True" else _grid(dim, [i % 2 == 0 for i in range(dim)]))
        f = oracle_one(inp["positions"], inp["radii"], inp["min_distance"], grid)
        print("property oracle on the current tree:", f or "holds")
        return 1 if f else 0
    return 0
