"""C07 -- tracks follow droplet identity (see harness/tracking_common.py)."""
from __future__ import annotations

import tracking_common as tc


def check(ctx) -> int:
    return tc.run_check(ctx, "C07", ["Proofs/C07.vo", "Proofs/TrackingMetric.vo"])


def replay(path: str) -> int:
    return tc.replay(path, "C07")
