"""C17 -- length scales are physical lengths: they scale with the grid, not the field."""
from __future__ import annotations

import json
import math
import random

import numpy as np

import spectrum_common as sc
import vlib

TRUSTED = [
    "Coq 8.16.1 kernel (no native_compute)",
    "harness/gen_spectrum.py + harness/translate.py (Python-ast translator of get_structure_factor / get_length_scale; "
    "validated on every run by interval sample goals and by the correspondence run)",
    "Interval tactic (sample goals only)",
    "oracle numpy.fft.fftn(norm='ortho') computes the mathematical DFT up to rounding: the transform is defined in Coq for "
    "every shape (Model.Spectrum.dft_math) and proved to satisfy dft_spec and dft_cosine; the C17_math_* theorems carry no "
    "DFT premise (numpy is compared with the definition and its identities per sample in C16 and on the plane waves here)",
    "oracle scipy.optimize.minimize_scalar: premise minimizer_covariant (ls_peak_covariant only; not checked per sample: "
    "Brent's absolute tolerances 1e-11 / 1e-21 are not scale free, the implementation-level check uses one Fourier bin)",
    "oracle models numpy fftfreq / max / linspace / argmax and pde.tools.math.SmoothData1D (Model/Spectrum.v)",
    "py-pde grid geometry (discretization, cuboid.size, axes_bounds, typical_discretization = mean spacing)",
    "locate_droplets: the number of droplets is invariant under uniform stretching (premise of ls_count_covariant; C02/C10)",
    "real-number model: no exp underflow; for the peak method the model is faithful only while at least one kernel "
    "weight is representable (DESIGN.md 5.17)",
]
ASSUME = [
    "theorems are over Coq's R; the implementation computes in binary64",
    "structure-factor methods: periodic Cartesian grid, non-zero field; droplet_detection: at least one droplet, at least "
    "one unconstrained axis",
    "peak method: no positive theorem for the default smoothing (known finding F7); covariance is proved only for a width "
    "that scales like a wave number",
]
RULE = ("cases from random.Random(seed): (A) structure_factor_mean on noise / wave / droplet fields, d = 1-3, stretched by "
        "s in {1/32..32} (rel 1e-9), field scaling by every factor of spectrum_common.SCALE_FACTORS and rolling; (B) droplet_detection on rendered emulsions, d = 1-3, "
        "= (V/n)^(1/d) with n from locate_droplets (rel 1e-12), stretching, rolling, positive field scaling under the relative "
        "thresholds extrema / mean / otsu (exact); probes: cylindrical / polar / spherical grids (F16), absolute "
        "threshold and negative factor (F18); (C) structure_factor_maximum on plane waves with >= 4 "
        "cells per period at spacings 10^-3..10^3 (finite, within half a Fourier bin) with default smoothing (failures that "
        "depend on the unit of length are the known finding F7) and with an explicit unit-consistent width of 0.3 bins at the "
        "same spacings (finite and within half a bin iff the first bracket of the smoothed model curve is valid, nan "
        "otherwise) and widths 0.25 / 0.5 bins at power-of-two stretches (covariance within 1e-3 bin); general fields with a unique highest mode (runner-up at another wave "
        "number below 1 - 1e-6 of it): covariance, field scaling and rolling within one bin; "
        "(D) SEQUENCES: grids sharing the shape and an aggregate (swapped spacings, mean spacing, volume, longest side, shape "
        "only) analysed interleaved, repeated and after raising calls with all three methods -- every result must equal the "
        "first result in a fresh interpreter; distinct = distinct (method, case) descriptions")

STRETCH = [0.03125, 0.25, 0.5, 2.0, 8.0, 32.0]
DECADES = [-3, -2, -1, 0, 1, 2, 3]
POW2 = [2.0 ** -10, 2.0 ** -5, 2.0 ** 5, 2.0 ** 10]
PEAK = "structure_factor_maximum"


PROBLEMS: list[str] = []  # why the last gls() call did not yield a real number (exception / complex value)


def gls_raw(field, method, **kw):
    from droplets.image_analysis import get_length_scale
    return get_length_scale(field, method=method, **kw)


def gls(field, method, **kw) -> float:
    """The implementation's length scale as a float.  A call that raises or returns a complex / non-numeric value on a
    valid input is a property failure, never a crash of the check: it is mapped to nan (every comparison with nan fails
    and is reported with its input) and the reason is kept in PROBLEMS."""
    try:
        v = gls_raw(field, method, **kw)
    except Exception as e:  # noqa: BLE001
        PROBLEMS.append(f"{method}: raised {type(e).__name__}: {e}")
        return math.nan
    if isinstance(v, (complex, np.complexfloating)):
        if v.imag != 0:
            PROBLEMS.append(f"{method}: returned the complex number {v!r}")
            return math.nan
        v = v.real
    try:
        return float(v)
    except Exception as e:  # noqa: BLE001
        PROBLEMS.append(f"{method}: returned {v!r} ({type(e).__name__})")
        return math.nan


def last_problem() -> str:
    return PROBLEMS[-1] if PROBLEMS else ""


def rel_close(a, b, rel):
    return math.isfinite(a) and math.isfinite(b) and abs(a - b) <= rel * max(abs(a), abs(b))


# ---------------------------------------------------------------------------------------------
# (A) structure_factor_mean
# ---------------------------------------------------------------------------------------------
def mean_tolerance(c: dict, d64: np.ndarray) -> float:
    """relative tolerance of the moment-based length scale: 1e-9 in binary64.  The length scale only depends on the
    non-zero modes, whose power is computed with an absolute error of about eps * |f|^2: the relative error is
    eps * cond with cond = |f| / |f - mean(f)|.  For float32 data the transform itself runs in single precision
    (eps = 1.2e-7), e.g. an offset of 100 with fluctuations of 1e-3 leaves two significant digits."""
    fluct = float(np.sqrt(np.sum((d64 - d64.mean()) ** 2)))
    cond = float(np.sqrt(np.sum(d64 ** 2))) / fluct if fluct > 0 else math.inf
    eps = 1.2e-7 if c.get("dtype") == "float32" else 2.3e-16
    return max(1e-9, (2e-5 if c.get("dtype") == "float32" else 0.0), 50 * eps * cond)


def prop_mean(c: dict, rng: random.Random) -> list[dict]:
    fails = []
    data = sc.build(c)
    d64 = data.astype(float)  # exact for float32 / int64 data: the factors must not be rounded to the data's dtype
    rel = mean_tolerance(c, d64)
    del PROBLEMS[:]
    f = sc.make_field(c, data)
    L = gls(f, "structure_factor_mean")
    if not (math.isfinite(L) and L > 0):
        return [{"what": "structure_factor_mean is not a positive finite length", "method": "structure_factor_mean",
                 "input": sc.canon(c), "got": repr(L), "problem": last_problem()}]
    for s in STRETCH:
        Ls = gls(sc.make_field(c, data, scale=s), "structure_factor_mean")
        if not rel_close(Ls, s * L, rel):
            fails.append({"what": "structure_factor_mean does not scale with the grid", "method": "structure_factor_mean",
                          "input": sc.canon(c), "stretch": s, "got": sc.json_safe(Ls), "want": s * L})
            break
    for cc in sc.SCALE_FACTORS:
        Lc = gls(sc.make_field(c, cc * d64), "structure_factor_mean")
        if not rel_close(Lc, L, rel):
            fails.append({"what": "structure_factor_mean changes when the field is multiplied by a constant",
                          "method": "structure_factor_mean", "input": sc.canon(c), "factor": cc, "got": sc.json_safe(Lc),
                          "want": L})
            break
    sh = [rng.randrange(0, n) for n in data.shape]
    Lr = gls(sc.make_field(c, np.roll(data, sh, axis=tuple(range(data.ndim)))), "structure_factor_mean")
    if not rel_close(Lr, L, rel):
        fails.append({"what": "structure_factor_mean changes under a periodic translation",
                      "method": "structure_factor_mean", "input": sc.canon(c), "shift": sh, "got": sc.json_safe(Lr),
                      "want": L})
    if not all(c.get("periodic", [True])):  # the periodicity flags only produce a warning
        Lp = gls(sc.make_field({**c, "periodic": [True] * len(c["shape"])}, data), "structure_factor_mean")
        if Lp != L:
            fails.append({"what": "structure_factor_mean depends on the periodicity flags of the grid",
                          "method": "structure_factor_mean", "input": sc.canon(c), "got": L, "want": Lp})
    return fails


def corr_mean(c: dict, py: dict, consts: dict) -> list[str]:
    """implementation == generated ls_mean applied to the model of get_structure_factor under ls_mean_flags"""
    from droplets.image_analysis import get_structure_factor
    data = sc.build(c)
    f = sc.make_field(c, data)
    L = gls(f, "structure_factor_mean")
    disc = np.asarray(f.grid.discretization, dtype=float)
    mk, msf = sc.model_raw(data, disc, py, consts)
    on, auto, nowave, az = consts["ls_mean_flags"]
    k, sf = sc.model_tail(mk, msf, on, auto, nowave, az, 0.0, float(f.grid.cuboid.size.max()), [], py, consts)
    Lm = float(py["ls_mean"](sum_sf=np.sum(sf), sum_ksf=np.sum(k * sf)))
    rel = mean_tolerance(c, data.astype(float))
    return [] if rel_close(L, Lm, rel) else [f"structure_factor_mean: implementation {L!r} vs generated model {Lm!r}"]


def model_peak(f, py: dict, consts: dict, smoothing=None) -> float:
    """get_length_scale(method='structure_factor_maximum') recomputed from the model lines (ls_peak_flags,
    ls_default_smoothing, ls_peak_est_offset, ls_peak_windows, ls_peak_bracket, ls_peak) with the oracles numpy / SmoothData1D
    (nw_model) / scipy.optimize.minimize_scalar: peak_loop of Proofs/C17.v in binary64"""
    from scipy import optimize
    data = f.data
    disc = np.asarray(f.grid.discretization, dtype=float)
    mk, msf = sc.model_raw(data, disc, py, consts)
    on, auto, nowave, az = consts["ls_peak_flags"]
    k, sf = sc.model_tail(mk, msf, on, auto, nowave, az, 0.0, float(f.grid.cuboid.size.max()), [], py, consts)
    sigma = smoothing if smoothing is not None else \
        py["ls_default_smoothing"](typical_discretization=f.grid.typical_discretization)
    off = consts["ls_peak_est_offset"]
    est = k[off + np.argmax(sf[off:])]
    L = math.nan
    for w in consts["ls_peak_windows"]:
        br = [py[f"ls_peak_bracket_{j}"](max_est=est, window_size=w) for j in range(3)]
        try:
            res = optimize.minimize_scalar(lambda x: -sc.nw_model(sigma, k, sf, x).reshape(()), bracket=br)
        except Exception:  # noqa: BLE001  (the implementation maps every exception to nan and tries the next window)
            L = math.nan
        else:
            L = float(py["ls_peak"](x=res.x))
            break
    return L


def corr_peak(f, py: dict, consts: dict, inp: dict, **kw) -> list:
    L = gls(f, PEAK, **kw)
    Lm = model_peak(f, py, consts, **kw)
    same = (math.isnan(L) and math.isnan(Lm)) or rel_close(L, Lm, 1e-9)
    return [] if same else [(f"structure_factor_maximum: implementation {L!r} vs model {Lm!r}", inp)]


# ---------------------------------------------------------------------------------------------
# (B) droplet_detection
# ---------------------------------------------------------------------------------------------
def gen_emulsion_case(rng: random.Random) -> dict:
    d = rng.choice([1, 2, 2, 3])
    cap = {1: 64, 2: 28, 3: 12}[d]
    shape = [rng.randrange(max(8, cap // 2), cap + 1) for _ in range(d)]
    h0 = math.ldexp(1 + rng.randrange(4) / 4.0, rng.randrange(-2, 3))
    h = [h0 * rng.choice([1.0, 1.0, 0.5, 2.0]) for _ in range(d)]
    ext = [n * hh for n, hh in zip(shape, h)]
    # position of the box: at the origin, centred, shifted to positive coordinates, entirely negative, or mixed per axis
    # (all values dyadic, so that stretching by powers of two stays exact)
    place = rng.choice(["origin", "centred", "positive", "negative", "mixed"])
    shift = [math.ldexp(rng.randrange(1, 33), -2) for _ in range(d)]
    origin = {"origin": [0.0] * d,
              "centred": [-e / 2 for e in ext],
              "positive": shift,
              "negative": [-e - s_ for e, s_ in zip(ext, shift)],
              "mixed": [rng.choice([0.0, -e / 2, s_, -e - s_, -s_]) for e, s_ in zip(ext, shift)]}[place]
    nd = rng.randrange(1, 4)
    drops = [{"pos": [rng.random() for _ in range(d)], "radius": 0.1 + 0.12 * rng.random()} for _ in range(nd)]
    return {"shape": shape, "h": h, "origin": origin, "place": place, "periodic": sc.periodic_mask(rng, d),
            "kind": "emulsion", "drops": drops, "width": 0.75 * max(h), "lmin": min(ext)}


def build_emulsion(c: dict, scale: float = 1.0):
    from droplets import DiffuseDroplet, Emulsion
    grid = sc.make_grid(c["shape"], c["h"], c["origin"], scale, c.get("periodic", True))
    ext = [n * hh for n, hh in zip(c["shape"], c["h"])]
    drops = [DiffuseDroplet([scale * (o + p * e) for o, p, e in zip(c["origin"], dr["pos"], ext)],
                            scale * dr["radius"] * c["lmin"], scale * c["width"]) for dr in c["drops"]]
    return Emulsion(drops).get_phasefield(grid)


def DETECTION_KWARGS(radii: list[float], dim: int) -> list[dict]:
    """keyword arguments of locate_droplets reachable through get_length_scale(**kwargs): thresholds (number / rules),
    minimal_radius at its boundary values and between the droplet radii, refinement and its options"""
    mid = 0.5 * (radii[0] + radii[-1]) if len(radii) > 1 else 0.5 * radii[0]
    return [{"threshold": 0.3}, {"threshold": 0.5}, {"threshold": "extrema"}, {"threshold": "mean"}, {"threshold": "otsu"},
            {"threshold": "auto"}, {"minimal_radius": 0}, {"minimal_radius": 0.0}, {"minimal_radius": -1.0},
            {"minimal_radius": -math.inf}, {"minimal_radius": mid}, {"minimal_radius": 0.5 * radii[0]},
            {"refine": True}, {"refine": True, "modes": 0},
            {"threshold": "extrema", "minimal_radius": mid}] + \
        ([{"refine": False, "modes": 2}] if dim >= 2 else [])  # perturbed droplets are documented for 2-d and 3-d only


def prop_count(c: dict, rng: random.Random) -> list[dict]:
    from pde import ScalarField
    from droplets.image_analysis import locate_droplets
    fails = []
    f = build_emulsion(c)
    n = len(locate_droplets(f))
    d = len(c["shape"])
    if n == 0:
        return []  # outside the property text (n >= 1)
    del PROBLEMS[:]
    L = gls(f, "droplet_detection")
    bounds = f.grid.axes_bounds
    V0 = 1.0
    for lo, hi in bounds:
        V0 *= float(hi) - float(lo)
    if not (math.isfinite(L) and L > 0):
        return [{"what": "droplet_detection is not a positive finite real length although droplets are detected",
                 "method": "droplet_detection", "input": sc.canon(c), "droplets": n, "got": repr(L),
                 "want": (V0 / n) ** (1.0 / d), "problem": last_problem()}]
    V = 1.0
    for lo, hi in bounds:
        V *= float(hi) - float(lo)
    want = (V / n) ** (1.0 / d)
    if not rel_close(L, want, 1e-12):
        fails.append({"what": "droplet_detection is not (V/n)^(1/d)", "method": "droplet_detection", "input": sc.canon(c),
                      "droplets": n, "got": L, "want": want})
    for s in rng.sample(STRETCH, 3):
        Ls = gls(build_emulsion(c, s), "droplet_detection")
        if not rel_close(Ls, s * L, 1e-9):
            fails.append({"what": "droplet_detection does not scale with the grid", "method": "droplet_detection",
                          "input": sc.canon(c), "stretch": s, "got": Ls, "want": s * L})
            break
    # translation: along periodic axes only (on a non-periodic axis a droplet cut by the wrap-around is two clusters)
    sh = [rng.randrange(0, m) if p else 0 for m, p in zip(f.data.shape, f.grid.periodic)]
    Lr = gls(ScalarField(f.grid, np.roll(f.data, sh, axis=tuple(range(d)))), "droplet_detection")
    if not rel_close(Lr, L, 1e-9):
        fails.append({"what": "droplet_detection changes under a translation along the periodic axes",
                      "method": "droplet_detection", "input": sc.canon(c), "shift": sh, "got": sc.json_safe(Lr), "want": L})
    # keyword arguments are forwarded to locate_droplets: the count in the formula is the count of the same call
    radii = sorted(dr["radius"] * c["lmin"] for dr in c["drops"])
    for kw in rng.sample(DETECTION_KWARGS(radii, d), 3):
        kw_before = dict(kw)
        n_kw = len(locate_droplets(f, **kw))
        L_kw = gls(f, "droplet_detection", **kw)
        if kw != kw_before:
            fails.append({"what": "droplet_detection modifies the caller's keyword arguments", "method": "droplet_detection",
                          "input": sc.canon(c), "kwargs": sc.json_safe({k_: repr(v) for k_, v in kw_before.items()})})
        if n_kw == 0:
            continue  # outside the property text
        want_kw = (V / n_kw) ** (1.0 / d)
        if not rel_close(L_kw, want_kw, 1e-12):
            fails.append({"what": "droplet_detection with forwarded keyword arguments is not (V/n)^(1/d) for the droplets "
                                  "that locate_droplets finds with the same arguments", "method": "droplet_detection",
                          "input": sc.canon(c), "kwargs": {k_: repr(v) for k_, v in kw.items()}, "droplets": n_kw,
                          "got": sc.json_safe(L_kw), "want": want_kw, "problem": last_problem()})
            break
        if "minimal_radius" in kw and math.isfinite(kw["minimal_radius"]):
            s = rng.choice(STRETCH)  # a length among the arguments is stretched with the grid
            Ls = gls(build_emulsion(c, s), "droplet_detection", **{**kw, "minimal_radius": s * kw["minimal_radius"]})
            if not rel_close(Ls, s * L_kw, 1e-9):
                fails.append({"what": "droplet_detection (minimal_radius stretched with the grid) does not scale with the grid",
                              "method": "droplet_detection", "input": sc.canon(c), "stretch": s,
                              "kwargs": {k_: repr(v) for k_, v in kw.items()}, "got": sc.json_safe(Ls), "want": s * L_kw})
                break
    # field scaling: exact invariance for positive factors under the relative threshold rules (the absolute default
    # threshold and negative factors are the known finding F18, probed separately)
    for cc, thr in [(rng.choice([0.4, 2.0, 1e3]), t_) for t_ in ("extrema", "mean", "otsu")] + \
                   [(cc_, rng.choice(["extrema", "mean", "otsu"])) for cc_ in sc.POSITIVE_SCALE_FACTORS]:
        L0 = gls(f, "droplet_detection", threshold=thr)
        Lc = gls(ScalarField(f.grid, cc * f.data), "droplet_detection", threshold=thr)
        if not (rel_close(Lc, L0, 1e-12) or (math.isinf(Lc) and math.isinf(L0))):
            fails.append({"what": f"droplet_detection (threshold='{thr}') changes when the field is multiplied by a "
                                  "positive constant", "method": "droplet_detection", "input": sc.canon(c), "factor": cc,
                          "threshold": thr, "got": sc.json_safe(Lc), "want": sc.json_safe(L0)})
            break
    return fails


def probe_field_scaling(ctx) -> None:
    """droplet_detection under field scaling with an absolute threshold / a negative factor (known finding F18)"""
    from pde import CartesianGrid, ScalarField
    from droplets import DiffuseDroplet, Emulsion
    g = CartesianGrid([(0, 32), (0, 32)], [32, 32], periodic=True)
    f = Emulsion([DiffuseDroplet([8, 8], 4, 1), DiffuseDroplet([24, 20], 5, 1)]).get_phasefield(g)
    text = ("Emulsion([DiffuseDroplet([8,8],4,1), DiffuseDroplet([24,20],5,1)]) on CartesianGrid([(0,32),(0,32)],[32,32],"
            "periodic=True)")
    printed = False
    for cond, factor, kw in (("absolute (numeric/default) threshold", 0.4, {}),
                             ("negative factor", -1.0, {"threshold": "extrema"})):
        inp = {"field": text, "factor": factor, "kwargs": kw}
        ctx.case(["droplet_detection", "field scaling probe", inp])
        ctx.count("method", "droplet_detection/field-scaling probe")
        L0 = gls(f, "droplet_detection", **kw)
        Lc = gls(ScalarField(g, factor * f.data), "droplet_detection", **kw)
        if rel_close(Lc, L0, 1e-12):
            continue
        ent = sc.known_entry("C17", "get_length_scale", "droplet_detection", "not invariant under field scaling",
                             condition=cond)
        if ent is None:
            ctx.violations.append({"what": "droplet_detection changes when the field is multiplied by a constant",
                                   "method": "droplet_detection", "input": inp, "got": sc.json_safe(Lc),
                                   "want": sc.json_safe(L0), "found": True})
        elif not printed:
            ctx.known_printed.append(f"droplet_detection is not invariant under field scaling ({cond}): {text}: "
                                     f"{L0:.6g}, field * {factor:g} -> {Lc:.6g}")
            printed = True


def probe_noncartesian(ctx) -> None:
    """droplet_detection on grids with symmetry axes (known finding F16: raises)"""
    from pde import CylindricalSymGrid, PolarSymGrid, SphericalSymGrid
    from droplets import DiffuseDroplet
    from droplets.image_analysis import locate_droplets
    probes = [("CylindricalSymGrid(4, (0, 16), (8, 32))", lambda: CylindricalSymGrid(4, (0, 16), (8, 32)), [0, 0, 8]),
              ("PolarSymGrid(5, 10)", lambda: PolarSymGrid(5, 10), [0, 0]),
              ("SphericalSymGrid(5, 10)", lambda: SphericalSymGrid(5, 10), [0, 0, 0])]
    printed = False
    for text, mk, pos in probes:
        grid = mk()
        f = DiffuseDroplet(pos, 2, 0.5).get_phase_field(grid)
        n = len(locate_droplets(f))
        inp = {"grid": text, "droplet": {"position": pos, "radius": 2, "interface_width": 0.5}, "droplets_found": n}
        ctx.case(["droplet_detection", inp])
        ctx.count("method", "droplet_detection/non-cartesian")
        try:
            L = float(gls_raw(f, "droplet_detection"))
        except Exception as e:  # noqa: BLE001
            kind = type(e).__name__
            ent = sc.known_entry("C17", "get_length_scale", "droplet_detection", kind, grid=type(grid).__name__)
            if ent is None:
                ctx.violations.append({"what": f"droplet_detection raises {kind} on a {type(grid).__name__}",
                                       "method": "droplet_detection", "input": inp, "error": f"{kind}: {e}", "found": True})
            elif not printed:
                ctx.known_printed.append(f"droplet_detection raises on grids with symmetry axes: {text} with one droplet "
                                         f"-> {kind}: {e}")
                printed = True
            continue
        if isinstance(grid, CylindricalSymGrid) and n >= 1:
            lo, hi = grid.axes_bounds[1]
            want = (float(hi) - float(lo)) / n
            if not rel_close(L, want, 1e-9):
                ctx.violations.append({"what": "droplet_detection on a cylindrical grid is not (V/n)^(1/d) over the free axis",
                                       "method": "droplet_detection", "input": inp, "got": L, "want": want, "found": True})


def probe_tracker(ctx, rng: random.Random, failures: list) -> None:
    """LengthScaleTracker.handle on frames with and without structure: it stores exactly what get_length_scale returns
    for the frame (nan when that call raises) and never raises itself"""
    from pde import ScalarField
    from droplets.trackers import LengthScaleTracker
    c = gen_emulsion_case(rng)
    f = build_emulsion(c)
    frames = [("emulsion", f), ("no droplets (all below the threshold)", ScalarField(f.grid, 0.25 * f.data)),
              ("zero field", ScalarField(f.grid, 0.0)), ("constant field", ScalarField(f.grid, 0.7))]
    for method in ("structure_factor_mean", PEAK, "droplet_detection"):
        tr = LengthScaleTracker(method=method)
        for j, (name, fr) in enumerate(frames):
            inp = {**sc.canon(c), "frame": name, "tracker_method": method}
            ctx.case(["tracker", method, name, sc.canon(c)])
            ctx.count("tracker_frame", f"{method}: {name}")
            try:
                tr.handle(fr, float(j))
            except Exception as e:  # noqa: BLE001
                failures.append({"what": "LengthScaleTracker.handle raises", "method": method, "input": inp,
                                 "error": f"{type(e).__name__}: {e}"[:300]})
                continue
            try:
                want = float(gls_raw(fr, method))
            except Exception:  # noqa: BLE001  (documented: stored as nan)
                want = math.nan
            got = tr.length_scales[-1] if len(tr.length_scales) == j + 1 else None
            ok_ = isinstance(got, (float, np.floating)) and ((math.isnan(got) and math.isnan(want)) or got == want)
            if not ok_ or tr.times[-1] != float(j):
                failures.append({"what": "LengthScaleTracker does not store the length scale of the frame", "method": method,
                                 "input": inp, "got": repr(got), "want": repr(want)})


# ---------------------------------------------------------------------------------------------
# (C) structure_factor_maximum
# ---------------------------------------------------------------------------------------------
def gen_wave_case(rng: random.Random, first: bool = False) -> dict:
    if first:  # the recorded F7 input: sin wave with 4 periods on 64 cells
        return {"shape": [64], "q": [4], "amp": 1.0, "offset": 0.0, "phase": 0.0}
    d = rng.choice([1, 1, 1, 2])
    cap = {1: 128, 2: 24}[d]
    shape = [rng.randrange(16, cap + 1) for _ in range(d)]
    q = [rng.randrange(0 if d > 1 else 1, n // 4 + 1) for n in shape]
    if not any(q):
        q[0] = 1
    # lower corner of the box in units of the spacing: origin, centred, positive, entirely negative
    origin_cells = [rng.choice([0.0, -n / 2, 3.0, -n - 3.0]) for n in shape]
    return {"shape": shape, "q": q, "amp": rng.choice([0.2, 1.0, 5.0]), "offset": rng.choice([0.0, 0.2, -1.5]),
            "phase": rng.randrange(0, 63) / 10.0, "origin_cells": origin_cells}


def wave_field(w: dict, h: float):
    from pde import CartesianGrid, ScalarField
    shape = w["shape"]
    oc = w.get("origin_cells", [0.0] * len(shape))
    grid = CartesianGrid([(o * h, (o + n) * h) for n, o in zip(shape, oc)], shape, periodic=True)
    idx = np.meshgrid(*[np.arange(n) for n in shape], indexing="ij")
    ph = sum(sc.TWO_PI * q * (i + 0.5) / n for q, i, n in zip(w["q"], idx, shape))
    return ScalarField(grid, w["offset"] + w["amp"] * np.sin(ph + w["phase"]))


def wave_truth_bins(w: dict) -> tuple[float, float]:
    """(|k_true|, bin) in units of 2 pi / h: the Fourier bin of the box is 2 pi / (largest extent)"""
    kt = math.sqrt(sum((q / n) ** 2 for q, n in zip(w["q"], w["shape"])))
    return kt, 1.0 / max(w["shape"])


def peak_bins(f, h: float, **kw) -> float:
    """wave number returned by the peak method in units of 2 pi / h (nan if not finite)"""
    L = gls(f, PEAK, **kw)
    if not math.isfinite(L) or L == 0:
        return math.nan
    return h / L


def inp0(w: dict, h: float) -> dict:
    return {**sc.canon(w), "spacing": h}


def prop_peak_wave(w: dict, decades, ctx, known_lines: list, corr: list | None = None) -> list[dict]:
    fails = []
    kt, bin_ = wave_truth_bins(w)
    # default smoothing across spacings
    res = {}
    for e in decades:
        h = 10.0 ** e
        res[e] = peak_bins(wave_field(w, h), h)
    ok = {e: math.isfinite(r) and abs(r - kt) <= 0.5 * bin_ * (1 + 1e-9) for e, r in res.items()}
    if not all(ok.values()):
        ref_ok = ok[min(decades)]
        for e in decades:
            if ok[e]:
                continue
            failure = "non-finite result" if not math.isfinite(res[e]) else "not scale covariant"
            ent = sc.known_entry("C17", "get_length_scale", PEAK, failure, smoothing="default") if ref_ok else None
            val = "nan" if not math.isfinite(res[e]) else f"wave number {res[e] / bin_:.3f} bins instead of {kt / bin_:.3f}"
            text = (f"sin wave q={w['q']} on {w['shape']} cells, amplitude {w['amp']}, offset {w['offset']}, "
                    f"spacing {10.0 ** e:g} -> {val} (spacing {10.0 ** min(decades):g}: "
                    f"{res[min(decades)] / bin_:.3f} bins)")
            if ent is not None:
                known_lines.append(text)
            else:
                fails.append({"what": "structure_factor_maximum (default smoothing) on a resolved plane wave is not finite "
                                      "and within half a Fourier bin, at every spacing or without a matching known finding",
                              "method": PEAK, "smoothing": "default", "input": sc.canon(w), "spacing": 10.0 ** e,
                              "got_bins": sc.json_safe(res[e] / bin_), "want_bins": kt / bin_,
                              "by_spacing": {str(k): sc.json_safe(v / bin_) for k, v in res.items()}})
            break
    # explicit unit-consistent width (0.3 Fourier bins, i.e. sigma given in wave-number units) at every spacing:
    # finite and within half a bin whenever the FIRST bracket [max_est/5, max_est, 5 max_est] is valid for the smoothed
    # model curve S (scipy needs S(b) > S(a), S(c); the windows 1 and 0.2 give a degenerate / the mirrored bracket);
    # otherwise every minimiser call raises and the documented result is nan (peak_loop = None in Proofs/C17.v)
    from droplets.image_analysis import get_structure_factor
    for e in decades:
        h = 10.0 ** e
        f = wave_field(w, h)
        sigma = 0.3 * sc.TWO_PI * bin_ / h
        r = peak_bins(f, h, smoothing=sigma)
        k0, s0 = get_structure_factor(f, smoothing=None, add_zero=True)
        est = float(k0[1 + int(np.argmax(s0[1:]))])
        S = sc.nw_model(sigma, np.asarray(k0, dtype=float), np.asarray(s0, dtype=float), np.array([est / 5, est, 5 * est]))
        if len(w["shape"]) == 1:
            # implementation-level counterparts of C17_plane_wave_peak_bin: premise dft_cosine on numpy's transform,
            # and the start estimate equals the true wave number 2 pi q / (N h)
            N, q = w["shape"][0], w["q"][0]
            X2 = np.abs(np.fft.fftn(f.data, norm="ortho")) ** 2
            tot = float(np.sum(f.data ** 2))
            off = [m for m in range(1, N) if m not in (q, N - q)]
            if (off and float(np.max(X2[off])) > 1e-12 * tot) or \
                    not all(abs(float(X2[m]) - w["amp"] ** 2 * N / 4) <= 1e-9 * w["amp"] ** 2 * N for m in (q, N - q)):
                if corr is not None:
                    corr.append(("oracle-spec:fftn premise dft_cosine fails", inp0(w, h)))
            if not rel_close(est, sc.TWO_PI * q / (N * h), 1e-12):
                fails.append({"what": "start estimate of the peak search is not the true wave number of the plane wave",
                              "method": PEAK, "input": inp0(w, h), "got": est, "want": sc.TWO_PI * q / (N * h)})
                break
        margin = min(S[1] - S[0], S[1] - S[2])
        if abs(margin) <= 1e-9 * float(np.max(np.abs(S))):
            if ctx is not None:
                ctx.count("peak_explicit_sigma", "knife-edge bracket (skipped)")
            continue
        inp = {**sc.canon(w), "spacing": h, "smoothing": sigma}
        if margin > 0:
            if not (math.isfinite(r) and abs(r - kt) <= 0.5 * bin_ * (1 + 1e-9)):
                fails.append({"what": "structure_factor_maximum with a unit-consistent smoothing width (0.3 bins) on a resolved "
                                      "plane wave is not finite and within half a Fourier bin although the bracket is valid",
                              "method": PEAK, "smoothing": "0.3 bins", "input": inp,
                              "got_bins": sc.json_safe(r / bin_), "want_bins": kt / bin_})
                break
            if ctx is not None:
                ctx.count("peak_explicit_sigma", "valid bracket: finite, within half a bin")
        else:
            if math.isfinite(r):
                if corr is not None:
                    corr.append((f"peak loop: every bracket of the model curve is invalid but the implementation returned "
                                 f"{r / bin_:.3f} bins", inp))
                break
            if ctx is not None:
                ctx.count("peak_explicit_sigma", "invalid bracket (zero mode dominates): nan as modelled")
    # explicit, unit-consistent widths: exact power-of-two stretches must give the same wave number in bins
    for alpha in (0.25, 0.5):
        base = peak_bins(wave_field(w, 1.0), 1.0, smoothing=alpha * sc.TWO_PI * bin_)
        for s in POW2:
            r = peak_bins(wave_field(w, s), s, smoothing=alpha * sc.TWO_PI * bin_ / s)
            same = (math.isnan(r) and math.isnan(base)) or (math.isfinite(r) and math.isfinite(base)
                                                             and abs(r - base) <= 1e-3 * bin_)
            if not same:
                fails.append({"what": "structure_factor_maximum with an explicit unit-consistent smoothing width is not "
                                      "scale covariant", "method": PEAK, "smoothing": f"{alpha} bins", "input": sc.canon(w),
                              "stretch": s, "got_bins": sc.json_safe(r / bin_), "want_bins": sc.json_safe(base / bin_)})
                break
    return fails


def prop_peak_field(c: dict, rng: random.Random, known_lines: list) -> list[dict]:
    """general fields: covariance within one Fourier bin; invariance under field scaling / translation"""
    fails = []
    data = sc.build(c)
    f = sc.make_field(c, data)
    ext = float(f.grid.cuboid.size.max())
    bin_ = sc.TWO_PI / ext
    # The method starts from the argmax of the raw structure factor.  If the two highest values at DIFFERENT wave
    # numbers agree to 1e-6 (e.g. two waves of equal amplitude) the peak is not defined and rounding decides: such
    # degenerate fields are outside the property (no peak picker can be invariant on them) and are skipped.
    from droplets.image_analysis import get_structure_factor
    k_raw, sf_raw = get_structure_factor(f, smoothing=None)
    j = int(np.argmax(sf_raw))
    other = sf_raw[np.abs(k_raw - k_raw[j]) > 1e-9 * float(k_raw.max())]
    if other.size and float(other.max()) >= (1 - 1e-6) * float(sf_raw[j]):
        return [{"skip": "degenerate"}]

    def k_of(field, **kw):
        L = gls(field, PEAK, **kw)
        return sc.TWO_PI / L if math.isfinite(L) and L != 0 else math.nan

    def same(a, b, tol):
        return (math.isnan(a) and math.isnan(b)) or (math.isfinite(a) and math.isfinite(b) and abs(a - b) <= tol)

    for label, kw in (("default", {}), ("0.5 bins", {"smoothing": 0.5 * bin_})):
        k0 = k_of(f, **kw)
        for s in (0.03125, 32.0):
            kw_s = {k_: v / s for k_, v in kw.items()}
            ks = k_of(sc.make_field(c, data, scale=s), **kw_s) * s
            if same(ks, k0, bin_):
                continue
            failure = "non-finite result" if (math.isnan(ks) != math.isnan(k0)) else "not scale covariant"
            ent = sc.known_entry("C17", "get_length_scale", PEAK, failure, smoothing="default") if label == "default" else None
            if ent is not None:
                known_lines.append(f"{c['kind']} field on {c['shape']} cells, spacing {c['h']}, stretched by {s:g} -> "
                                   f"wave number {ks / bin_:.3f} bins instead of {k0 / bin_:.3f}")
            else:
                fails.append({"what": f"structure_factor_maximum ({label} smoothing) is not scale covariant within one "
                                      "Fourier bin", "method": PEAK, "smoothing": label, "input": sc.canon(c), "stretch": s,
                              "got_bins": sc.json_safe(ks / bin_), "want_bins": sc.json_safe(k0 / bin_)})
            break
        for cc in [rng.choice([-2.5, 0.5, 1e4])] + rng.sample(sc.SCALE_FACTORS, 3):
            kc = k_of(sc.make_field(c, cc * data), **kw)
            if same(kc, k0, bin_):
                continue
            # With the default width (not tied to the Fourier bin) the smoothed curve can be rough; the minimiser's path
            # among its local maxima then depends on last-bit changes of sf.  Covered only if known_findings.json lists
            # this failure kind for the default smoothing; explicit unit-consistent widths are always violations.
            ent = sc.known_entry("C17", "get_length_scale", PEAK, "not invariant under field scaling",
                                 smoothing="default") if label == "default" else None
            if ent is not None:
                known_lines.append(f"{c['kind']} field on {c['shape']} cells, spacing {c['h']}, multiplied by {cc:g} -> "
                                   f"wave number {kc / bin_:.3f} bins instead of {k0 / bin_:.3f}")
            else:
                fails.append({"what": f"structure_factor_maximum ({label} smoothing) changes when the field is multiplied "
                                      "by a constant", "method": PEAK, "smoothing": label, "input": sc.canon(c),
                              "factor": cc, "got_bins": sc.json_safe(kc / bin_), "want_bins": sc.json_safe(k0 / bin_)})
            break
        sh = [rng.randrange(0, n) for n in data.shape]
        kr = k_of(sc.make_field(c, np.roll(data, sh, axis=tuple(range(data.ndim)))), **kw)
        if not same(kr, k0, bin_):
            ent = sc.known_entry("C17", "get_length_scale", PEAK, "not invariant under translation",
                                 smoothing="default") if label == "default" else None
            if ent is not None:
                known_lines.append(f"{c['kind']} field on {c['shape']} cells, spacing {c['h']}, rolled by {sh} -> "
                                   f"wave number {kr / bin_:.3f} bins instead of {k0 / bin_:.3f}")
            else:
                fails.append({"what": f"structure_factor_maximum ({label} smoothing) changes under a periodic translation",
                              "method": PEAK, "smoothing": label, "input": sc.canon(c), "shift": sh,
                              "got_bins": sc.json_safe(kr / bin_), "want_bins": sc.json_safe(k0 / bin_)})
    return fails


# ---------------------------------------------------------------------------------------------
def _sample_goals(ctx, rng, py, consts, corr) -> list:
    from droplets.image_analysis import get_structure_factor, locate_droplets
    goals = []
    cases_of: dict = {}
    disagree: list = []
    for _ in range(ctx.scale(3, 8)):
        c = sc.gen_case(rng, kind=rng.choice(["noise", "waves"]))
        f = sc.make_field(c)
        k, sf = get_structure_factor(f)
        S, K = float(np.sum(sf)), float(np.sum(k * sf))
        L = gls(f, "structure_factor_mean")
        goals.append((f"ls_mean@{c['shape']}#{len(goals)}", f"ls_mean {vlib.rlit(S)} {vlib.rlit(K)}", L, 1e-12 * abs(L)))
        cases_of[goals[-1][0]] = ("mean", c)
        td = float(f.grid.typical_discretization)
        v = float(py["ls_default_smoothing"](typical_discretization=td))
        goals.append((f"ls_default_smoothing({td})", f"ls_default_smoothing {vlib.rlit(td)}", v, 1e-13 * abs(v)))
        x = math.ldexp(1 + rng.randrange(64) / 64.0, rng.randrange(-12, 12))
        v = float(py["ls_peak"](x=x))
        goals.append((f"ls_peak({x})", f"ls_peak {vlib.rlit(x)}", v, 1e-13 * abs(v)))
        w = rng.choice(consts["ls_peak_windows"])
        for j, sel in enumerate(("fst (fst ({}))", "snd (fst ({}))", "snd ({})")):
            v = float(py[f"ls_peak_bracket_{j}"](max_est=x, window_size=w))
            goals.append((f"ls_peak_bracket_{j}({x},{w})", sel.format(f"ls_peak_bracket {vlib.rlit(x)} {vlib.rlit(w)}"),
                          v, 1e-13 * abs(v)))
        ctx.case(["sample-goals", sc.canon(c)])
    for _ in range(ctx.scale(3, 8)):
        c = gen_emulsion_case(rng)
        f = build_emulsion(c)
        n = len(locate_droplets(f))
        if n == 0:
            continue
        L = gls(f, "droplet_detection")
        if not math.isfinite(L):  # no Coq literal: a model / implementation disagreement with this input
            corr.append((f"droplet_detection: implementation returned {L!r} although locate_droplets finds {n} droplet(s)"
                         f" {last_problem()}", sc.canon(c)))
            disagree.append(("count", c))
            continue
        bl = "; ".join(f"({vlib.rlit(float(lo))}, {vlib.rlit(float(hi))})" for lo, hi in f.grid.axes_bounds)
        d = len(c["shape"])
        goals.append((f"ls_count@{c['shape']} n={n}#{len(goals)}",
                      f"ls_count (ls_volume_per_droplet (ls_volume [{bl}]) {n}) {d}%nat {d}%nat", L, 1e-12 * abs(L)))
        cases_of[goals[-1][0]] = ("count", c)
        ctx.case(["sample-goals", sc.canon(c)])
    ctx.sample({"goal": f"Rabs ({goals[0][1]} - {vlib.rlit(goals[0][2])}) <= tol", "impl_value": goals[0][2]})
    bad = sc.sample_goal_shards(ctx, "c17", goals,
                                ["ls_mean", "ls_default_smoothing", "ls_peak", "ls_peak_bracket", "ls_count",
                                 "ls_volume_per_droplet", "ls_volume", "fold_left", "fst", "snd", "INR"])
    # a sample on which the Coq model and the implementation disagree is the candidate failing input
    disagree.extend(cases_of[lbl] for lbl in bad if lbl in cases_of)
    return disagree


def check(ctx: vlib.Ctx) -> int:
    sc.quiet()
    rng = random.Random(ctx.seed)
    ok, fresh = vlib.prove_with_fallback(ctx, ["Proofs/C17.vo", "Proofs/SpectrumMathInst.vo", "Model/Samples.vo"],
                                         gens=["Gen_spectrum"])
    fell_back = bool(ctx.extra.get("translator_fell_back"))
    ctx.tie.append(("translator (Gen_spectrum regenerated from the current source: the three length-scale formulas, call "
                    "flags, default smoothing, bracket / window lines), validated by interval sample goals and the "
                    "correspondence on get_length_scale") if fresh else
                   ("correspondence on get_length_scale (implementation vs the GOLDEN model of Gen_spectrum: interval sample "
                    "goals inside Coq against implementation values; moment and peak pipelines recomputed from the golden "
                    "lines per case)"))
    py, consts = sc.load_models(ctx, fresh)
    gen_ok = py is not None
    if not gen_ok:
        ctx.broken.append("model of Gen_spectrum unavailable on the Python side: " + "; ".join(ctx.notes[-1:]))
    corr_bad: list = []  # (message, input) of model / implementation disagreements
    failures: list[dict] = []
    if gen_ok and ok:
        for kind, c in _sample_goals(ctx, rng, py, consts, corr_bad):
            # the property oracle decides whether the disagreeing sample is a failing input of the property
            confirmed = prop_count(c, rng) if kind == "count" else prop_mean(c, rng)
            for f_ in confirmed:
                f_["from"] = "sample on which the Coq model and the implementation disagree"
            failures.extend(confirmed)
    boost = 2 if (ctx.broken or fell_back) else 1
    # sequence dimension: reference interpreters run concurrently with the streams below
    seq_groups = sc.collision_groups(rng, ctx.scale(5, 15))
    seq_procs = sc.start_fresh_references(seq_groups, "length scale")
    known_f7: list[str] = []
    def guarded(method, inp, fn):
        """an exception of the oracle's own calls into the library on a valid input is a failure with that input"""
        try:
            return fn()
        except Exception as e:  # noqa: BLE001
            return [{"what": f"{method}: the library raises {type(e).__name__} on a valid input", "method": method,
                     "input": inp, "error": str(e)[:300]}]

    # (A) moment method
    for i in range(boost * ctx.scale(60, 400)):
        c = sc.gen_case(rng, big=(not ctx.quick and i % 4 == 3))
        data = sc.build(c)
        if float(np.ptp(data)) == 0.0:
            # zero variance: no length scale exists; nothing is documented (the implementation returns nan)
            ctx.count("skipped", "constant field (zero variance: no length scale defined)")
            continue
        ctx.case(["structure_factor_mean", sc.canon(c)])
        ctx.count("method", "structure_factor_mean")
        sc.count_case(ctx, c)
        if i == 0:
            ctx.sample({"method": "structure_factor_mean", **sc.canon(c)})
        failures.extend(guarded("structure_factor_mean", sc.canon(c), lambda: prop_mean(c, rng)))
        if gen_ok:
            corr_bad.extend((m_, sc.canon(c)) for m_ in
                            guarded("structure_factor_mean", sc.canon(c), lambda: corr_mean(c, py, consts))
                            if isinstance(m_, str))
    # (B) droplet counting
    for i in range(boost * ctx.scale(40, 250)):
        c = gen_emulsion_case(rng)
        ctx.case(["droplet_detection", sc.canon(c)])
        ctx.count("method", "droplet_detection")
        sc.count_case(ctx, c)
        if i == 0:
            ctx.sample({"method": "droplet_detection", **sc.canon(c)})
        failures.extend(guarded("droplet_detection", sc.canon(c), lambda: prop_count(c, rng)))
    probe_noncartesian(ctx)
    probe_field_scaling(ctx)
    probe_tracker(ctx, rng, failures)
    # (C) peak method
    decades = DECADES if ctx.quick else sorted(DECADES + [-2.5, -1.5, -0.5, 0.5, 1.5, 2.5])
    for i in range(boost * ctx.scale(24, 120)):
        w = gen_wave_case(rng, first=(i == 0))
        ctx.case([PEAK, "plane wave", sc.canon(w)])
        ctx.count("method", PEAK + "/plane wave")
        ctx.count("dim", len(w["shape"]))
        ctx.count("kind", "plane wave")
        ctx.count("wave_box_placement", "origin" if not any(w.get("origin_cells", [0])) else
                  "negative" if all(o < -n for o, n in zip(w["origin_cells"], w["shape"])) else "shifted / centred")
        if i == 0:
            ctx.sample({"method": PEAK, **sc.canon(w), "spacings": [10.0 ** e for e in decades]})
        failures.extend(guarded(PEAK, sc.canon(w), lambda: prop_peak_wave(w, decades, ctx, known_f7, corr_bad)))
        if gen_ok:
            h_ = 10.0 ** decades[i % len(decades)]
            bin_w = wave_truth_bins(w)[1]
            for extra in guarded(PEAK, inp0(w, h_), lambda: corr_peak(wave_field(w, h_), py, consts, inp0(w, h_)) +
                                 corr_peak(wave_field(w, h_), py, consts, {**inp0(w, h_), "smoothing": "0.3 bins"},
                                           smoothing=0.3 * sc.TWO_PI * bin_w / h_)):
                (failures if isinstance(extra, dict) else corr_bad).append(extra)
    for i in range(boost * ctx.scale(20, 120)):
        # binary64 data: near-ties of the raw maximum are decided at the 1e-6 level (see prop_peak_field)
        c = sc.gen_case(rng, kind=rng.choice(["noise", "waves", "droplets"]), min_n=4, dtype="float64")
        if float(np.ptp(sc.build(c))) == 0.0:
            continue
        ctx.case([PEAK, sc.canon(c)])
        ctx.count("method", PEAK + "/field")
        sc.count_case(ctx, c)
        if gen_ok:
            for extra in guarded(PEAK, sc.canon(c), lambda: corr_peak(sc.make_field(c), py, consts, sc.canon(c))):
                (failures if isinstance(extra, dict) else corr_bad).append(extra)
        r = guarded(PEAK, sc.canon(c), lambda: prop_peak_field(c, rng, known_f7))
        if r and "skip" in r[0]:
            ctx.count("peak_field_skipped", r[0]["skip"])
            continue
        failures.extend(r)
    failures.extend(sc.sequence_oracle(ctx, rng, seq_groups, seq_procs, "C17", "length scale"))
    if known_f7:
        ctx.known_printed.append("structure_factor_maximum with default smoothing is not scale covariant: " + known_f7[0]
                                 + (f" (+{len(known_f7) - 1} more inputs of this class)" if len(known_f7) > 1 else ""))
    ctx.extra["known_finding_inputs"] = known_f7[:20]
    if corr_bad:
        ctx.broken.append(f"correspondence get_length_scale ({'generated' if fresh else 'golden'} model): {corr_bad[0][0]} on "
                          f"{json.dumps(corr_bad[0][1])[:300]} (+{len(corr_bad) - 1} more)")
        if fell_back:  # the correspondence is the tie: its disagreement is the violation, with that input
            m0, c0 = min(corr_bad, key=lambda mc: int(np.prod(mc[1]["shape"])))
            ctx.violations.append({"what": f"get_length_scale differs from the golden model: {m0}", "input": c0,
                                   "found": True, "broken": ctx.broken[:3]})
    seen = set()
    for f in sorted(failures, key=lambda f: int(np.prod(f["input"]["shape"]))):
        if f["what"] in seen or len(seen) >= 3:
            continue
        seen.add(f["what"])
        ctx.violations.append({**f, "found": True, "broken": ctx.broken[:3]})
    ctx.extra["oracle_failures"] = len(failures)
    return vlib.finish(ctx, "", TRUSTED, ASSUME, RULE)


def replay(path: str) -> int:
    sc.quiet()
    obj = json.load(open(path))
    print(json.dumps(obj, indent=1)[:3000])
    c = obj.get("input")
    rng = random.Random(0)
    fails, known = [], []
    if isinstance(c, dict) and "q" in c:
        fails = prop_peak_wave(c, DECADES, None, known)
    elif isinstance(c, dict) and c.get("kind") == "emulsion":
        fails = prop_count(c, rng)
    elif isinstance(c, dict) and "shape" in c:
        fails = prop_mean(c, rng) + [f for f in prop_peak_field(c, rng, known) if "skip" not in f]
    else:
        print("no stored field; running the oracles on a fresh stream")
        for _ in range(20):
            fails += prop_mean(sc.gen_case(rng), rng) + prop_count(gen_emulsion_case(rng), rng)
    print("oracle failures on current tree:", len(fails), " inputs covered by known findings:", len(known))
    for f in fails[:5]:
        print("  ", f["what"], {k: v for k, v in f.items() if k not in ("what", "input")})
    for k in known[:3]:
        print("   known:", k)
    return 1 if fails else 0
