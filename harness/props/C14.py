"""C14 -- tracking during a simulation equals analysing the stored fields afterwards.

prove:       Proofs/C14.vo over Gen_glue.v (regenerated from the current trackers.py / emulsions.py /
             image_analysis.py), Properties/C14.v.
correspond:  DropletTracker.handle / LengthScaleTracker.handle driven directly (and through a real
             `pde` solver run) on generated histories; the recorded data, the result of
             EmulsionTimeCourse.from_storage and the per-frame results of direct analysis calls are
             written as Coq literals and compared with Model/Online.v INSIDE Coq.
oracle:      the property text in Python: frame by frame, same times, droplets equal bit for bit;
             the file written by finalize reads back equal; the length-scale tracker records exactly
             get_length_scale(frame, method) (nan when it raises) and never raises.
"""
from __future__ import annotations

import inspect
import json
import math
import os
import random
import warnings
from fractions import Fraction

import numpy as np

import vlib

TRUSTED = [
    "Coq 8.16.1 kernel + vm_compute (no native_compute)",
    "harness/gen_glue.py (Python-ast reader of trackers.py / emulsions.py / image_analysis.py; fails closed; its "
    "tables are validated on every run by the correspondence cases: the options the model derives from them are "
    "compared with the options the property text prescribes, and the model's record with the implementation's)",
    "py-pde: the controller calls tracker.handle(state, t) for every interrupt in order; extract_field; "
    "MemoryStorage iterates its frames in order with storage.times (observed per sample through a real solver run)",
    "display_progress(iterable) iterates the iterable in order (tqdm wrapper)",
    "Python objects are modelled by value (Emulsion.copy in append is the identity on values; aliasing is C20)",
]
ASSUME = [
    "locate_droplets / get_length_scale are functions of (field, options): same input, same output -- this is "
    "part of C15 (run-to-run determinism), observed on samples",
    "the source selection fits the frames (extract_field is called outside the try of LengthScaleTracker.handle: "
    "a source that does not fit raises TypeError -- stated as a premise of the theorems)",
    "finalize: the file reads back equal -- theorem of C08; here checked on samples only",
]
RULE = ("one case = one generated history (grid, frames: rendered emulsions incl. empty/noise/constant frames, "
        "times, analysis options, source selection) driven through DropletTracker.handle and "
        "EmulsionTimeCourse.from_storage, or through LengthScaleTracker.handle; distinct = distinct case "
        "descriptions; non-trivial = at least one frame")

PAIRING = {"threshold": "threshold", "minimal_radius": "minimal_radius", "refine": "refine",
           "refine_args": "refine_args", "perturbation_modes": "modes"}


# ---------------------------------------------------------------------------------------
# case descriptions -> fields
# ---------------------------------------------------------------------------------------
def make_grid(spec):
    from pde import CartesianGrid, CylindricalSymGrid, PolarSymGrid, UnitGrid
    k = spec["kind"]
    if k == "unit":
        return UnitGrid(spec["shape"], periodic=spec["periodic"])
    if k == "cartesian":
        return CartesianGrid(spec["bounds"], spec["shape"], periodic=spec["periodic"])
    if k == "polar":
        return PolarSymGrid(spec["radius"], spec["shape"])
    if k == "cylindrical":
        return CylindricalSymGrid(spec["radius"], spec["bounds_z"], spec["shape"])
    if k == "spherical":
        from pde import SphericalSymGrid
        return SphericalSymGrid(spec["radius"], spec["shape"])
    raise ValueError(k)


def realise(v):
    """JSON-friendly option values -> the Python objects handed to the implementation
    ({"__np__": "float64", "v": 0.5} -> numpy scalar, {"__float__": "-inf"} -> float)."""
    if isinstance(v, dict):
        if "__np__" in v:
            return getattr(np, v["__np__"])(v["v"])
        if "__float__" in v:
            return float(v["__float__"])
        return {k: realise(x) for k, x in v.items()}
    if isinstance(v, list):
        return [realise(x) for x in v]
    return v


def cast_times(times, kind):
    """Time codes as the type of the case: as written (python int / float), or numpy scalars."""
    if kind in (None, "py"):
        return list(times)
    if kind == "float":
        return [float(t) for t in times]
    return [getattr(np, kind)(t) for t in times]


def with_dtype(field, dtype):
    """The frame with a non-default data type (all frames of a history share it)."""
    from pde import ScalarField
    if dtype in (None, "float64"):
        return field
    if dtype == "float32":
        return ScalarField(field.grid, field.data.astype(np.float32), dtype=np.float32)
    if dtype == "int":  # grey levels 0..4
        return ScalarField(field.grid, np.rint(np.clip(field.data, 0, 1) * 4).astype(int), dtype=int)
    if dtype == "bool":
        return ScalarField(field.grid, field.data > 0.5, dtype=bool)
    raise ValueError(dtype)


def make_frame(grid, fs):
    return with_dtype(_make_frame(grid, fs), fs.get("dtype"))


def _make_frame(grid, fs):
    from pde import ScalarField
    from droplets import DiffuseDroplet, Emulsion
    k = fs["kind"]
    if k == "emulsion":
        if not fs["droplets"]:
            return ScalarField(grid, 0.0)
        em = Emulsion([DiffuseDroplet(d[0], d[1], d[2]) for d in fs["droplets"]])
        return em.get_phasefield(grid)
    if k == "const":
        return ScalarField(grid, float(fs["value"]))
    if k == "noise":
        r = np.random.default_rng(fs["seed"])
        return ScalarField(grid, r.uniform(fs["lo"], fs["hi"], grid.shape))
    raise ValueError(k)


def make_state(grid, fs, source):
    """What the tracker is handed for this frame, given the source selection of the case."""
    from pde import FieldCollection, ScalarField
    f = make_frame(grid, fs)
    if source["kind"] == "none":
        return f
    junk = ScalarField(grid, np.random.default_rng(fs.get("seed", 7) + 101).uniform(0, 1, grid.shape))
    if source["kind"] == "int":
        fields = [junk.copy(), junk.copy()]
        fields[source["index"]] = f
        return FieldCollection(fields)
    if source["kind"] == "callable":
        # the callable picks component 1 and halves it (exact in binary floating point): the analysed field is f
        return FieldCollection([junk, f * 2.0])
    raise ValueError(source["kind"])


def source_arg(source):
    if source["kind"] == "none":
        return None
    if source["kind"] == "int":
        return source["index"]
    return _pick_component


def _pick_component(fc):
    return fc[1] * 0.5


def gen_grid(rng: random.Random, dims=(1, 2, 2, 2, 2, 3)):
    d = rng.choice(dims)
    if d == 1:
        n = rng.choice([12, 16, 24])
        return {"kind": "unit", "shape": [n], "periodic": rng.random() < 0.5}
    if d == 2:
        shape = [rng.choice([8, 10, 12, 14, 16]), rng.choice([8, 10, 12, 16])]
        if rng.random() < 0.3:
            h = rng.choice([0.5, 1.0, 2.0])
            return {"kind": "cartesian", "bounds": [[0, shape[0] * h], [-2, -2 + shape[1] * h]], "shape": shape,
                    "periodic": [rng.random() < 0.5, rng.random() < 0.5]}
        return {"kind": "unit", "shape": shape, "periodic": rng.choice([True, False, [True, False]])}
    return {"kind": "unit", "shape": [8, 8, 8], "periodic": rng.random() < 0.5}


def grid_extent(spec):
    g = make_grid(spec)
    return [list(map(float, b)) for b in g.axes_bounds]


def gen_frame(rng: random.Random, gspec, allow_noise=True):
    ext = grid_extent(gspec)
    size = min(b[1] - b[0] for b in ext)
    u = rng.random()
    if u < 0.62:
        k = rng.choice([0, 0, 1, 1, 2, 2, 3])
        drops = []
        for _ in range(k):
            pos = [round(rng.uniform(b[0], b[1]) * 8) / 8 for b in ext]
            rad = round(rng.uniform(0.12, 0.3) * size * 8) / 8
            drops.append([pos, rad, rng.choice([0.5, 1.0, 1.5])])
        return {"kind": "emulsion", "droplets": drops}
    if u < 0.8 or not allow_noise:
        return {"kind": "const", "value": rng.choice([0.0, 0.0, 1.0, 0.5, 0.25])}
    return {"kind": "noise", "seed": rng.randrange(10 ** 6), "lo": rng.choice([0.0, -0.5]), "hi": 1.0}


def gen_times(rng: random.Random, n):
    mode = rng.randrange(6)
    if mode == 4 and n:  # time code 0 (int or float) first / interior / last, other codes negative and non-integer
        out = [round(rng.uniform(-3, 3), 2) or 0.5 for _ in range(n)]
        out[rng.choice([0, n // 2, n - 1])] = rng.choice([0, 0.0])
        return out
    if mode == 5:  # negative, decreasing, non-integer
        return [-0.75 - 1.5 * i for i in range(n)]
    if mode == 0:
        return [float(i) for i in range(n)]
    if mode == 1:
        t, out = 0.0, []
        for _ in range(n):
            t += rng.choice([0.125, 0.1, 1.0, 2.5, 1e-3])
            out.append(t)
        return out
    if mode == 2:  # integers, not starting at 0
        s = rng.randrange(3, 50)
        return [s + 2 * i for i in range(n)]
    return [round(rng.uniform(-5, 5), 3) for _ in range(n)]  # arbitrary (unsorted, possibly repeated)


def gen_options(rng: random.Random, dim: int):
    o = {}
    if rng.random() < 0.75:
        o["threshold"] = rng.choice([0.3, 0.5, 0.7, 0.45, "auto", "extrema", "mean", "otsu", 0, 1, 0.0, 1.0,
                                     {"__np__": "float64", "v": 0.5}, {"__np__": "float32", "v": 0.25}])
    if rng.random() < 0.7:
        o["minimal_radius"] = rng.choice([0, 0.75, 1.0, 1.5, 2.5, 4.0, -1.0, {"__float__": "-inf"},
                                          {"__np__": "float64", "v": 1.0}, 1])
    if rng.random() < 0.5:
        o["refine"] = rng.random() < 0.7
    if rng.random() < 0.35:
        o["refine_args"] = rng.choice([None, {}, {"vmin": None, "vmax": None}, {"tolerance": 1e-3},
                                       {"vmin": 0.0, "vmax": 1.0, "adjust_values": True},
                                       {"tolerance": 1e-3, "least_squares_params": {"max_nfev": 5}}])
    if rng.random() < 0.4:
        o["perturbation_modes"] = rng.choice([0, 1, 2, 3, {"__np__": "int64", "v": 2}])
    if dim == 3 and o.get("refine") and realise(o.get("perturbation_modes", 0)) > 0:
        o["perturbation_modes"] = 0  # spherical harmonics fits in 3d are slow; C04/C05 cover them
    return o


def gen_case(rng: random.Random, max_frames=6):
    gspec = gen_grid(rng)
    dim = len(gspec["shape"])
    opts = gen_options(rng, dim)
    heavy = bool(opts.get("refine")) and (realise(opts.get("perturbation_modes", 0)) > 0 or dim == 3)
    n = rng.choice([0, 1, 1, 2, 3, 4, 5, max_frames]) if not heavy else rng.choice([0, 1, 2, 3])
    frames = [gen_frame(rng, gspec, allow_noise=not heavy and dim < 3) for _ in range(n)]
    src = rng.choice([{"kind": "none"}, {"kind": "none"}, {"kind": "int", "index": 0}, {"kind": "int", "index": 1},
                      {"kind": "callable"}])
    case = {"grid": gspec, "frames": frames, "times": gen_times(rng, n), "options": opts, "source": src}
    # data type of the images (one per history), type of the time codes, a time course handed in by the caller
    dtype = rng.choice([None, None, None, "float32", "int", "bool"])
    if dtype:
        for f in frames:
            f["dtype"] = dtype
    case["time_type"] = rng.choice(["py", "py", "float", "float64", "float32", "int64" if all(
        float(t).is_integer() for t in case["times"]) else "float64"])
    if rng.random() < 0.2:
        k = rng.choice([0, 1, 2])
        case["initial"] = {"frames": [gen_frame(rng, gspec, allow_noise=False) for _ in range(k)],
                           "times": [-10.0 + i for i in range(k)],
                           "via": "tracker_method" if not opts and src["kind"] == "none" and rng.random() < 0.7 else "ctor"}
    return case


# ---------------------------------------------------------------------------------------
# running the implementation
# ---------------------------------------------------------------------------------------
def canon_emulsion(em):
    """(class names, bytes of the droplet records) -- bit-exact identity of an emulsion."""
    return tuple((type(d).__name__, str(d.data.dtype), d._data_array.tobytes()) for d in em)


def canon_tc(tc):
    return {"times": list(tc.times), "emulsions": [canon_emulsion(e) for e in tc.emulsions]}


def offline_kwargs(opts):
    return {PAIRING[k]: v for k, v in opts.items()}


class quiet:
    """Silence warnings and log messages of the analysed library while a case runs."""

    def __enter__(self):
        import logging
        self.w = warnings.catch_warnings()
        self.w.__enter__()
        warnings.simplefilter("ignore")
        self.err = np.seterr(all="ignore")
        logging.disable(logging.CRITICAL)
        return self

    def __exit__(self, *a):
        import logging
        logging.disable(logging.NOTSET)
        np.seterr(**self.err)
        self.w.__exit__(None, None, None)


def run_droplet_case(case, tmpdir=None):
    """Drive the tracker and the offline analysis; returns a dict of observations (no judgement)."""
    from pde import MemoryStorage
    from droplets import DropletTracker
    from droplets.emulsions import EmulsionTimeCourse
    from droplets.image_analysis import locate_droplets
    grid = make_grid(case["grid"])
    states = [make_state(grid, fs, case["source"]) for fs in case["frames"]]
    plain = [make_frame(grid, fs) for fs in case["frames"]]
    import copy
    times = cast_times(case["times"], case.get("time_type"))
    opts = realise(case["options"])
    opts_before = copy.deepcopy(opts)
    w = quiet().__enter__()
    try:
        filename = None
        if tmpdir is not None:
            filename = os.path.join(tmpdir, "tracker.hdf5")
        # a time course handed in by the caller (filled before with default settings) is continued IN PLACE
        initial, s0, aliased = None, None, None
        if case.get("initial") is not None:
            s0 = EmulsionTimeCourse()
            for fs, t in zip(case["initial"]["frames"], case["initial"]["times"]):
                s0.append(locate_droplets(make_frame(grid, {k: v for k, v in fs.items() if k != "dtype"})), t)
            initial = canon_tc(s0)
        if s0 is not None and case["initial"]["via"] == "tracker_method":
            tr = s0.tracker(1, filename=filename)
        elif s0 is not None:
            tr = DropletTracker(1, filename=filename, source=source_arg(case["source"]), emulsion_timecourse=s0, **opts)
        else:
            tr = DropletTracker(1, filename=filename, source=source_arg(case["source"]), **opts)
        online = None
        try:
            for s, t in zip(states, times):
                tr.handle(s, t)
            online = ("ok", canon_tc(tr.data))
        except Exception as e:  # noqa
            online = ("err", type(e).__name__)
        if s0 is not None:
            aliased = tr.data is s0
        # offline: the same stored fields
        from pde.visualization.plotting import extract_field
        if case["source"]["kind"] == "none":
            fields = states
        else:
            fields = [extract_field(s, source_arg(case["source"]), 0) for s in states]
        same_field = all(np.array_equal(a.data, b.data) for a, b in zip(fields, plain))
        storages = {}
        if case["source"]["kind"] == "int" and states:
            st = MemoryStorage.from_fields(times, states)
            storages["extract_field"] = st.extract_field(case["source"]["index"])
        storages["fields"] = MemoryStorage.from_fields(times, fields) if fields else MemoryStorage(times=[], data=[])
        offline = {}
        for name, st in storages.items():
            try:
                off = EmulsionTimeCourse.from_storage(st, progress=False, **offline_kwargs(opts))
                offline[name] = ("ok", canon_tc(off))
            except Exception as e:  # noqa
                offline[name] = ("err", type(e).__name__)
        # direct per-frame analysis of the stored fields with the options the property text prescribes
        direct = []
        for f in fields:
            try:
                direct.append(("ok", canon_emulsion(locate_droplets(f, **offline_kwargs(opts)))))
            except Exception as e:  # noqa
                direct.append(("err", type(e).__name__))
        # finalize -> file -> read back
        roundtrip = None
        if filename is not None and online[0] == "ok":
            tr.finalize()
            back = EmulsionTimeCourse.from_file(filename, progress=False)
            roundtrip = canon_tc(back)
            roundtrip["times"] = [float(t) for t in roundtrip["times"]]
            os.remove(filename)
    finally:
        w.__exit__(None, None, None)
    prefix_ok = None
    if initial is not None and online[0] == "ok":
        k = len(initial["times"])
        full = online[1]
        prefix_ok = (full["times"][:k] == initial["times"] and full["emulsions"][:k] == initial["emulsions"]
                     and bool(aliased))
        online = ("ok", {"times": full["times"][k:], "emulsions": full["emulsions"][k:]})
        if roundtrip is not None:  # the file holds the whole time course
            roundtrip_ok = (roundtrip["emulsions"] == full["emulsions"]
                            and roundtrip["times"] == [float(t) for t in full["times"]])
            roundtrip = {"times": [float(t) for t in online[1]["times"]], "emulsions": online[1]["emulsions"]} \
                if roundtrip_ok else {"times": [], "emulsions": ["file differs"]}
    return {"online": online, "offline": offline, "direct": direct, "same_field": same_field,
            "roundtrip": roundtrip, "times_fed": times, "initial": initial, "prefix_ok": prefix_ok,
            "options_unchanged": _deep_equal(opts_before, opts)}


def _deep_equal(a, b):
    if isinstance(a, dict) and isinstance(b, dict):
        return list(a) == list(b) and all(_deep_equal(a[k], b[k]) for k in a)
    if isinstance(a, (list, tuple)) and isinstance(b, (list, tuple)):
        return len(a) == len(b) and all(_deep_equal(x, y) for x, y in zip(a, b))
    if callable(a) and callable(b):
        return a is b
    try:
        return type(a) is type(b) and bool(a == b or (a != a and b != b))
    except Exception:  # noqa
        return False


def judge_droplet_case(case, obs):
    """The property text: returns a list of failure descriptions."""
    fails = []
    on = obs["online"]
    for name, off in obs["offline"].items():
        if on[0] != off[0]:
            fails.append(f"online {on[0]} ({on[1] if on[0] == 'err' else ''}) but offline[{name}] {off[0]} "
                         f"({off[1] if off[0] == 'err' else ''})")
            continue
        if on[0] == "err":
            if on[1] != off[1]:
                fails.append(f"online raises {on[1]}, offline[{name}] raises {off[1]}")
            continue
        a, b = on[1], off[1]
        fed = obs.get("times_fed", case["times"])
        if len(a["times"]) != len(fed):
            fails.append(f"{len(a['times'])} frames recorded for {len(fed)} handled")
        if a["times"] != b["times"] or [repr(t) for t in a["times"]] != [repr(t) for t in fed]:
            fails.append(f"times differ: online {a['times']!r}, offline[{name}] {b['times']!r}, fed {fed!r}")
        if len(a["emulsions"]) != len(b["emulsions"]):
            fails.append(f"frame counts differ: online {len(a['emulsions'])}, offline[{name}] {len(b['emulsions'])}")
        for i, (ea, eb) in enumerate(zip(a["emulsions"], b["emulsions"])):
            if ea != eb:
                fails.append(f"frame {i}: online {[(c, bytes_to_floats(x)) for c, _, x in ea]} != "
                             f"offline[{name}] {[(c, bytes_to_floats(x)) for c, _, x in eb]}")
                break
    if obs.get("prefix_ok") is False:
        fails.append("a time course handed to the tracker (emulsion_timecourse=...) is not continued in place: its "
                     "frames are not the prefix of tracker.data, or tracker.data is another object")
    if obs.get("options_unchanged") is False:
        fails.append("the option objects handed to DropletTracker (refine_args ...) were modified by the analysis")
    if not obs["same_field"]:
        fails.append("harness: the source selection does not return the generated frame exactly")
    if on[0] == "ok":
        for i, (ea, d) in enumerate(zip(on[1]["emulsions"], obs["direct"])):
            if d[0] != "ok" or d[1] != ea:
                fails.append(f"frame {i}: recorded emulsion differs from locate_droplets(frame, same settings)")
                break
    if obs["roundtrip"] is not None and on[0] == "ok":
        rt = obs["roundtrip"]
        if rt["emulsions"] != on[1]["emulsions"] or rt["times"] != [float(t) for t in on[1]["times"]]:
            fails.append("file written by finalize does not read back equal to the recorded data")
    return fails


def bytes_to_floats(b: bytes):
    return [float(x) for x in np.frombuffer(b, dtype="<f8")]


# ---------------------------------------------------------------------------------------
# length-scale tracker
# ---------------------------------------------------------------------------------------
METHODS = ["structure_factor_mean", "structure_factor_maximum", "droplet_detection"]


def gen_length_case(rng: random.Random):
    if rng.random() < 0.25:
        # grids on which the structure factor is not defined -> the analysis raises
        gspec = rng.choice([{"kind": "polar", "radius": 8.0, "shape": 12},
                            {"kind": "cylindrical", "radius": 6.0, "bounds_z": [0.0, 8.0], "shape": [6, 8]},
                            {"kind": "spherical", "radius": 6.0, "shape": 8}])
    else:
        gspec = gen_grid(rng, dims=(1, 2, 2, 2))
        if gspec["kind"] == "unit":
            gspec["periodic"] = True if rng.random() < 0.7 else gspec["periodic"]
    n = rng.choice([0, 1, 2, 3, 4, 6])
    frames = []
    for _ in range(n):
        if gspec["kind"] in ("polar", "cylindrical", "spherical"):
            frames.append(rng.choice([{"kind": "const", "value": 0.0}, {"kind": "const", "value": 1.0},
                                      {"kind": "noise", "seed": rng.randrange(10 ** 6), "lo": 0.0, "hi": 1.0}]))
        else:
            frames.append(gen_frame(rng, gspec))
    kw = {}
    if rng.random() < 0.85:
        kw["method"] = rng.choice(METHODS + ["no_such_method"] if rng.random() < 0.1 else METHODS)
    if rng.random() < 0.3:
        kw["verbose"] = rng.random() < 0.5
    src = rng.choice([{"kind": "none"}, {"kind": "none"}, {"kind": "int", "index": 1}, {"kind": "callable"}])
    dtype = rng.choice([None, None, None, "float32", "int"])
    if dtype:
        for f in frames:
            f["dtype"] = dtype
    times = gen_times(rng, n)
    return {"grid": gspec, "frames": frames, "times": times, "options": kw, "source": src,
            "time_type": rng.choice(["py", "py", "float64", "float32"])}


def canon_number(x):
    """('fin', float) | ('nan',) | ('inf', sign) | ('other', repr)."""
    try:
        v = float(x)
    except Exception:  # noqa
        return ("other", repr(x))
    if math.isnan(v):
        return ("nan",)
    if math.isinf(v):
        return ("inf", 1 if v > 0 else -1)
    return ("fin", v)


def run_length_case(case, tmpdir=None):
    import logging
    from droplets import LengthScaleTracker
    from droplets.image_analysis import get_length_scale
    grid = make_grid(case["grid"])
    states = [make_state(grid, fs, case["source"]) for fs in case["frames"]]
    plain = [make_frame(grid, fs) for fs in case["frames"]]
    w = quiet().__enter__()
    try:
        filename = os.path.join(tmpdir, "lengths.json") if tmpdir is not None else None
        tr = LengthScaleTracker(1, filename=filename, source=source_arg(case["source"]), **case["options"])
        raised = None
        times_fed = cast_times(case["times"], case.get("time_type"))
        for s, t in zip(states, times_fed):
            try:
                tr.handle(s, t)
            except Exception as e:  # noqa
                raised = type(e).__name__
                break
        method = case["options"].get("method", "structure_factor_mean")
        direct = []
        # the frame the tracker analyses: the selected component (a FieldCollection holds float64 copies of
        # float32 / integer images, so it is the extracted field and not the generated image that counts)
        if case["source"]["kind"] == "none":
            analysed = plain
        else:
            from pde.visualization.plotting import extract_field
            analysed = [extract_field(s_, source_arg(case["source"]), 0) for s_ in states]
        for f in analysed:
            try:
                direct.append(("ok", canon_number(get_length_scale(f, method=method))))
            except Exception as e:  # noqa
                direct.append(("err", type(e).__name__))
        dumped, finalize_error = None, None
        if filename is not None and raised is None:
            try:
                tr.finalize()
                with open(filename) as fp:
                    dumped = json.load(fp)
            except Exception as e:  # noqa
                finalize_error = type(e).__name__
            if os.path.exists(filename):
                os.remove(filename)
    finally:
        w.__exit__(None, None, None)
    return {"raised": raised, "times": list(tr.times), "values": [canon_number(v) for v in tr.length_scales],
            "direct": direct, "dumped": dumped, "times_fed": times_fed, "finalize_error": finalize_error}


# Inputs that make the UNCHANGED /repo misbehave in a way that is reported to the lead but not (yet) judged
# (notes/audit_task.md): counted in the evidence, listed in the notes.
SUSPECTED = [
    {"id": "S14a", "where": "LengthScaleTracker.finalize",
     "input": "time codes that are numpy scalars other than float64 (np.float32, np.int64) and a filename",
     "observed": "json.dump raises TypeError (Object of type float32 / int64 is not JSON serializable); "
                 "DropletTracker.finalize (HDF5) stores the same time codes"},
]


def suspected_length_finalize(case) -> bool:
    return case.get("time_type") in ("float32", "int64")


def judge_length_case(case, obs):
    fails = []
    if obs["raised"]:
        fails.append(f"handle raised {obs['raised']}")
        return fails
    n = len(case["times"])
    if len(obs["times"]) != n or len(obs["values"]) != n:
        fails.append(f"lists not aligned with the history: {len(obs['times'])} times, {len(obs['values'])} values, "
                     f"{n} frames handled")
    fed = obs.get("times_fed", case["times"])
    if [repr(t) for t in obs["times"]] != [repr(t) for t in fed][:len(obs["times"])] and len(obs["times"]) == n:
        fails.append(f"recorded times {obs['times']!r} != fed times {fed!r}")
    for i, (v, d) in enumerate(zip(obs["values"], obs["direct"])):
        want = d[1] if d[0] == "ok" else ("nan",)
        if v != want:
            fails.append(f"frame {i}: recorded {v}, analysis gives {d}")
            break
    if obs.get("finalize_error") and not suspected_length_finalize(case):
        fails.append(f"finalize raised {obs['finalize_error']}")
    if obs["dumped"] is not None:
        dv = [canon_number(v) for v in obs["dumped"]["length_scales"]]
        if dv != obs["values"] or [float(t) for t in obs["dumped"]["times"]] != [float(t) for t in obs["times"]]:
            fails.append("JSON file written by finalize differs from the recorded lists")
    return fails


# ---------------------------------------------------------------------------------------
# solver runs
# ---------------------------------------------------------------------------------------
def gen_solver_case(rng: random.Random):
    gspec = gen_grid(rng, dims=(2, 2, 2, 1))
    if gspec["kind"] == "unit":
        gspec["periodic"] = True
    frame = gen_frame(rng, gspec)
    while frame["kind"] == "const":
        frame = gen_frame(rng, gspec)
    opts = gen_options(rng, len(gspec["shape"]))
    if realise(opts.get("perturbation_modes", 0)) > 0 and (opts.get("refine") or len(gspec["shape"]) == 1):
        # 1d + modes > 0 raises in the first handle call, which aborts the solver run before anything is
        # stored (that path is exercised by the directly driven cases)
        opts["perturbation_modes"] = 0
    interrupts = rng.choice([0.1, 0.25, 0.05, [0.0, 0.02, 0.3, 0.31], "geometric", "constant_late", "logarithmic", 1])
    if interrupts == "geometric":
        interrupts = {"kind": "geometric", "scale": 0.01, "factor": 2.0}
    elif interrupts == "constant_late":  # recording starts after an equilibration period
        interrupts = {"kind": "constant", "dt": 0.1, "t_start": 0.15}
    elif interrupts == "logarithmic":
        interrupts = {"kind": "logarithmic", "dt_initial": 0.02, "factor": 2.0}
    return {"grid": gspec, "initial": frame, "options": opts, "interrupts": interrupts,
            "t_range": rng.choice([0.35, 0.5, 0.6]), "dt": rng.choice([0.01, 0.005]),
            "diffusivity": rng.choice([1.0, 0.5]), "method": rng.choice(METHODS)}


def make_interrupts(spec):
    if isinstance(spec, dict):
        from pde.trackers.interrupts import ConstantInterrupts, GeometricInterrupts, LogarithmicInterrupts
        if spec["kind"] == "geometric":
            return GeometricInterrupts(spec["scale"], spec["factor"])
        if spec["kind"] == "constant":
            return ConstantInterrupts(spec["dt"], t_start=spec["t_start"])
        return LogarithmicInterrupts(spec["dt_initial"], spec["factor"])
    return spec


def run_solver_case(case, tmpdir=None):
    import logging
    from pde import DiffusionPDE, MemoryStorage
    from droplets import DropletTracker, LengthScaleTracker
    from droplets.emulsions import EmulsionTimeCourse
    from droplets.image_analysis import get_length_scale
    grid = make_grid(case["grid"])
    f0 = make_frame(grid, case["initial"])
    w = quiet().__enter__()
    try:
        storage = MemoryStorage()
        filename = os.path.join(tmpdir, "solver.hdf5") if tmpdir is not None else None
        tr = DropletTracker(make_interrupts(case["interrupts"]), filename=filename, **realise(case["options"]))
        lt = LengthScaleTracker(make_interrupts(case["interrupts"]), method=case["method"])
        eq = DiffusionPDE(diffusivity=case["diffusivity"])
        try:
            eq.solve(f0, t_range=case["t_range"], dt=case["dt"], backend="numpy",
                     tracker=[tr, storage.tracker(make_interrupts(case["interrupts"])), lt])
            online = ("ok", canon_tc(tr.data))
        except Exception as e:  # noqa
            online = ("err", type(e).__name__)
        try:
            off = EmulsionTimeCourse.from_storage(storage, progress=False, **offline_kwargs(realise(case["options"])))
            offline = ("ok", canon_tc(off))
        except Exception as e:  # noqa
            offline = ("err", type(e).__name__)
        roundtrip = None
        if filename is not None and online[0] == "ok" and os.path.exists(filename):
            back = EmulsionTimeCourse.from_file(filename, progress=False)
            roundtrip = canon_tc(back)
            roundtrip["times"] = [float(t) for t in roundtrip["times"]]
            os.remove(filename)
        direct = []
        for f in storage:
            try:
                direct.append(("ok", canon_number(get_length_scale(f, method=case["method"]))))
            except Exception as e:  # noqa
                direct.append(("err", type(e).__name__))
    finally:
        w.__exit__(None, None, None)
    return {"online": online, "offline": offline, "roundtrip": roundtrip, "storage_times": list(storage.times),
            "ls_times": list(lt.times), "ls_values": [canon_number(v) for v in lt.length_scales], "ls_direct": direct,
            "file_written": roundtrip is not None}


def judge_solver_case(case, obs):
    fails = []
    on, off = obs["online"], obs["offline"]
    if on[0] != off[0] or (on[0] == "err" and on[1] != off[1]):
        fails.append(f"solver run: online {on[0]}/{on[1] if on[0] == 'err' else ''} vs offline {off[0]}")
    elif on[0] == "ok":
        if on[1]["times"] != off[1]["times"] or on[1]["times"] != obs["storage_times"]:
            fails.append(f"solver run: times differ: tracker {on[1]['times']}, offline {off[1]['times']}")
        elif on[1]["emulsions"] != off[1]["emulsions"]:
            i = next(i for i, (a, b) in enumerate(zip(on[1]["emulsions"], off[1]["emulsions"])) if a != b) \
                if len(on[1]["emulsions"]) == len(off[1]["emulsions"]) else -1
            fails.append(f"solver run: recorded emulsions differ from offline analysis (first at frame {i})")
        rt = obs["roundtrip"]
        if rt is None or rt["emulsions"] != on[1]["emulsions"] or rt["times"] != [float(t) for t in on[1]["times"]]:
            fails.append("solver run: file written by finalize does not read back equal")
    if obs["ls_times"] != obs["storage_times"] or len(obs["ls_values"]) != len(obs["ls_times"]):
        fails.append("solver run: length-scale tracker lists not aligned with the handled frames")
    for i, (v, d) in enumerate(zip(obs["ls_values"], obs["ls_direct"])):
        want = d[1] if d[0] == "ok" else ("nan",)
        if v != want:
            fails.append(f"solver run: frame {i}: length tracker recorded {v}, analysis gives {d}")
            break
    return fails


# ---------------------------------------------------------------------------------------
# long histories: tracker -> finalize -> file -> from_file
# ---------------------------------------------------------------------------------------
def run_long_history(n: int, seed: int, tmpdir: str):
    """n frames on an 8-cell 1-d grid driven through DropletTracker.handle, written by finalize, read back."""
    from pde import ScalarField, UnitGrid
    from droplets import DropletTracker
    from droplets.emulsions import EmulsionTimeCourse
    grid = UnitGrid([8], periodic=False)
    x = np.arange(8) + 0.5
    shapes = [np.zeros(8)]  # no droplet
    for lo, hi in ((1, 3), (2, 6), (4, 7), (0, 2), (5, 8)):
        shapes.append(((x > lo) & (x < hi)).astype(float))  # one droplet, five different ones
    both = ((x > 0) & (x < 2)) | ((x > 4) & (x < 7))
    shapes.append(both.astype(float))  # two droplets
    fields = [ScalarField(grid, d) for d in shapes]
    rng = random.Random(seed)
    kinds = [rng.choice([0, 0, 0, 1, 2, 3, 4, 5, 6]) for _ in range(n)]
    times = [0.25 * i for i in range(n)]
    path = os.path.join(tmpdir, f"long_{n}.hdf5")
    with quiet():
        tr = DropletTracker(1, filename=path)
        for k, t in zip(kinds, times):
            tr.handle(fields[k], t)
        recorded = canon_tc(tr.data)
        tr.finalize()
        back = EmulsionTimeCourse.from_file(path, progress=False)
        read = canon_tc(back)
    os.remove(path)
    return {"n": n, "recorded": recorded, "read": read, "times_fed": times}


def judge_long_history(obs):
    n = obs["n"]
    rec, rd = obs["recorded"], obs["read"]
    if len(rec["times"]) != n or [float(t) for t in rec["times"]] != obs["times_fed"]:
        return [f"{n} frames handled, recorded times are not the fed ones ({len(rec['times'])} recorded)"]
    if len(rd["times"]) != n or len(rd["emulsions"]) != n:
        return [f"{n} frames recorded, file reads back {len(rd['times'])} times / {len(rd['emulsions'])} emulsions"]
    for i in range(n):
        if float(rd["times"][i]) != float(rec["times"][i]) or rd["emulsions"][i] != rec["emulsions"][i]:
            return [f"history of {n} frames: the file written by finalize reads back different at frame {i}: recorded "
                    f"(t={rec['times'][i]}, {[(c, bytes_to_floats(x)) for c, _, x in rec['emulsions'][i]]}), read "
                    f"(t={float(rd['times'][i])}, {[(c, bytes_to_floats(x)) for c, _, x in rd['emulsions'][i]]})"]
    return []


# ---------------------------------------------------------------------------------------
# state on disk across runs: the same filename used again
# ---------------------------------------------------------------------------------------
REUSE_CASES = (
    # what is at the path before the run that is judged, and how long the judged history is
    [{"before": {"kind": "tracker", "frames": n1}, "frames": n2, "via": "handle"}
     for n1, n2 in ((5, 2), (5, 0), (3, 3), (2, 6), (12, 1), (1, 0))]
    + [{"before": {"kind": k}, "frames": n2, "via": "handle"}
       for k, n2 in (("emulsion_file", 2), ("tracklist_file", 0), ("text_file", 2), ("empty_file", 1), ("nothing", 2))]
    + [{"before": {"kind": "solver", "t_range": 0.55}, "t_range": 0.25, "via": "solver"},
       {"before": {"kind": "solver", "t_range": 0.15}, "t_range": 0.45, "via": "solver"}]
)


def _tiny_fields():
    from pde import ScalarField, UnitGrid
    grid = UnitGrid([8], periodic=False)
    x = np.arange(8) + 0.5
    shapes = [np.zeros(8)] + [((x > lo) & (x < hi)).astype(float) for lo, hi in ((1, 3), (2, 6), (4, 7), (0, 2), (5, 8))]
    return grid, [ScalarField(grid, d) for d in shapes]


def run_reuse_case(case, seed: int, tmpdir: str):
    """Something is at the path already (the file of an earlier, possibly LONGER run of a tracker, a file of another
    kind, nothing); then a tracker with that filename records a history and finalizes; the file is read back."""
    from pde import DiffusionPDE
    from droplets import DropletTracker, Emulsion, SphericalDroplet
    from droplets.droplet_tracks import DropletTrackList
    from droplets.emulsions import EmulsionTimeCourse
    grid, fields = _tiny_fields()
    rng = random.Random(seed)
    path = os.path.join(tmpdir, "reused.hdf5")
    if os.path.exists(path):
        os.remove(path)

    def drive(n, t0):
        tr = DropletTracker(1, filename=path)
        for i in range(n):
            tr.handle(fields[rng.randrange(len(fields))], t0 + 0.5 * i)
        tr.finalize()
        return tr

    def solve(t_range):
        tr = DropletTracker(0.1, filename=path, threshold=0.4)
        DiffusionPDE(diffusivity=0.2).solve(fields[2], t_range=t_range, dt=0.01, backend="numpy", tracker=[tr])
        return tr

    with quiet():
        b = case["before"]
        if b["kind"] == "tracker":
            drive(b["frames"], 100.0)
        elif b["kind"] == "solver":
            solve(b["t_range"])
        elif b["kind"] == "emulsion_file":
            Emulsion([SphericalDroplet([3.0], 1.5), SphericalDroplet([6.0], 1.0)]).to_file(path)
        elif b["kind"] == "tracklist_file":
            etc = EmulsionTimeCourse([Emulsion([SphericalDroplet([3.0], 1.5)]), Emulsion([SphericalDroplet([3.25], 1.5)])],
                                     times=[0.0, 1.0])
            DropletTrackList.from_emulsion_time_course(etc, progress=False).to_file(path)
        elif b["kind"] == "text_file":
            with open(path, "w") as fp:
                fp.write("not an HDF5 file\n" * 20)
        elif b["kind"] == "empty_file":
            open(path, "w").close()
        try:
            tr = solve(case["t_range"]) if case["via"] == "solver" else drive(case["frames"], 0.0)
            recorded = canon_tc(tr.data)
            read = canon_tc(EmulsionTimeCourse.from_file(path, progress=False))
            out = {"recorded": recorded, "read": read, "error": None}
        except Exception as e:  # noqa
            out = {"recorded": None, "read": None, "error": type(e).__name__}
    if os.path.exists(path):
        os.remove(path)
    return out


def judge_reuse_case(case, obs):
    what = f"file at the path before: {case['before']}"
    if obs["error"]:
        return [f"{what}: recording / finalize / from_file raised {obs['error']}"]
    rec, rd = obs["recorded"], obs["read"]
    if len(rd["times"]) != len(rec["times"]) or len(rd["emulsions"]) != len(rec["emulsions"]):
        return [f"{what}: {len(rec['times'])} frames recorded, the file written by finalize reads back "
                f"{len(rd['times'])} frames (times read: {[float(t) for t in rd['times']][:12]})"]
    for i, (tr_, er, td, ed) in enumerate(zip(rec["times"], rec["emulsions"], rd["times"], rd["emulsions"])):
        if float(tr_) != float(td) or er != ed:
            return [f"{what}: frame {i} recorded (t={tr_}) reads back different (t={float(td)})"]
    return []


# ---------------------------------------------------------------------------------------
# Coq literals
# ---------------------------------------------------------------------------------------
class Ids:
    def __init__(self):
        self.d = {}

    def __call__(self, key) -> int:
        return self.d.setdefault(key, len(self.d))


def qt(t) -> str:
    """Exact Q literal of a time code (python / numpy integer or float)."""
    if isinstance(t, (int, np.integer)) and not isinstance(t, bool):
        return vlib.qlit(Fraction(int(t)))
    return vlib.qlit(Fraction(float(t)))


def value_key(v):
    return repr(v) if not callable(v) else "<callable>"


def droplet_case_literal(case, obs, vid: Ids, eid: Ids, xid: Ids, locate_sig):
    """(user options, expected effective options (property text), history, per-frame direct results,
    online record, offline record)."""
    opts = realise(case["options"])
    user = [(k, vid(value_key(v))) for k, v in sorted(opts.items())]
    src = source_arg(case["source"])
    user.append(("source", vid(value_key(src))))
    # effective options prescribed by the property text: every option of locate_droplets after the field, the
    # paired setting if the user gave one, else the default of locate_droplets
    eff = []
    kw = offline_kwargs(opts)
    for name, default in locate_sig:
        eff.append((name, vid(value_key(kw[name] if name in kw else default))))
    res = lambda r: f"(Ok {eid(r[1])})" if r[0] == "ok" else f"(Err {xid(r[1])})"  # noqa
    hist = vlib.listlit([f"({i}, {qt(t)})" for i, t in enumerate(obs.get("times_fed", case["times"]))])
    table = vlib.listlit([res(r) for r in obs["direct"]])

    def tc(o):
        if o[0] == "err":
            return f"(Err {xid(o[1])})"
        return (f"(Ok ({vlib.listlit([str(eid(e)) for e in o[1]['emulsions']])}, "
                f"{vlib.listlit([qt(t) for t in o[1]['times']])}))")

    off = obs["offline"]["fields"]
    userl = vlib.listlit([f'("{k}", {v})' for k, v in user])
    effl = vlib.listlit([f'("{k}", {v})' for k, v in eff])
    return f"(({userl}, {effl}, {hist}, {table}, {tc(obs['online'])}, {tc(off)}) : case_t)"


def number_literal(c) -> str:
    if c[0] == "fin":
        return f"(Fin {vlib.qlit(Fraction(c[1]))})"
    if c[0] == "nan":
        return "NaN"
    if c[0] == "inf":
        return "PInf" if c[1] > 0 else "NInf"
    return "Other"


def length_case_literal(case, obs, vid: Ids, xid: Ids):
    user = [(k, vid(value_key(v))) for k, v in sorted(case["options"].items())]
    user.append(("source", vid(value_key(source_arg(case["source"])))))
    method = case["options"].get("method", "structure_factor_mean")
    hist = vlib.listlit([f"({i}, {qt(t)})" for i, t in enumerate(obs.get("times_fed", case["times"]))])
    table = vlib.listlit([f"(Ok {number_literal(r[1])})" if r[0] == "ok" else f"(Err {xid(r[1])})"
                          for r in obs["direct"]])
    rec = (f"({vlib.listlit([qt(t) for t in obs['times']])}, "
           f"{vlib.listlit([number_literal(v) for v in obs['values']])})")
    userl = vlib.listlit([f'("{k}", {v})' for k, v in user])
    return f"(({userl}, {vid(value_key(method))}, {hist}, {table}, {blit_opt(obs['raised'], xid)}, {rec}) : case_t)"


def blit_opt(raised, xid):
    return "None" if raised is None else f"(Some {xid(raised)})"


HEADER = """From Coq Require Import String List Bool Arith QArith ZArith.
Import ListNotations.
From PD Require Import Model.Online Model.Parallel Gen.Gen_glue Proofs.C14.
Local Open Scope nat_scope.
Local Open Scope string_scope.

(* option values and literals are numbered by the harness; `parse` maps the text of a default to its number *)
Definition parse_table : list (string * nat) := PARSE_TABLE.
Definition parse (s : string) : nat := match lookup s parse_table with Some n => n | None => 1000000 + String.length s end.
Definition user_of (l : list (string * nat)) : kwdict nat := fun k => lookup k l.

Definition opt_nat_eqb (a b : option nat) : bool :=
  match a, b with Some x, Some y => Nat.eqb x y | None, None => true | _, _ => false end.
Fixpoint opts_eqb (a : list (string * option nat)) (b : list (string * nat)) : bool :=
  match a, b with
  | [], [] => true
  | (k, v) :: a', (k', v') :: b' => String.eqb k k' && opt_nat_eqb v (Some v') && opts_eqb a' b'
  | _, _ => false
  end.
Definition q_eqb (a b : Q) : bool := Z.eqb (Qnum a) (Qnum b) && Pos.eqb (Qden a) (Qden b).
Fixpoint list_eqb {A} (e : A -> A -> bool) (a b : list A) : bool :=
  match a, b with
  | [], [] => true
  | x :: a', y :: b' => e x y && list_eqb e a' b'
  | _, _ => false
  end.
"""

HEADER_DROPLET = HEADER + """
(* a frame is its index in the history; the analysis of frame i with the prescribed options is entry i of the
   table of direct locate_droplets calls; with any other options the model's lookup fails (Err 999999) *)
Definition case_t : Type :=
  list (string * nat) * list (string * nat) * list (nat * Q) * list (res nat nat)
  * res nat (list nat * list Q) * res nat (list nat * list Q).

Definition rec_eqb (m : res (failure nat) (tc nat)) (r : res nat (list nat * list Q)) : bool :=
  match m, r with
  | Ok s, Ok (es, ts) => list_eqb Nat.eqb (tc_emulsions s) es && list_eqb q_eqb (tc_times s) ts
  | Err (Raised _ e), Err e' => Nat.eqb e e'
  | _, _ => false
  end.

Definition agree (c : case_t) : bool :=
  let '(user, eff, history, table, online_rec, offline_rec) := c in
  let u := user_of user in
  let extract := fun (src : option nat) (i : nat) => @Ok nat nat i in
  let locate := fun (opts : list (string * option nat)) (i : nat) =>
                  if opts_eqb opts eff then match nth_error table i with Some r => r | None => Err 999998 end
                  else Err 999999 in
  opts_eqb (tracker_options nat parse G u) eff
  && opts_eqb (offline_options nat parse G O_serial (same_settings nat u)) eff
  && opts_eqb (offline_options nat parse G O_parallel (same_settings nat u)) eff
  && opt_nat_eqb (tracker_source nat parse G u) (lookup "source" user)
  && rec_eqb (online nat parse nat nat nat nat extract locate G u tc_empty history) online_rec
  && rec_eqb (from_storage nat parse nat nat nat locate G O_serial (same_settings nat u)
                           history) offline_rec.
"""

HEADER_LENGTH = HEADER + """
Inductive num : Type := Fin (q : Q) | NaN | PInf | NInf | Other.
Definition num_eqb (a b : num) : bool :=
  match a, b with
  | Fin x, Fin y => q_eqb x y
  | NaN, NaN | PInf, PInf | NInf, NInf => true
  | _, _ => false
  end.

Definition case_t : Type :=
  list (string * nat) * nat * list (nat * Q) * list (res nat num) * option nat * (list Q * list num).

Definition agree (c : case_t) : bool :=
  let '(user, method, history, table, raised, (times, values)) := c in
  let u := user_of user in
  let extract := fun (src : option nat) (i : nat) => @Ok nat nat i in
  let analysis := fun (kw : list (string * option nat)) (i : nat) =>
                    if opts_eqb kw [("method", method)]
                    then match nth_error table i with Some r => r | None => Err 999998 end
                    else Err 999999 in
  match ls_online nat parse nat nat nat num NaN extract analysis L u history, raised with
  | Ok s, None => list_eqb q_eqb (ls_times num s) times && list_eqb num_eqb (ls_values num s) values
  | Err e, Some e' => Nat.eqb e e'
  | _, _ => false
  end.
"""


def parse_table_literal(vid: Ids, extra_literals):
    """Texts of defaults / literals that occur in the generated tables -> value numbers."""
    items = []
    for text in extra_literals:
        try:
            v = eval(text, {"math": math})  # texts come from the signatures of /repo (defaults): literals only
        except Exception:  # noqa
            continue
        items.append(f'("{text.replace(chr(34), chr(34) * 2)}", {vid(value_key(v))})')
    return vlib.listlit(items)


def default_texts():
    """Default texts of the signatures the model parses (read from the implementation)."""
    from droplets import DropletTracker, LengthScaleTracker
    from droplets.emulsions import EmulsionTimeCourse
    from droplets.image_analysis import locate_droplets
    texts = set()
    for fn in (DropletTracker.__init__, LengthScaleTracker.__init__, EmulsionTimeCourse.from_storage.__func__,
               locate_droplets):
        src = inspect.signature(fn)
        for p in src.parameters.values():
            if p.default is not inspect.Parameter.empty:
                texts.add(repr(p.default))
    texts |= {"[]", "math.nan"}
    return sorted(texts)


def locate_signature():
    from droplets.image_analysis import locate_droplets
    ps = list(inspect.signature(locate_droplets).parameters.values())[1:]
    return [(p.name, p.default) for p in ps]


# ---------------------------------------------------------------------------------------
# corpus: hand-picked histories (always run)
# ---------------------------------------------------------------------------------------
def corpus():
    g = {"kind": "unit", "shape": [12, 12], "periodic": True}
    e2 = {"kind": "emulsion", "droplets": [[[3.0, 3.0], 2.25, 1.0], [[8.5, 8.0], 2.5, 1.0]]}
    e1 = {"kind": "emulsion", "droplets": [[[6.0, 6.0], 3.0, 1.0]]}
    small = {"kind": "emulsion", "droplets": [[[3.0, 3.0], 1.25, 0.5], [[8.0, 8.0], 3.0, 1.0]]}
    empty = {"kind": "emulsion", "droplets": []}
    none = {"kind": "none"}
    return [
        {"grid": g, "frames": [], "times": [], "options": {}, "source": none},
        {"grid": g, "frames": [empty, empty], "times": [0.0, 1.0], "options": {}, "source": none},
        {"grid": g, "frames": [e2, empty, e1], "times": [0.5, 0.25, 7.0], "options": {"minimal_radius": 2.4},
         "source": none},
        {"grid": g, "frames": [small, e2], "times": [3, 4], "options": {"minimal_radius": 2.0}, "source": none},
        {"grid": g, "frames": [e2, e1], "times": [0.0, 0.1], "options": {"refine": True}, "source": none},
        {"grid": g, "frames": [e2, e1], "times": [0.0, 0.1],
         "options": {"refine": True, "refine_args": {"vmin": None, "vmax": None}, "perturbation_modes": 2},
         "source": none},
        {"grid": g, "frames": [e1, e2], "times": [1.0, 2.0], "options": {"perturbation_modes": 2}, "source": none},
        {"grid": g, "frames": [e2, {"kind": "noise", "seed": 5, "lo": 0.0, "hi": 1.0}], "times": [0.0, 1.0],
         "options": {"threshold": 0.8}, "source": {"kind": "int", "index": 1}},
        {"grid": g, "frames": [e2, e1], "times": [0.0, 1.0], "options": {"threshold": "otsu", "minimal_radius": 1.0},
         "source": {"kind": "callable"}},
        {"grid": {"kind": "unit", "shape": [16], "periodic": False},
         "frames": [{"kind": "emulsion", "droplets": [[[7.0], 2.5, 1.0]]}], "times": [0.0],
         "options": {"perturbation_modes": 1}, "source": none},
    ]


def corpus_systematic():
    """Every analysis option of DropletTracker non-default one at a time and in combinations (incl. modes > 0 with
    refine off / on), on a 2-d and on a 1-d grid (modes > 0 in 1-d raises offline: the tracker must too); frames
    without droplets first / interior / last / everywhere; time code 0 first / interior / last, negative and
    non-integer codes; a time course handed in by the caller."""
    g2 = {"kind": "unit", "shape": [12, 12], "periodic": True}
    g1 = {"kind": "unit", "shape": [16], "periodic": False}
    e2 = {"kind": "emulsion", "droplets": [[[3.0, 3.0], 2.25, 1.0], [[8.5, 8.0], 2.5, 1.0]]}
    e1 = {"kind": "emulsion", "droplets": [[[6.0, 6.0], 3.0, 1.0]]}
    d1 = {"kind": "emulsion", "droplets": [[[7.0], 2.5, 1.0]]}
    d2 = {"kind": "emulsion", "droplets": [[[3.0], 1.5, 0.5], [[11.0], 2.5, 1.0]]}
    empty = {"kind": "emulsion", "droplets": []}
    none = {"kind": "none"}
    singles = [{"threshold": 0.3}, {"threshold": "mean"}, {"minimal_radius": 2.4}, {"refine": True},
               {"refine_args": {"vmin": None, "vmax": None}}, {"perturbation_modes": 2}]
    combos = [{"perturbation_modes": 2, "refine": False}, {"perturbation_modes": 1, "refine": True},
              {"refine": True, "refine_args": {"tolerance": 1e-3}, "minimal_radius": 1.0},
              {"threshold": "extrema", "minimal_radius": 2.4, "refine": True, "refine_args": {"vmin": None, "vmax": None},
               "perturbation_modes": 2}]
    out = []
    for o in singles + combos:
        out.append({"grid": g2, "frames": [e2, empty, e1], "times": [0.5, 1.5, 2.5], "options": o, "source": none})
        out.append({"grid": g1, "frames": [d1, d2], "times": [0.5, 1.5], "options": o, "source": none})
    for frames in ([empty, e2, e1], [e2, empty, e1], [e2, e1, empty], [empty, empty, empty]):
        out.append({"grid": g2, "frames": frames, "times": [1.0, 2.0, 3.0], "options": {"minimal_radius": 1.0}, "source": none})
    for times, ty in (([0, 1.5, 2.5], "py"), ([-1.5, 0, 2.5], "py"), ([-2.5, -1.5, 0], "py"), ([-1.5, 0.0, 2.5], "float64"),
                      ([3, 2, 0], "int64"), ([-3.25, -7.5, -0.125], "float32"), ([0.0, 0.0, 0.0], "py")):
        out.append({"grid": g2, "frames": [e2, e1, empty], "times": times, "time_type": ty, "options": {}, "source": none})
    for via, o in (("ctor", {"minimal_radius": 2.4}), ("tracker_method", {}), ("ctor", {})):
        for k in (0, 2):
            out.append({"grid": g2, "frames": [e2, empty], "times": [0.0, 1.0], "options": o, "source": none,
                        "initial": {"frames": [e1, e2][:k], "times": [-2.0, -1.0][:k], "via": via}})
    for dt in ("float32", "int", "bool"):
        out.append({"grid": g2, "frames": [dict(e2, dtype=dt), dict(empty, dtype=dt), dict(e1, dtype=dt)],
                    "times": [0.0, 1.0, 2.0], "options": {"threshold": 0.5 if dt != "int" else 2}, "source": none})
    return out


def empty_positions(case, obs):
    """Where the frames without (recorded) droplets sit in the history."""
    if obs["online"][0] != "ok" or not obs["online"][1]["emulsions"]:
        return "n/a"
    e = [len(x) == 0 for x in obs["online"][1]["emulsions"]]
    if all(e):
        return "all"
    tags = [t for t, c in (("first", e[0]), ("interior", any(e[1:-1])), ("last", e[-1] and len(e) > 1)) if c]
    return "+".join(tags) or "none"


def corpus_length():
    g = {"kind": "unit", "shape": [12, 12], "periodic": True}
    e2 = {"kind": "emulsion", "droplets": [[[3.0, 3.0], 2.25, 1.0], [[8.5, 8.0], 2.5, 1.0]]}
    zero = {"kind": "const", "value": 0.0}
    one = {"kind": "const", "value": 1.0}
    none = {"kind": "none"}
    out = []
    for m in METHODS:
        out.append({"grid": g, "frames": [e2, zero, one, e2], "times": [0.0, 1.0, 2.0, 3.0], "options": {"method": m},
                    "source": none})
        out.append({"grid": {"kind": "polar", "radius": 8.0, "shape": 12}, "frames": [one, zero],
                    "times": [0.0, 1.0], "options": {"method": m, "verbose": True}, "source": none})
    out.append({"grid": g, "frames": [e2, e2], "times": [0.0, 1.0], "options": {}, "source": {"kind": "int", "index": 1}})
    out.append({"grid": g, "frames": [], "times": [], "options": {}, "source": none})
    return out


# ---------------------------------------------------------------------------------------
# check
# ---------------------------------------------------------------------------------------
def frames_summary(case):
    return [f["kind"] if f["kind"] != "emulsion" else f"emulsion{len(f['droplets'])}" for f in case["frames"]]


def check(ctx: vlib.Ctx) -> int:
    rng = random.Random(ctx.seed)
    ok, fresh = vlib.prove_with_fallback(ctx, ["Proofs/C14.vo"], gens=["Gen_glue"])
    ctx.tie.append("correspondence: tracker records, offline results and the options locate_droplets runs with, compared "
                   "inside Coq with Model/Online.v over the " + ("regenerated" if fresh else "GOLDEN") +
                   " forwarding tables (Gen_glue)" + ("" if fresh else
                                                      " -- the translator did not carry the current source, this "
                                                      "correspondence is the tie; every disagreement is a violation"))
    gen_ok = True  # the Coq side evaluates Gen.Gen_glue as it is in the build directory (fresh or golden)
    tmpdir = ctx.casedir / "tmp"
    tmpdir.mkdir(parents=True, exist_ok=True)
    violations = []

    # ---- droplet tracker: corpus + stream
    n_stream = ctx.scale(350, 2500)
    cases = corpus() + corpus_systematic() + [gen_case(rng) for _ in range(n_stream)]
    vid, eid, xid = Ids(), Ids(), Ids()
    lsig = locate_signature()
    literals = []
    for k, case in enumerate(cases):
        obs = run_droplet_case(case, str(tmpdir) if (k % 3 == 0 or k < 12) else None)
        fails = judge_droplet_case(case, obs)
        ctx.case(["droplet", case], nontrivial=len(case["frames"]) > 0)
        ctx.count("history_length", len(case["frames"]))
        ctx.count("dim", len(case["grid"]["shape"]) if "shape" in case["grid"] and isinstance(case["grid"]["shape"], list) else 1)
        ctx.count("source", case["source"]["kind"])
        ctx.count("image_dtype", next((f.get("dtype") for f in case["frames"] if f.get("dtype")), "float64"))
        ctx.count("time_code_type", case.get("time_type", "py"))
        ctx.count("time_code_zero", "/".join(p for p, c in (("first", case["times"][:1] == [0]),
                                                             ("interior", 0 in case["times"][1:-1]),
                                                             ("last", len(case["times"]) > 1 and case["times"][-1] == 0)) if c) or "none")
        ctx.count("time_codes_negative_or_fractional", any(t < 0 or float(t) != int(t) for t in case["times"]))
        ctx.count("frames_without_droplets_at", empty_positions(case, obs))
        ctx.count("filename", "set" if (k % 3 == 0 or k < 12) else "None")
        ctx.count("emulsion_timecourse", "None" if case.get("initial") is None else
                  f"given({len(case['initial']['frames'])} frames, via {case['initial']['via']})")
        ctx.count("minimal_radius", json.dumps(case["options"].get("minimal_radius", "<default>")))
        ctx.count("refine_args", json.dumps(case["options"].get("refine_args", "<default>"), sort_keys=True)[:60])
        ctx.count("options_given", len(case["options"]))
        ctx.count("modes>0 x refine", f"{realise(case['options'].get('perturbation_modes', 0)) > 0} x "
                                      f"{case['options'].get('refine', '<default>')}")
        ctx.count("tracker_option_objects_after_history", "unchanged" if obs.get("options_unchanged", True) else "modified")
        ctx.count("threshold", json.dumps(case["options"].get("threshold", "<default>")))
        ctx.count("refine", case["options"].get("refine", "<default>"))
        ctx.count("modes", json.dumps(case["options"].get("perturbation_modes", "<default>")))
        ctx.count("online_outcome", obs["online"][0] if obs["online"][0] == "ok" else obs["online"][1])
        for f in case["frames"]:
            ctx.count("frame_kind", f["kind"] if f["kind"] != "emulsion" else f"emulsion_{len(f['droplets'])}")
        if obs["online"][0] == "ok":
            ctx.count("droplets_recorded_total", sum(len(e) for e in obs["online"][1]["emulsions"]) and "some" or "none")
        if k < 2 or k == 12:
            ctx.sample({"droplet_case": {**case, "frames": frames_summary(case)},
                        "recorded_times": obs["online"][1]["times"] if obs["online"][0] == "ok" else obs["online"],
                        "droplets_per_frame": [len(e) for e in obs["online"][1]["emulsions"]] if obs["online"][0] == "ok" else None})
        for f in fails[:1]:
            violations.append({"what": "DropletTracker vs offline analysis: " + f, "input": case, "found": True,
                               "kind": "droplet"})
        literals.append(droplet_case_literal(case, obs, vid, eid, xid, lsig))

    # ---- length-scale tracker
    lcases = corpus_length() + [gen_length_case(rng) for _ in range(ctx.scale(150, 800))]
    lliterals = []
    for k, case in enumerate(lcases):
        obs = run_length_case(case, str(tmpdir) if k % 3 == 0 else None)
        fails = judge_length_case(case, obs)
        ctx.case(["length", case], nontrivial=len(case["frames"]) > 0)
        ctx.count("length_method", case["options"].get("method", "<default>"))
        ctx.count("length_grid", case["grid"]["kind"])
        ctx.count("length_image_dtype", next((f.get("dtype") for f in case["frames"] if f.get("dtype")), "float64"))
        ctx.count("length_time_code_type", case.get("time_type", "py"))
        if obs.get("finalize_error") and suspected_length_finalize(case):
            ctx.count("SUSPECTED (not judged)", f"S14a finalize raised {obs['finalize_error']}")
        for v, d in zip(obs["values"], obs["direct"]):
            ctx.count("length_value_kind", v[0] if d[0] == "ok" else f"nan_after_{d[1]}")
        if k in (0, 1):
            ctx.sample({"length_case": {**case, "frames": frames_summary(case)}, "recorded": obs["values"]})
        for f in fails[:1]:
            violations.append({"what": "LengthScaleTracker: " + f, "input": case, "found": True, "kind": "length"})
        lliterals.append(length_case_literal(case, obs, vid, xid))

    # ---- solver runs
    for k in range(ctx.scale(30, 120)):
        case = gen_solver_case(rng)
        obs = run_solver_case(case, str(tmpdir))
        fails = judge_solver_case(case, obs)
        ctx.case(["solver", case])
        ctx.count("solver_frames", len(obs["storage_times"]))
        ctx.count("solver_interrupts", case["interrupts"]["kind"] if isinstance(case["interrupts"], dict) else
                  ("list" if isinstance(case["interrupts"], list) else case["interrupts"]))
        if k == 0:
            ctx.sample({"solver_case": case, "times": obs["storage_times"],
                        "droplets_per_frame": [len(e) for e in obs["online"][1]["emulsions"]] if obs["online"][0] == "ok" else None})
        for f in fails[:1]:
            violations.append({"what": f, "input": case, "found": True, "kind": "solver"})

    # ---- long histories through finalize -> file -> from_file (key order of the file format)
    for n in ([1100] if ctx.quick else [1100, 10010]):
        obs = run_long_history(n, ctx.seed, str(tmpdir))
        fails = judge_long_history(obs)
        ctx.case(["long_history", n, ctx.seed])
        ctx.count("long_history_frames", n)
        ctx.count("long_history_droplets_per_frame",
                  "/".join(str(sum(1 for e in obs["recorded"]["emulsions"] if len(e) == k)) for k in (0, 1, 2)) + " (0/1/2)")
        for f in fails[:1]:
            violations.append({"what": "DropletTracker finalize/from_file: " + f,
                               "input": {"frames": n, "seed": ctx.seed, "grid": "UnitGrid([8])"}, "found": True,
                               "kind": "long"})

    # ---- the same filename used again: what was on disk before must not show in what is read back
    for k, case in enumerate(REUSE_CASES):
        obs = run_reuse_case(case, ctx.seed + k, str(tmpdir))
        fails = judge_reuse_case(case, obs)
        ctx.case(["reuse", case, ctx.seed])
        ctx.count("file_at_path_before_run", case["before"]["kind"] + (f"({case['before']['frames']} frames)" if "frames" in case["before"] else ""))
        ctx.count("frames_recorded_over_existing_file", len(obs["recorded"]["times"]) if obs["recorded"] else obs["error"])
        for f in fails[:1]:
            violations.append({"what": "DropletTracker finalize over an existing file: " + f,
                               "input": {**case, "seed": ctx.seed + k, "grid": "UnitGrid([8])"}, "found": True,
                               "kind": "reuse"})

    # ---- correspondence inside Coq (needs the generated tables)
    if gen_ok and ok:
        ptab = parse_table_literal(vid, default_texts())
        bad = vlib.run_cases(ctx, "droplet", HEADER_DROPLET.replace("PARSE_TABLE", ptab), literals, "agree", shard=40)
        if bad:
            ctx.broken.append(f"correspondence DropletTracker: model (Model/Online.v over the generated tables) and "
                              f"implementation differ on cases {bad[:6]}")
            for i in bad[:2]:
                if not any(v["input"] is cases[i] for v in violations):
                    ctx.notes.append(f"disagreeing droplet case {i}: {json.dumps(cases[i], default=str)[:600]}")
                    violations.append({"what": "DropletTracker: the implementation's record / options differ from "
                                               "Model/Online.v over the forwarding tables in use (compared inside Coq)",
                                       "input": cases[i], "found": True, "kind": "droplet"})
        bad = vlib.run_cases(ctx, "length", HEADER_LENGTH.replace("PARSE_TABLE", ptab), lliterals, "agree", shard=40)
        if bad:
            ctx.broken.append(f"correspondence LengthScaleTracker: model and implementation differ on cases {bad[:6]}")
            for i in bad[:2]:
                ctx.notes.append(f"disagreeing length case {i}: {json.dumps(lcases[i], default=str)[:600]}")
                if not any(v["input"] is lcases[i] for v in violations):
                    violations.append({"what": "LengthScaleTracker: the implementation's record differs from "
                                               "Model/Online.v over the handler facts in use (compared inside Coq)",
                                       "input": lcases[i], "found": True, "kind": "length"})

    # ---- something no longer checks but the stream found nothing: search harder
    if ctx.broken and not violations:
        rng2 = random.Random(ctx.seed + 1)
        for k in range(ctx.scale(400, 2000)):
            case = gen_case(rng2, max_frames=4)
            fails = judge_droplet_case(case, run_droplet_case(case))
            if fails:
                violations.append({"what": "DropletTracker vs offline analysis: " + fails[0], "input": case,
                                   "found": True, "kind": "droplet"})
                break
            if k % 4 == 0:
                lcase = gen_length_case(rng2)
                fails = judge_length_case(lcase, run_length_case(lcase))
                if fails:
                    violations.append({"what": "LengthScaleTracker: " + fails[0], "input": lcase, "found": True,
                                       "kind": "length"})
                    break
    for sp in SUSPECTED:
        ctx.notes.append(f"SUSPECTED {sp['id']} (reported, not judged): {sp['where']}: {sp['input']} -> {sp['observed']}")
    for v in violations[:3]:
        v["broken"] = ctx.broken[:3]
        ctx.violations.append(v)
    try:
        for p in tmpdir.iterdir():
            p.unlink()
        tmpdir.rmdir()
    except OSError:
        pass
    return vlib.finish(ctx, "", TRUSTED, ASSUME, RULE)


def replay(path: str) -> int:
    obj = json.load(open(path))
    print(json.dumps({k: v for k, v in obj.items() if k != "input"}, indent=1)[:2000])
    case = obj.get("input")
    if not case:
        print("no concrete input stored (no-failing-input-found)")
        return 0
    kind = obj.get("kind", "droplet")
    if kind == "droplet":
        obs = run_droplet_case(case)
        fails = judge_droplet_case(case, obs)
        print("online :", obs["online"][0], obs["online"][1] if obs["online"][0] == "err" else
              [[(c, bytes_to_floats(x)) for c, _, x in e] for e in obs["online"][1]["emulsions"]])
        for n, o in obs["offline"].items():
            print(f"offline[{n}]:", o[0], o[1] if o[0] == "err" else
                  [[(c, bytes_to_floats(x)) for c, _, x in e] for e in o[1]["emulsions"]])
    elif kind == "reuse":
        d = vlib.BUILD / "cases" / "C14" / "replay_tmp"
        d.mkdir(parents=True, exist_ok=True)
        obs = run_reuse_case(case, case["seed"], str(d))
        fails = judge_reuse_case(case, obs)
        print("recorded:", obs["recorded"] and [float(t) for t in obs["recorded"]["times"]])
        print("read    :", obs["read"] and [float(t) for t in obs["read"]["times"]], obs["error"] or "")
    elif kind == "long":
        d = vlib.BUILD / "cases" / "C14" / "replay_tmp"
        d.mkdir(parents=True, exist_ok=True)
        fails = judge_long_history(run_long_history(case["frames"], case["seed"], str(d)))
    elif kind == "length":
        obs = run_length_case(case)
        fails = judge_length_case(case, obs)
        print("recorded:", obs["times"], obs["values"], "raised:", obs["raised"])
        print("analysis:", obs["direct"])
    else:
        import tempfile
        d = vlib.BUILD / "cases" / "C14" / "replay_tmp"
        d.mkdir(parents=True, exist_ok=True)
        obs = run_solver_case(case, str(d))
        fails = judge_solver_case(case, obs)
        print("times:", obs["storage_times"])
    print("oracle failures on current tree:", fails)
    return 1 if fails else 0
