"""C02 -- each located droplet is one connected component under the grid's topology."""
from __future__ import annotations

import itertools
import json
import random

import numpy as np

import vlib
import locate_common as lc

TRUSTED = [
    "Coq 8.16.1 kernel + vm_compute",
    "scipy.ndimage.label as an oracle: LabelSpec (non-zero exactly on the mask; equal labels <=> face-connected; numbered 1..n in raster order) "
    "is a premise of the theorems and is checked on every sample against an independent breadth-first labelling",
    "scipy.ndimage.center_of_mass / sum (modelled as mean index / count; compared per sample through the candidates)",
    "correspondence harness (harness/locate_common.py): candidates and distance matrix recorded inside remove_overlapping as called from image_analysis",
    "py-pde grid.transform / normalize_point / distance as modelled in Model/Grid.v",
]
ASSUME = [
    "coarse-dyadic spacings and origins: centre-of-mass arithmetic is exact up to the final quotient (relative tolerance 1e-12)",
    "overlap removal consumes the float surface-distance matrix computed by the implementation (C10 model)",
]
RULE = ("exhaustive: every binary image on 1-d grids of 1..6 cells, 3x3 and 2x2x2 grids (4x3, 2x3x2 in the thorough tier) with every periodicity mask; "
        "random: noise at densities 0.2..0.8, random-walk (non-convex) shapes, multi-piece boundary crossings, parallel separate bars (chains of "
        "successive overlap removals), lines winding around a periodic axis, on grids up to 9x9 / 5x5x4 and elongated ones (1..3 x up to 14 cells, both "
        "orders) with 1-cell and 2-cell axes, dyadic spacings, origins of every kind (zero, centred, positive, entirely negative); every image is also "
        "handed over once in a non-bool dtype (uint8, int64, float32, float64: the result must be bitwise the one of the bool mask) and must not be "
        "mutated; non-trivial = at least two labelled clusters are joined across a periodic boundary or >= 2 components; distinct by (grid, image); "
        "sequences (state kept between calls): per grid family groups of two inputs that share shape, dtype and number of image cells / the image bytes "
        "but differ in the arrangement or in spacing / periodicity / origin / grid class, both locators on REUSED grid / field / mask objects (same call "
        "twice, interleaved, after calls that raise, series of up to 14 images on one grid object), compared bitwise with fresh objects evaluated first "
        "in a fresh interpreter; arguments and the grid's cached arrays compared with a fresh equal grid after every call; all outputs kept alive, checked "
        "for shared memory, one of them modified in place")

# Inputs that make the unchanged /repo misbehave and are waiting for a decision of the lead: run and reported in the
# evidence notes, NOT judged (notes/audit_task.md).
SUSPECTED = [
    {"id": "S-C02-1", "class": "mask dtype float16 / longdouble",
     "what": "locate_droplets_in_mask(ScalarField(grid, mask, dtype=float16)) raises TypeError('No matching signature found') from "
             "scipy.ndimage.label on every grid family (uint8/int/float32/float64 masks work); locate_droplets() is unaffected because it builds a bool mask",
     "dtypes": ["float16", "longdouble"]},
]


def make_grid(shape, periodic, rng=None, isotropic=False):
    """returns (grid, origin kinds per axis)"""
    from pde import CartesianGrid
    if rng is None:
        bounds, kinds = [(0.0, float(n)) for n in shape], ["zero"] * len(shape)
    else:
        bounds, kinds = [], []
        h0 = rng.choice([0.5, 1.0, 1.0, 2.0])
        for n in shape:
            h = h0 if isotropic else rng.choice([0.25, 0.5, 1.0, 1.0, 1.5, 2.0])
            lo, kind = lc.axis_origin(rng, n, h)
            bounds.append((lo, lo + n * h))
            kinds.append(kind)
    return CartesianGrid(bounds, list(shape), periodic=list(periodic)), kinds


def locate_mask(grid, mask, dtype="bool"):
    """locate_droplets_in_mask on a ScalarField of the given dtype -> (emulsion or None, exception text or None, input mutated?)"""
    from pde import ScalarField
    from droplets.image_analysis import locate_droplets_in_mask
    data = np.array(mask).astype(dtype)
    field = ScalarField(grid, data, dtype=dtype)
    before = field.data.copy()
    try:
        em, exc = locate_droplets_in_mask(field), None
    except Exception as e:  # noqa
        em, exc = None, f"{type(e).__name__}: {e}"
    mutated = field.data.dtype != before.dtype or not np.array_equal(field.data, before)
    return em, exc, mutated


def other_dtype_failure(grid, mask, em_ref, dtype):
    """the same 0/1 image handed over in a non-bool dtype: same droplets, no exception, input untouched"""
    em, exc, mutated = locate_mask(grid, mask, dtype)
    if exc:
        return f"mask of dtype {dtype}: locate_droplets_in_mask raised {exc}"
    if mutated:
        return f"mask of dtype {dtype}: the data of the mask field was modified by locate_droplets_in_mask"
    return lc.same_result(em_ref, em, f"mask of dtype {dtype}")


def run_one(grid, mask):
    from scipy import ndimage
    with lc.Recorder() as rec:
        em, exc, mutated = locate_mask(grid, mask)
    if exc is None and mutated:
        exc = "the data of the mask field was modified"
    labels, n = ndimage.label(mask)
    return em, exc, labels, n, (rec.log[0] if rec.log else None)


def label_spec_ok(mask, labels, n):
    ref, k = lc.plain_components(mask)
    return k == n and np.array_equal(ref, labels)


def random_mask(rng, shape, kind=None, periodic=None):
    kind = kind or rng.choice(["noise", "noise", "walk", "walk", "pieces"])
    m = np.zeros(shape, bool)
    if kind == "bars":
        # separate parallel bars of different lengths along the longest axis, on every other line: their equal-volume
        # spheres overlap in chains (small - large - smaller ...), so that several successive removals happen and a
        # removed index precedes the pairs treated later
        a = int(np.argmax(shape))
        par = rng.randrange(2)
        aligned = rng.random() < 0.7   # bars centred on a common line: neighbouring spheres certainly overlap
        others = [range(par, n, 2) if ax != a else [0] for ax, n in enumerate(shape)]
        n = shape[a]
        # zigzag: lengths medium, LARGE, small, ... in raster order, so that the first removal (medium, overlapping the
        # large one most) precedes the pair (LARGE, small) that is treated next
        zigzag = aligned and n >= 5 and rng.random() < 0.5
        cycle = [(3 * n + 4) // 5, n - 1, max(2, (2 * n + 4) // 5)]
        phase = 0 if rng.random() < 0.7 else rng.randrange(1, 3)
        for j, idx in enumerate(itertools.product(*others)):
            if zigzag:
                length = min(max(cycle[(j + phase) % 3] + rng.randrange(-1, 1), 2), n)
                off = min(max((n - length) // 2 + rng.randrange(0, 2), 0), n - length)
                sl = list(idx)
                sl[a] = slice(off, off + length)
                m[tuple(sl)] = True
                continue
            if rng.random() < 0.1:
                continue
            if aligned:
                length = rng.randrange(max(2, shape[a] // 3), shape[a] + 1)
                off = min(max((shape[a] - length) // 2 + rng.randrange(-1, 2), 0), shape[a] - length)
            else:
                length = rng.randrange(1, shape[a] + 1)
                off = rng.randrange(0, shape[a] - length + 1)
            sl = list(idx)
            sl[a] = slice(off, off + length)
            m[tuple(sl)] = True
        return m, kind
    if kind == "across":
        # two separate blocks on either side of a periodic face (the layer next to the face is empty on the high side, so
        # that they are NOT connected): their equal-volume spheres overlap only under the periodic metric
        cand = [ax for ax, p in enumerate(periodic) if p and shape[ax] >= 5] or [int(np.argmax(shape))]
        a = rng.choice(cand)
        n = shape[a]
        k1 = rng.randrange(1, max(2, (n - 3) // 2 + 1))
        k2 = rng.randrange(1, max(2, n - 3 - k1 + 1))
        for lo_a, hi_a in ((0, k1), (n - 1 - k2, n - 1)):
            sl = []
            for ax, na in enumerate(shape):
                if ax == a:
                    sl.append(slice(lo_a, hi_a))
                else:
                    w = rng.randrange(max(1, na // 2), na + 1)
                    o = rng.randrange(0, na - w + 1)
                    sl.append(slice(o, o + w))
            m[tuple(sl)] = True
        return m, kind
    if kind == "winding":
        # a full line along one axis (winds if that axis is periodic) with side arms, plus a random walk
        a = rng.choice([ax for ax, p in enumerate(periodic) if p] or list(range(len(shape))))
        c = [rng.randrange(n) for n in shape]
        sl = list(c)
        sl[a] = slice(None)
        m[tuple(sl)] = True
        for _ in range(rng.randrange(0, 3)):
            c2 = [rng.randrange(n) for n in shape]
            for _ in range(rng.randrange(1, 2 * max(shape))):
                m[tuple(c2)] = True
                ax = rng.randrange(len(shape))
                c2[ax] = (c2[ax] + rng.choice([-1, 1])) % shape[ax]
        return m, kind
    if kind == "noise":
        p = rng.choice([0.2, 0.35, 0.5, 0.65, 0.8])
        nrng = np.random.default_rng(rng.randrange(1 << 30))
        m = nrng.random(shape) < p
    elif kind == "walk":
        for _ in range(rng.randrange(1, 4)):
            c = [rng.randrange(n) for n in shape]
            for _ in range(rng.randrange(2, 4 * max(shape))):
                m[tuple(c)] = True
                ax = rng.randrange(len(shape))
                c[ax] = (c[ax] + rng.choice([-1, 1])) % shape[ax]
    else:
        for _ in range(rng.randrange(2, 6)):
            ax = rng.randrange(len(shape))
            c = [rng.randrange(n) for n in shape]
            c[ax] = rng.choice([0, shape[ax] - 1])
            m[tuple(c)] = True
            c2 = list(c)
            a2 = rng.randrange(len(shape))
            c2[a2] = (c2[a2] + 1) % shape[a2]
            m[tuple(c2)] = True
    return m, kind


def gen_cases(ctx, rng):
    cases = []
    # exhaustive small grids
    ex_shapes = [(n,) for n in range(1, 7)] + [(3, 3), (2, 2, 2)]
    if not ctx.quick:
        ex_shapes += [(4, 3), (2, 3, 2)]
    for shape in ex_shapes:
        ncell = int(np.prod(shape))
        for per in itertools.product([False, True], repeat=len(shape)):
            grid, okinds = make_grid(shape, per)
            for bits in range(1 << ncell):
                mask = np.array([(bits >> i) & 1 for i in range(ncell)], bool).reshape(shape)
                cases.append((grid, mask, "exhaustive", okinds))
    # random larger images
    for _ in range(ctx.scale(480, 6000)):
        kind = rng.choice(["noise", "noise", "noise", "walk", "walk", "walk", "pieces", "pieces", "bars", "bars", "winding", "across"])
        dim = rng.choice([1, 2, 2, 2, 3])
        if kind in ("bars", "across"):
            dim = rng.choice([2, 2, 2, 3])
        form = rng.choice(["compact", "compact", "compact", "elongated"])
        if form == "elongated" and dim >= 2 and kind not in ("bars", "across"):
            # one long axis (first / middle / last), the others with 1..3 cells: unequal cell counts in both orders
            shape = [rng.randrange(1, 4) for _ in range(dim)]
            shape[rng.randrange(dim)] = rng.randrange(8, {2: 15, 3: 11}[dim])
            shape = tuple(shape)
        elif kind in ("bars", "across"):
            shape = tuple(rng.randrange(4, {2: 11, 3: 6}[dim]) for _ in range(dim))
        else:
            shape = tuple(rng.randrange(1 if rng.random() < 0.25 else 2, {1: 12, 2: 10, 3: 6}[dim]) for _ in range(dim))
        per = tuple(rng.random() < 0.6 for _ in range(dim))
        if kind == "across":  # at least one periodic axis with >= 5 cells; mixed periodicity masks are the common case
            a = rng.randrange(dim)
            shape = tuple(max(n, 5) if ax == a else n for ax, n in enumerate(shape))
            per = tuple(True if ax == a else rng.random() < 0.4 for ax in range(dim))
        grid, okinds = make_grid(shape, per, rng, isotropic=(kind in ("bars", "across") and rng.random() < 0.7))
        mask, kind = random_mask(rng, shape, kind, per)
        cases.append((grid, mask, kind, okinds))
    return cases


def count_topology(ctx, grid, mask, labels):
    """histogram of where the image meets the box: clusters joined across which periodic axis (position of the axis, its
    cell count relative to axis 0), image cells on non-periodic faces"""
    shape = grid.shape
    joined = []
    for ax in range(grid.num_axes):
        if not grid.periodic[ax]:
            continue
        lo, hi = np.take(labels, 0, axis=ax), np.take(labels, shape[ax] - 1, axis=ax)
        if np.any((lo > 0) & (hi > 0) & (lo != hi)):
            joined.append(ax)
            if grid.num_axes > 1:
                ctx.count("join_axis_position", "first" if ax == 0 else "last" if ax == grid.num_axes - 1 else "middle")
            if ax > 0:
                ctx.count("join_on_later_axis_cells_vs_axis0",
                          "equal" if shape[ax] == shape[0] else "fewer" if shape[ax] < shape[0] else "more")
    ctx.count("axes_with_joins", "+".join(map(str, joined)) or "none")
    touch = [ax for ax in range(grid.num_axes) if not grid.periodic[ax]
             and (np.take(mask, 0, axis=ax).any() or np.take(mask, shape[ax] - 1, axis=ax).any())]
    ctx.count("touches_nonperiodic_face", bool(touch))


# ---- cylindrical and radial grids ----------------------------------------------------------------
def run_cyl(grid, mask):
    from scipy import ndimage
    with lc.Recorder() as rec:
        em, exc, mutated = locate_mask(grid, mask)
    if exc is None and mutated:
        exc = "the data of the mask field was modified"
    nz = grid.shape[1]
    lab_pad, _ = ndimage.label(np.pad(mask, [[0, 0], [nz, nz]], mode="wrap"))
    lab, _ = ndimage.label(mask)
    if exc:
        return em, exc, lab_pad, lab, None, None, None
    if rec.log:
        r = rec.log[0]
        cands = [(float(p[2]), v, rad) for p, v, rad, _ in r["cands"]]
        return em, None, lab_pad, lab, cands, r["out"], r["M"]
    cands = [(float(d.position[2]), float(d.volume), float(d.radius)) for d in em]
    return em, None, lab_pad, lab, cands, list(range(len(cands))), None


def cyl_case_lit(grid, lab_pad, lab, cands, out, M):
    cl = vlib.listlit([f"({vlib.qlit(z)}, {vlib.qlit(v / np.pi)})" for z, v, _ in cands])
    rad = vlib.listlit([r for _, _, r in cands], vlib.qlit)
    D = vlib.listlit([vlib.listlit(row, vlib.qlit) for row in (M.tolist() if M is not None else [])])
    nat = lambda i: f"{int(i)}%nat"
    return ("{| cy_grid := %s; cy_lab_pad := %s; cy_lab := %s; cy_cands := %s; cy_rad := %s; cy_D := %s; cy_out := %s |}"
            % (lc.cyl_lit(grid), vlib.listlit(lab_pad.ravel().tolist(), nat), vlib.listlit(lab.ravel().tolist(), nat),
               cl, rad, D, vlib.listlit(out, nat)))


def gen_cyl_cases(ctx, rng):
    from pde import CylindricalSymGrid
    cases = []
    # exhaustive tiny cylinders
    for (nr, nz) in [(1, 3), (2, 2), (2, 3)] + ([] if ctx.quick else [(2, 4), (3, 3)]):
        for per in (False, True):
            grid = CylindricalSymGrid(float(nr), (0.0, float(nz)), (nr, nz), periodic_z=per)
            for bits in range(1 << (nr * nz)):
                mask = np.array([(bits >> i) & 1 for i in range(nr * nz)], bool).reshape(nr, nz)
                cases.append((grid, mask, "exhaustive", "exhaustive", "zero"))
    for _ in range(ctx.scale(300, 3600)):
        form = rng.choice(["compact", "compact", "compact", "narrow", "flat"])
        if form == "compact":
            nr, nz = rng.randrange(1, 6), rng.randrange(1 if rng.random() < 0.2 else 2, 9)
            dr, dz = rng.choice([0.5, 1.0, 1.0, 2.0]), rng.choice([0.25, 0.5, 1.0, 1.0])
        elif form == "narrow":  # few radial cells, finely sliced along z
            nr, nz = rng.randrange(1, 4), rng.randrange(9, 21)
            dr, dz = rng.choice([1.0, 2.0]), rng.choice([0.25, 0.5])
        else:  # flat and wide
            nr, nz = rng.randrange(6, 13), rng.randrange(1, 4)
            dr, dz = rng.choice([0.5, 1.0]), rng.choice([1.0, 2.0])
        zlo, okind = lc.axis_origin(rng, nz, dz)
        grid = CylindricalSymGrid(nr * dr, (zlo, zlo + nz * dz), (nr, nz), periodic_z=rng.random() < 0.6)
        kind = rng.choice(["noise", "noise", "axis", "offaxis", "span", "symmetric", "discs"])
        m = np.zeros((nr, nz), bool)
        nrng = np.random.default_rng(rng.randrange(1 << 30))
        if kind == "noise":
            m = nrng.random((nr, nz)) < rng.choice([0.3, 0.5, 0.7])
        elif kind == "axis":
            for _ in range(rng.randrange(1, 3)):
                z0 = rng.randrange(nz)
                for z in range(z0, z0 + rng.randrange(1, 4)):
                    m[:rng.randrange(1, nr + 1), z % nz] = True
        elif kind == "offaxis":
            if nr > 1:
                m[1:, :] = nrng.random((nr - 1, nz)) < 0.5
        elif kind == "span":
            m[0, :] = True
            m |= nrng.random((nr, nz)) < 0.3
        elif kind == "discs":
            # separate on-axis discs of different radii in every other z layer: equal-volume spheres overlap in chains
            for z in range(rng.randrange(2), nz, 2):
                if rng.random() < 0.85:
                    m[:rng.randrange(1, nr + 1), z] = True
        else:  # components straddling the periodic boundary symmetrically
            k = rng.randrange(1, max(2, nz // 2))
            m[:rng.randrange(1, nr + 1), :k] = True
            m[:rng.randrange(1, nr + 1), nz - k:] = True
        cases.append((grid, m, kind, form, okind))
    return cases


def gen_rad_cases(ctx, rng):
    from pde import PolarSymGrid, SphericalSymGrid
    cases = []
    for n in range(1, 7):
        for cls in (PolarSymGrid, SphericalSymGrid):
            grid = cls(float(n), n)
            for bits in range(1 << n):
                cases.append((grid, np.array([(bits >> i) & 1 for i in range(n)], bool), "exhaustive"))
    for _ in range(ctx.scale(100, 1000)):
        n = rng.randrange(1, 20)
        cls = rng.choice((PolarSymGrid, SphericalSymGrid))
        dr = rng.choice([0.25, 0.5, 1.0, 2.0])
        rlo = rng.choice([0.0, 0.0, 0.5, 2.0])
        grid = cls((rlo, rlo + n * dr), n)
        nrng = np.random.default_rng(rng.randrange(1 << 30))
        m = nrng.random(n) < rng.choice([0.4, 0.7, 0.9])
        if rng.random() < 0.5:
            m[: rng.randrange(0, n + 1)] = True
        cases.append((grid, m, "random"))
    return cases


def run_sym_streams(ctx, rng, ok, fails, known_hits):
    from pde import ScalarField
    from droplets.image_analysis import locate_droplets_in_mask
    # ---- cylindrical
    lits, meta = [], []
    for case_no, (grid, mask, kind, form, okind) in enumerate(gen_cyl_cases(ctx, rng)):
        em, exc, lab_pad, lab, cands, out, M = run_cyl(grid, mask)
        inp = {"family": "cylindrical", "shape": list(grid.shape), "bounds": [list(map(float, b)) for b in grid.axes_bounds],
               "periodic_z": bool(grid.periodic[1]), "mask": mask.astype(int).ravel().tolist()}
        ctx.case(inp, nontrivial=bool(mask[0].any()))
        ctx.count("cyl_kind", kind)
        ctx.count("cyl_periodic", bool(grid.periodic[1]))
        ctx.count("cyl_form", form)
        ctx.count("cyl_nr_vs_nz", "nr<nz" if grid.shape[0] < grid.shape[1] else "nr>nz" if grid.shape[0] > grid.shape[1] else "nr=nz")
        ctx.count("cyl_dr_vs_dz", lc.order_of([float(h) for h in grid.discretization]))
        ctx.count("cyl_min_cells_per_axis", min(grid.shape) if min(grid.shape) < 4 else ">=4")
        ctx.count("cyl_z_origin_kind", okind)
        on_axis_comps = [c for c in lc.cyl_components(mask, bool(grid.periodic[1])) if c["on_axis"]]
        ctx.count("cyl_component_longer_in_z_cells_than_nr",
                  any(len({cell[1] for cell in c["cells"]}) > grid.shape[0] for c in on_axis_comps))
        ctx.count("cyl_on_axis_component_touches_z_face", any(cell[1] in (0, grid.shape[1] - 1) for c in on_axis_comps for cell in c["cells"]))
        if exc:
            fails.append({"what": f"locate_droplets_in_mask raised {exc}", "input": inp})
            continue
        ctx.count("cyl_droplets", len(em))
        lc.count_removals(ctx, M, [c[2] for c in cands], out, prefix="cyl_")
        dt = lc.MASK_DTYPES[case_no % len(lc.MASK_DTYPES)]
        ctx.count("cyl_mask_dtype_second_call", dt)
        f = other_dtype_failure(grid, mask, em, dt)
        if f:
            fails.append({"what": f, "input": {**inp, "dtype": dt}})
        for cls, desc in lc.oracle_cyl(grid, mask, em, cands, out):
            if cls in KNOWN_CLASSES and (KNOWN_CLASSES[cls] != "F29" or bool(grid.periodic[1])):
                known_hits.setdefault(cls, {"what": desc, "input": inp})
            else:
                fails.append({"what": f"{cls}: {desc}", "input": inp})
        lit = lc.safe_lit(lambda: cyl_case_lit(grid, lab_pad, lab, cands, out, M), fails, inp)
        if lit is not None:
            lits.append(lit)
            meta.append(inp)
    header = ("From Coq Require Import QArith ZArith List.\nImport ListNotations.\n"
              "From PD Require Import Model.Grid Model.Locate Model.LocateSym Model.LocateCases.\nLocal Open Scope Q_scope.\n")
    if ok:
        bad = vlib.run_cases(ctx, "cyl", header, lits, "cyl_agree", shard=250)
        for b in bad[:3]:
            ctx.broken.append(f"correspondence locate_droplets_in_mask (cylindrical): model and implementation differ on {meta[b]}")
    ctx.sample(meta[len(meta) // 2])
    # ---- radial
    lits, meta = [], []
    for case_no, (grid, mask, kind) in enumerate(gen_rad_cases(ctx, rng)):
        inp = {"family": type(grid).__name__, "n": int(grid.shape[0]), "bounds": list(map(float, grid.axes_bounds[0])),
               "mask": mask.astype(int).tolist()}
        ctx.case(inp, nontrivial=bool(mask[0]))
        ctx.count("radial_family", type(grid).__name__)
        ctx.count("radial_inner_radius", "0" if grid.axes_bounds[0][0] == 0 else "> 0")
        ctx.count("radial_cells", int(grid.shape[0]) if grid.shape[0] < 3 else ">=3")
        em, exc, mutated = locate_mask(grid, mask)
        if exc or mutated:
            fails.append({"what": f"locate_droplets_in_mask raised {exc}" if exc else "the data of the mask field was modified", "input": inp})
            continue
        dt = lc.MASK_DTYPES[case_no % len(lc.MASK_DTYPES)]
        ctx.count("radial_mask_dtype_second_call", dt)
        f = other_dtype_failure(grid, mask, em, dt)
        if f:
            fails.append({"what": f, "input": {**inp, "dtype": dt}})
        rlo, rhi = grid.axes_bounds[0]
        dr = (rhi - rlo) / grid.shape[0]
        # property text: the component containing the innermost cell (if any) gives one droplet at the origin whose
        # radius is the outer radius of that component; nothing else is reported
        n_in = 0
        while n_in < len(mask) and mask[n_in]:
            n_in += 1
        if n_in == 0:
            if len(em) != 0:
                fails.append({"what": "droplet reported although no component touches the origin", "input": inp})
        elif len(em) != 1 or abs(em[0].radius - (rlo + n_in * dr)) > 1e-12 * (1 + rhi) or np.any(em[0].position != 0):
            fails.append({"what": f"expected one droplet of radius {rlo + n_in * dr} at the origin, got {[(list(d.position), d.radius) for d in em]}", "input": inp})
        lit = lc.safe_lit(lambda: "{| rd_lo := %s; rd_dr := %s; rd_mask := %s; rd_out := %s |}"
                          % (vlib.qlit(rlo), vlib.qlit(dr), vlib.listlit(mask.tolist(), vlib.blit),
                             f"(Some {vlib.qlit(em[0].radius)})" if len(em) else "None"), fails, inp)
        if lit is not None:
            lits.append(lit)
            meta.append(inp)
    if ok:
        bad = vlib.run_cases(ctx, "radial", header, lits, "rad_agree", shard=400)
        for b in bad[:3]:
            ctx.broken.append(f"correspondence locate_droplets_in_mask (radial): model and implementation differ on {meta[b]}")


# ---- input dimension 8: state kept between calls (machinery in locate_common.py) ----------------------------------
SEQ_KINDS = {
    "cartesian": ["same grid, permuted image", "swapped spacings", "same volume, other spacings", "periodicity mask differs", "origin differs"],
    "cylindrical": ["same grid, image rolled along z", "dr and dz swapped", "periodic_z differs", "z origin differs", "dz differs"],
    "radial": ["same grid, other image with as many cells", "PolarSymGrid vs SphericalSymGrid", "inner radius differs", "dr differs"],
}


def _other_image(rng, m):
    """an image with the same shape and the same number of image cells, but different"""
    for _ in range(20):
        ax = rng.randrange(m.ndim)
        m2 = np.roll(np.flip(m, axis=ax) if rng.random() < 0.5 else m, rng.randrange(1, max(2, m.shape[ax])), axis=ax)
        if not np.array_equal(m2, m):
            return m2
    flat = m.ravel().copy()
    i, j = int(np.argmax(flat)), int(np.argmin(flat))
    flat[i], flat[j] = flat[j], flat[i]
    return flat.reshape(m.shape)


def seq_groups(ctx, rng):
    """collision groups of mask inputs for the three grid families; distinct shapes per family, so that only the members of
    one group can be confused with each other"""
    groups = []
    n_per_family = ctx.scale(10, 30)
    tries = {"cartesian": 0, "cylindrical": 0, "radial": 0}   # hard bound on every rejection loop below

    def more(fam):
        tries[fam] += 1
        return tries[fam] <= 50 * n_per_family and len([g for g in groups if g["family"] == fam]) < n_per_family

    def member(fam, bounds, shape, per, mask):
        return {"family": fam, "bounds": [list(map(float, b)) for b in bounds], "shape": [int(n) for n in shape],
                "periodic": [bool(p) for p in per], "mask": np.asarray(mask).astype(int).ravel().tolist()}

    def nonempty_mask(shape, per, axis_rows=None):
        for _ in range(50):
            m, _k = random_mask(rng, shape, rng.choice(["noise", "walk", "pieces"]), per)
            if axis_rows is not None:
                m[0, rng.randrange(shape[1])] = True     # something on the symmetry axis / at the origin
            if m.any() and not m.all():
                return m
        m = np.zeros(shape, bool)
        m.flat[0] = True
        return m

    # ---- Cartesian
    shapes = set()
    while more("cartesian"):
        kind = SEQ_KINDS["cartesian"][len(groups) % 5]
        d = rng.choice([1, 2, 2, 3]) if kind in ("same grid, permuted image", "periodicity mask differs", "origin differs") else rng.choice([2, 2, 3])
        shape = [rng.randrange(3, {1: 14, 2: 10, 3: 6}[d])] * d if kind == "swapped spacings" else \
            [rng.randrange(2, {1: 14, 2: 10, 3: 6}[d]) for _ in range(d)]
        if tuple(shape) in shapes:
            continue
        shapes.add(tuple(shape))
        per = [rng.random() < 0.6 for _ in range(d)]
        h = [rng.choice([0.25, 0.5, 1.0, 1.5, 2.0]) for _ in range(d)]
        lo = [lc.axis_origin(rng, n, hh)[0] for n, hh in zip(shape, h)]
        m0 = nonempty_mask(tuple(shape), per)
        h1, lo1, per1, m1 = list(h), list(lo), list(per), m0
        if kind == "same grid, permuted image":
            m1 = _other_image(rng, m0)
        elif kind == "swapped spacings":
            if len(set(h)) == 1:
                h[0] *= 2
            h1 = h[::-1] if h[::-1] != h else h[1:] + h[:1]
        elif kind == "same volume, other spacings":
            h1 = [2 * h[0], h[1] / 2] + h[2:]
        elif kind == "periodicity mask differs":
            ax = rng.randrange(d)
            per1[ax] = not per1[ax]
        else:
            lo1 = [x + rng.choice([-3.25, 0.5, 7.75]) for x in lo]
        mk = lambda hh, ll, pp, mm: member("cartesian", [(a, a + n * b) for a, n, b in zip(ll, shape, hh)], shape, pp, mm)
        mem = [mk(h, lo, per, m0), mk(h1, lo1, per1, m1)]
        n_extra = 12 if not any(g["family"] == "cartesian" for g in groups) else 2   # one long series on a reused grid per family
        mem += [mk(h, lo, per, nonempty_mask(tuple(shape), per)) for _ in range(n_extra)]
        groups.append({"kind": kind, "family": "cartesian", "members": mem})
    # ---- cylindrical (dz != 1 and dr != 1 on purpose: a factor applied twice must show)
    shapes = set()
    while more("cylindrical"):
        kind = SEQ_KINDS["cylindrical"][len(groups) % 5]
        nr, nz = rng.randrange(1, 7), rng.randrange(2, 13)
        if (nr, nz) in shapes:
            continue
        shapes.add((nr, nz))
        dr, dz = rng.choice([0.5, 1.5, 2.0]), rng.choice([0.25, 0.5, 2.0, 3.0])
        if dr == dz:
            dz = 0.75
        zlo, per = lc.axis_origin(rng, nz, dz)[0], rng.random() < 0.5
        m0 = nonempty_mask((nr, nz), [False, per], axis_rows=True)
        dr1, dz1, zlo1, per1, m1 = dr, dz, zlo, per, m0
        if kind == "same grid, image rolled along z":
            m1 = np.roll(m0, rng.randrange(1, nz), axis=1)
            if np.array_equal(m1, m0):
                m1 = _other_image(rng, m0)
        elif kind == "dr and dz swapped":
            dr1, dz1 = dz, dr
        elif kind == "periodic_z differs":
            per1 = not per
        elif kind == "z origin differs":
            zlo1 = zlo + rng.choice([-2.5, 1.25, 6.0])
        else:
            dz1 = dz * rng.choice([0.5, 2.0, 3.0])
        mk = lambda a, b, z, pp, mm: member("cylindrical", [(0.0, nr * a), (z, z + nz * b)], (nr, nz), [False, pp], mm)
        mem = [mk(dr, dz, zlo, per, m0), mk(dr1, dz1, zlo1, per1, m1)]
        n_extra = 12 if not any(g["family"] == "cylindrical" for g in groups) else 2
        mem += [mk(dr, dz, zlo, per, nonempty_mask((nr, nz), [False, per], axis_rows=True)) for _ in range(n_extra)]
        groups.append({"kind": kind, "family": "cylindrical", "members": mem})
    # ---- polar / spherical
    sizes = set()
    while more("radial"):
        kind = SEQ_KINDS["radial"][len(groups) % 4]
        n = rng.randrange(2, 100)   # (the range must offer more sizes than groups are asked for)
        if n in sizes:
            continue
        sizes.add(n)
        cls = rng.choice(["PolarSymGrid", "SphericalSymGrid"])
        dr, rlo = rng.choice([0.25, 0.5, 1.5, 2.0]), rng.choice([0.0, 0.0, 0.5, 2.0])

        def rmask():
            m = np.array([rng.random() < 0.6 for _ in range(n)], bool)
            m[: rng.randrange(1, n)] = True
            m[rng.randrange(1, n):] &= rng.random() < 0.7
            return m
        m0 = rmask()
        cls1, dr1, rlo1, m1 = cls, dr, rlo, m0
        if kind == "same grid, other image with as many cells":
            k = int(m0.sum())
            m1 = np.zeros(n, bool)
            m1[:k] = True
            if np.array_equal(m1, m0):
                m1 = np.roll(m0, 1)
        elif kind == "PolarSymGrid vs SphericalSymGrid":
            cls1 = "SphericalSymGrid" if cls == "PolarSymGrid" else "PolarSymGrid"
        elif kind == "inner radius differs":
            rlo1 = rlo + rng.choice([0.25, 1.0, 3.5])
        else:
            dr1 = dr * rng.choice([0.5, 2.0, 3.0])
        mk = lambda c, a, r0, mm: member(c, [(r0, r0 + n * a)], (n,), [False], mm)
        n_extra = 12 if not any(g["family"] == "radial" for g in groups) else 2
        mem = [mk(cls, dr, rlo, m0), mk(cls1, dr1, rlo1, m1)] + [mk(cls, dr, rlo, rmask()) for _ in range(n_extra)]
        groups.append({"kind": kind, "family": "radial", "members": mem})
    return groups


def run_suspected(ctx, rng):
    """Inputs of the SUSPECTED classes: executed, reported in the evidence notes, not judged."""
    from pde import CartesianGrid, CylindricalSymGrid, SphericalSymGrid
    for sus in SUSPECTED:
        seen, raised, differ, example = 0, 0, 0, None
        for _ in range(6):
            which = rng.choice(["cartesian", "cylindrical", "spherical"])
            if which == "cartesian":
                shape = (rng.randrange(2, 6), rng.randrange(2, 6))
                grid = CartesianGrid([(0, shape[0]), (0, shape[1])], list(shape), periodic=[rng.random() < 0.5, rng.random() < 0.5])
            elif which == "cylindrical":
                shape = (rng.randrange(1, 4), rng.randrange(2, 6))
                grid = CylindricalSymGrid(shape[0], (0, shape[1]), list(shape), periodic_z=rng.random() < 0.5)
            else:
                shape = (rng.randrange(2, 7),)
                grid = SphericalSymGrid(shape[0], shape[0])
            mask = np.array([rng.random() < 0.6 for _ in range(int(np.prod(shape)))], bool).reshape(shape)
            ref, exc0, _ = locate_mask(grid, mask)
            for dt in sus["dtypes"]:
                seen += 1
                ctx.count("suspected_inputs_not_judged", f"{sus['id']} {dt}")
                em, exc, _ = locate_mask(grid, mask, dt)
                if exc:
                    raised += 1
                    example = example or f"{type(grid).__name__}{tuple(shape)} dtype {dt}: {exc}"
                elif exc0 is None and lc.same_result(ref, em, dt):
                    differ += 1
        ctx.notes.append(f"SUSPECTED {sus['id']} (executed, NOT judged, waiting for a decision): {sus['what']}. This run: {raised} of {seen} calls raised"
                         f"{', ' + str(differ) + ' returned a result different from the bool mask' if differ else ''}"
                         f"{'; e.g. ' + example if example else ''}")


# failure classes of the cylindrical oracle that are matched against known_findings.json
KNOWN_CLASSES = {"position is not the volume-weighted centre of mass": "F27", "overlap": "F29", "winding volume": "F29"}


def check(ctx: vlib.Ctx) -> int:
    rng = random.Random(ctx.seed)
    ok = vlib.prove(ctx, ["Proofs/C02.vo", "Proofs/LocateCart.vo", "Proofs/LabelClients.vo", "Proofs/LabelUnique.vo", "Model/LocateCases.vo"], gens=[])
    ctx.tie.append("hand-written model (Model/MergeLoop.v, Model/Locate.v) + correspondence on locate_droplets_in_mask; ndimage.label as checked oracle")
    import time
    t_stage = [ctx.t0]
    stages = ctx.extra.setdefault("stage_wall_s", {})

    def stage(name):
        t_stage.append(time.time())
        stages[name] = round(t_stage[-1] - t_stage[-2], 2)
    stage("proofs")
    seq_rng = random.Random(ctx.seed * 7919 + 8)   # own stream (derived from ctx.seed): the other streams stay as they were
    groups = seq_groups(ctx, seq_rng)
    seq_procs = lc.seq_start_references(groups)    # two fresh interpreters, running while the other streams are checked
    stage("sequence groups generated, reference interpreters started")
    lits, meta, fails = [], [], []
    nspec_bad = 0
    for case_no, (grid, mask, kind, okinds) in enumerate(gen_cases(ctx, rng)):
        em, exc, labels, n, rec = run_one(grid, mask)
        per = [bool(p) for p in grid.periodic]
        comps = lc.torus_components(mask, per) if mask.any() else []
        ncomp = len(comps)
        ctx.case([list(grid.shape), per, [list(b) for b in grid.axes_bounds], mask.astype(int).ravel().tolist()],
                 nontrivial=(n >= 2))
        ctx.count("kind", kind)
        ctx.count("dim", grid.dim)
        ctx.count("periodic_axes", sum(per))
        ctx.count("labels_minus_components", n - ncomp)
        lc.count_grid(ctx, grid, okinds if kind != "exhaustive" else None)
        ctx.count("components", ncomp if ncomp < 4 else ">=4")
        ctx.count("winding_components", sum(c["lifted"] is None for c in comps))
        count_topology(ctx, grid, mask, labels)
        inp = {"shape": list(grid.shape), "periodic": per, "bounds": [list(b) for b in grid.axes_bounds],
               "mask": mask.astype(int).ravel().tolist()}
        if exc:
            fails.append({"what": f"locate_droplets_in_mask raised {exc}", "input": inp})
            continue
        if not label_spec_ok(mask, labels, n):
            nspec_bad += 1
            ctx.broken.append(f"oracle-spec:ndimage.label violated on {inp}")
        f = lc.oracle_cart(grid, mask, em, rec)
        if f:
            fails.append({"what": f, "input": inp})
        # the same image in a non-bool dtype (cycled deterministically)
        dt = lc.MASK_DTYPES[case_no % len(lc.MASK_DTYPES)]
        ctx.count("mask_dtype_second_call", dt)
        f = other_dtype_failure(grid, mask, em, dt)
        if f:
            fails.append({"what": f, "input": {**inp, "dtype": dt}})
        if rec is not None:
            rad = [c[2] for c in rec["cands"]]
            lc.count_removals(ctx, rec["M"], rad, rec["out"])
            if len(rad) >= 2 and any(per):
                # would plain Euclidean distances lead to another selection? (seeded changes C02-2, C10-3: metric on partially periodic grids)
                P = np.array([c[0] for c in rec["cands"]])
                E = np.sqrt(((P[:, None, :] - P[None, :, :]) ** 2).sum(-1)) - np.add.outer(rad, rad)
                ctx.count("selection_depends_on_periodic_metric" + (" (mixed periodicity)" if not all(per) else " (fully periodic)"),
                          lc.simulate_remove_overlapping(E, rad) != list(rec["out"]))
            lit = lc.safe_lit(lambda: lc.loc_case_lit(grid, labels, rec), fails, inp)
            if lit is not None:
                lits.append(lit)
                meta.append(inp)
        elif n != 0 or len(em) != 0:
            fails.append({"what": "no candidates recorded although clusters exist", "input": inp})
    ctx.sample(meta[len(meta) // 3] if meta else {})
    ctx.sample({"coq_case": lits[-1][:600]} if lits else {})
    header = ("From Coq Require Import QArith ZArith List.\nImport ListNotations.\n"
              "From PD Require Import Model.Grid Model.Locate Model.LocateCases.\nLocal Open Scope Q_scope.\n")
    if ok:
        bad = vlib.run_cases(ctx, "cart", header, lits, "loc_agree", shard=250)
        for b in bad[:3]:
            ctx.broken.append(f"correspondence locate_droplets_in_mask (Cartesian): model and implementation differ on {meta[b]}")
    stage("Cartesian stream incl. in-Coq correspondence")
    known_hits = {}
    run_sym_streams(ctx, rng, ok, fails, known_hits)
    run_suspected(ctx, rng)
    stage("cylindrical + radial streams incl. in-Coq correspondence")
    seq_fails = lc.sequence_oracle(ctx, seq_rng, groups, seq_procs)
    ctx.count("sequence_failures", len(seq_fails))
    stage("sequence stream (collect references, schedules on reused objects)")
    fails = seq_fails[:2] + fails + seq_fails[2:]
    ctx.notes.append("sequence stream (input dimension 8): both locators on reused objects; reference = the same input with fresh objects, evaluated "
                     "first in one of two fresh interpreters (the other one evaluates it after the input sharing its aggregates; a difference between "
                     "the two is a failure as well); Python only (no translator covers the locators: the models are hand-written)")
    ctx.notes.append("second calls (the same 0/1 image as uint8 / int64 / float32 / float64 data) are compared bitwise with the call on the bool mask in "
                     "Python only; the bool call is the one that enters the in-Coq correspondence. All new image kinds (bars, winding, discs) and grid "
                     "kinds (1-cell axes, elongated boxes, every origin kind, narrow / flat cylinders) go through the in-Coq correspondence.")
    listed = {e["id"] for e in vlib.load_known() if e.get("property") == "C02" and e.get("kind") == "finding"}
    for cls, hit in known_hits.items():
        fid = KNOWN_CLASSES[cls]
        if fid in listed:
            ctx.known_printed.append(f"[{fid}] cylindrical grid: {cls}: {hit['what']} on {hit['input']}")
        else:
            fails.append({"what": f"{cls}: {hit['what']}", "input": hit["input"]})
    for f in fails[:3]:
        ctx.violations.append({**f, "found": True, "broken": ctx.broken[:3]})
    return vlib.finish(ctx, "", TRUSTED, ASSUME, RULE, exhaustive=True)


def replay(path: str) -> int:
    obj = json.load(open(path))
    print(json.dumps(obj, indent=1)[:1500])
    inp = obj.get("input", {})
    if inp.get("sequence"):
        f = lc.replay_sequence(inp)
        print("sequence oracle on the current tree:", f or "holds")
        return 1 if f else 0
    if "mask" not in inp:
        return 0
    fam = inp.get("family", "cartesian")
    dt = inp.get("dtype")
    if fam == "cartesian":
        from pde import CartesianGrid
        grid = CartesianGrid([tuple(b) for b in inp["bounds"]], inp["shape"], periodic=inp["periodic"])
        mask = np.array(inp["mask"], bool).reshape(inp["shape"])
        em, exc, labels, n, rec = run_one(grid, mask)
        f = f"raised {exc}" if exc else lc.oracle_cart(grid, mask, em, rec)
    elif fam == "cylindrical":
        from pde import CylindricalSymGrid
        grid = CylindricalSymGrid(inp["bounds"][0][1], tuple(inp["bounds"][1]), inp["shape"], periodic_z=inp["periodic_z"])
        mask = np.array(inp["mask"], bool).reshape(inp["shape"])
        em, exc, lab_pad, lab, cands, out, M = run_cyl(grid, mask)
        fl = [] if exc else [f"{c}: {d}" for c, d in lc.oracle_cyl(grid, mask, em, cands, out)
                             if not (c in KNOWN_CLASSES and (KNOWN_CLASSES[c] != "F29" or inp["periodic_z"]))]
        f = f"raised {exc}" if exc else (fl[0] if fl else None)
    else:
        import pde
        grid = getattr(pde, fam)(tuple(inp["bounds"]), inp["n"])
        mask = np.array(inp["mask"], bool)
        em, exc, _ = locate_mask(grid, mask)
        n_in = 0
        while n_in < len(mask) and mask[n_in]:
            n_in += 1
        rlo, rhi = grid.axes_bounds[0]
        want = rlo + n_in * (rhi - rlo) / grid.shape[0]
        f = (f"raised {exc}" if exc else
             None if (n_in == 0 and len(em) == 0) or (n_in > 0 and len(em) == 1 and abs(em[0].radius - want) <= 1e-12 * (1 + rhi)
                                                     and not np.any(em[0].position != 0))
             else f"expected {'no droplet' if n_in == 0 else 'one droplet of radius %r at the origin' % want}")
    if f is None and dt and em is not None:
        f = other_dtype_failure(grid, mask, em, dt)
    print("property oracle on the current tree:", f or "holds")
    return 1 if f else 0
