"""C02 -- each located droplet is one connected component under the grid's topology."""
from __future__ import annotations

import itertools
import json
import random

import numpy as np

import vlib
import locate_common as lc

TRUSTED = [
    "Coq 8.16.1 kernel + vm_compute",
    "scipy.ndimage.label as an oracle: LabelSpec (non-zero exactly on the mask; equal labels <=> face-connected; numbered 1..n in raster order) "
    "is a premise of the theorems and is checked on every sample against an independent breadth-first labelling",
    "scipy.ndimage.center_of_mass / sum (modelled as mean index / count; compared per sample through the candidates)",
    "correspondence harness (harness/locate_common.py): candidates and distance matrix recorded inside remove_overlapping as called from image_analysis",
    "py-pde grid.transform / normalize_point / distance as modelled in Model/Grid.v",
]
ASSUME = [
    "coarse-dyadic spacings and origins: centre-of-mass arithmetic is exact up to the final quotient (relative tolerance 1e-12)",
    "overlap removal consumes the float surface-distance matrix computed by the implementation (C10 model)",
]
RULE = ("exhaustive: every binary image on 1-d grids of 1..6 cells, 3x3 and 2x2x2 grids (4x3, 2x3x2 in the thorough tier) with every periodicity mask; "
        "random: noise at densities 0.2..0.8, random-walk (non-convex) shapes, multi-piece boundary crossings on grids up to 9x9 / 5x5x4 with dyadic "
        "spacings and origins; non-trivial = at least two labelled clusters are joined across a periodic boundary or >= 2 components; distinct by (grid, image)")


def make_grid(shape, periodic, rng=None):
    from pde import CartesianGrid
    if rng is None:
        bounds = [(0.0, float(n)) for n in shape]
    else:
        bounds = []
        for n in shape:
            h = rng.choice([0.25, 0.5, 1.0, 1.0, 1.5, 2.0])
            lo = rng.randrange(-16, 17) / 4.0
            bounds.append((lo, lo + n * h))
    return CartesianGrid(bounds, list(shape), periodic=list(periodic))


def run_one(grid, mask):
    from pde import ScalarField
    from scipy import ndimage
    from droplets.image_analysis import locate_droplets_in_mask
    with lc.Recorder() as rec:
        try:
            em = locate_droplets_in_mask(ScalarField(grid, mask, dtype=bool))
            exc = None
        except Exception as e:  # noqa
            em, exc = None, f"{type(e).__name__}: {e}"
    labels, n = ndimage.label(mask)
    return em, exc, labels, n, (rec.log[0] if rec.log else None)


def label_spec_ok(mask, labels, n):
    ref, k = lc.plain_components(mask)
    return k == n and np.array_equal(ref, labels)


def random_mask(rng, shape):
    kind = rng.choice(["noise", "noise", "walk", "walk", "pieces"])
    m = np.zeros(shape, bool)
    if kind == "noise":
        p = rng.choice([0.2, 0.35, 0.5, 0.65, 0.8])
        nrng = np.random.default_rng(rng.randrange(1 << 30))
        m = nrng.random(shape) < p
    elif kind == "walk":
        for _ in range(rng.randrange(1, 4)):
            c = [rng.randrange(n) for n in shape]
            for _ in range(rng.randrange(2, 4 * max(shape))):
                m[tuple(c)] = True
                ax = rng.randrange(len(shape))
                c[ax] = (c[ax] + rng.choice([-1, 1])) % shape[ax]
    else:
        for _ in range(rng.randrange(2, 6)):
            ax = rng.randrange(len(shape))
            c = [rng.randrange(n) for n in shape]
            c[ax] = rng.choice([0, shape[ax] - 1])
            m[tuple(c)] = True
            c2 = list(c)
            a2 = rng.randrange(len(shape))
            c2[a2] = (c2[a2] + 1) % shape[a2]
            m[tuple(c2)] = True
    return m, kind


def gen_cases(ctx, rng):
    cases = []
    # exhaustive small grids
    ex_shapes = [(n,) for n in range(1, 7)] + [(3, 3), (2, 2, 2)]
    if not ctx.quick:
        ex_shapes += [(4, 3), (2, 3, 2)]
    for shape in ex_shapes:
        ncell = int(np.prod(shape))
        for per in itertools.product([False, True], repeat=len(shape)):
            grid = make_grid(shape, per)
            for bits in range(1 << ncell):
                mask = np.array([(bits >> i) & 1 for i in range(ncell)], bool).reshape(shape)
                cases.append((grid, mask, "exhaustive"))
    # random larger images
    for _ in range(ctx.scale(400, 5000)):
        dim = rng.choice([1, 2, 2, 2, 3])
        shape = tuple(rng.randrange(2, {1: 12, 2: 10, 3: 6}[dim]) for _ in range(dim))
        per = tuple(rng.random() < 0.6 for _ in range(dim))
        grid = make_grid(shape, per, rng)
        mask, kind = random_mask(rng, shape)
        cases.append((grid, mask, kind))
    return cases


def check(ctx: vlib.Ctx) -> int:
    rng = random.Random(ctx.seed)
    ok = vlib.prove(ctx, ["Proofs/C02.vo", "Model/LocateCases.vo"], gens=[])
    ctx.tie.append("hand-written model (Model/MergeLoop.v, Model/Locate.v) + correspondence on locate_droplets_in_mask; ndimage.label as checked oracle")
    lits, meta, fails = [], [], []
    nspec_bad = 0
    for grid, mask, kind in gen_cases(ctx, rng):
        em, exc, labels, n, rec = run_one(grid, mask)
        per = [bool(p) for p in grid.periodic]
        ncomp = len(lc.torus_components(mask, per)) if mask.any() else 0
        ctx.case([list(grid.shape), per, [list(b) for b in grid.axes_bounds], mask.astype(int).ravel().tolist()],
                 nontrivial=(n >= 2))
        ctx.count("kind", kind)
        ctx.count("dim", grid.dim)
        ctx.count("periodic_axes", sum(per))
        ctx.count("labels_minus_components", n - ncomp)
        inp = {"shape": list(grid.shape), "periodic": per, "bounds": [list(b) for b in grid.axes_bounds],
               "mask": mask.astype(int).ravel().tolist()}
        if exc:
            fails.append({"what": f"locate_droplets_in_mask raised {exc}", "input": inp})
            continue
        if not label_spec_ok(mask, labels, n):
            nspec_bad += 1
            ctx.broken.append(f"oracle-spec:ndimage.label violated on {inp}")
        f = lc.oracle_cart(grid, mask, em, rec)
        if f:
            fails.append({"what": f, "input": inp})
        if rec is not None:
            lits.append(lc.loc_case_lit(grid, labels, rec))
            meta.append(inp)
        elif n != 0 or len(em) != 0:
            fails.append({"what": "no candidates recorded although clusters exist", "input": inp})
    ctx.sample(meta[len(meta) // 3] if meta else {})
    ctx.sample({"coq_case": lits[-1][:600]} if lits else {})
    header = ("From Coq Require Import QArith ZArith List.\nImport ListNotations.\n"
              "From PD Require Import Model.Grid Model.Locate Model.LocateCases.\nLocal Open Scope Q_scope.\n")
    if ok:
        bad = vlib.run_cases(ctx, "cart", header, lits, "loc_agree", shard=250)
        for b in bad[:3]:
            ctx.broken.append(f"correspondence locate_droplets_in_mask (Cartesian): model and implementation differ on {meta[b]}")
    for f in fails[:3]:
        ctx.violations.append({**f, "found": True, "broken": ctx.broken[:3]})
    return vlib.finish(ctx, "", TRUSTED, ASSUME, RULE, exhaustive=True)


def replay(path: str) -> int:
    obj = json.load(open(path))
    print(json.dumps(obj, indent=1)[:1500])
    inp = obj.get("input", {})
    if "mask" in inp:
        from pde import CartesianGrid
        grid = CartesianGrid([tuple(b) for b in inp["bounds"]], inp["shape"], periodic=inp["periodic"])
        mask = np.array(inp["mask"], bool).reshape(inp["shape"])
        em, exc, labels, n, rec = run_one(grid, mask)
        f = f"raised {exc}" if exc else lc.oracle_cart(grid, mask, em, rec)
        print("property oracle on the current tree:", f or "holds")
        return 1 if f else 0
    return 0
