"""C02 -- each located droplet is one connected component under the grid's topology."""
from __future__ import annotations

import itertools
import json
import random

import numpy as np

import vlib
import locate_common as lc

TRUSTED = [
    "Coq 8.16.1 kernel + vm_compute",
    "scipy.ndimage.label as an oracle: LabelSpec (non-zero exactly on the mask; equal labels <=> face-connected; numbered 1..n in raster order) "
    "is a premise of the theorems and is checked on every sample against an independent breadth-first labelling",
    "scipy.ndimage.center_of_mass / sum (modelled as mean index / count; compared per sample through the candidates)",
    "correspondence harness (harness/locate_common.py): candidates and distance matrix recorded inside remove_overlapping as called from image_analysis",
    "py-pde grid.transform / normalize_point / distance as modelled in Model/Grid.v",
]
ASSUME = [
    "coarse-dyadic spacings and origins: centre-of-mass arithmetic is exact up to the final quotient (relative tolerance 1e-12)",
    "overlap removal consumes the float surface-distance matrix computed by the implementation (C10 model)",
]
RULE = ("exhaustive: every binary image on 1-d grids of 1..6 cells, 3x3 and 2x2x2 grids (4x3, 2x3x2 in the thorough tier) with every periodicity mask; "
        "random: noise at densities 0.2..0.8, random-walk (non-convex) shapes, multi-piece boundary crossings on grids up to 9x9 / 5x5x4 with dyadic "
        "spacings and origins; non-trivial = at least two labelled clusters are joined across a periodic boundary or >= 2 components; distinct by (grid, image)")


def make_grid(shape, periodic, rng=None):
    from pde import CartesianGrid
    if rng is None:
        bounds = [(0.0, float(n)) for n in shape]
    else:
        bounds = []
        for n in shape:
            h = rng.choice([0.25, 0.5, 1.0, 1.0, 1.5, 2.0])
            lo = rng.randrange(-16, 17) / 4.0
            bounds.append((lo, lo + n * h))
    return CartesianGrid(bounds, list(shape), periodic=list(periodic))


def run_one(grid, mask):
    from pde import ScalarField
    from scipy import ndimage
    from droplets.image_analysis import locate_droplets_in_mask
    with lc.Recorder() as rec:
        try:
            em = locate_droplets_in_mask(ScalarField(grid, mask, dtype=bool))
            exc = None
        except Exception as e:  # noqa
            em, exc = None, f"{type(e).__name__}: {e}"
    labels, n = ndimage.label(mask)
    return em, exc, labels, n, (rec.log[0] if rec.log else None)


def label_spec_ok(mask, labels, n):
    ref, k = lc.plain_components(mask)
    return k == n and np.array_equal(ref, labels)


def random_mask(rng, shape):
    kind = rng.choice(["noise", "noise", "walk", "walk", "pieces"])
    m = np.zeros(shape, bool)
    if kind == "noise":
        p = rng.choice([0.2, 0.35, 0.5, 0.65, 0.8])
        nrng = np.random.default_rng(rng.randrange(1 << 30))
        m = nrng.random(shape) < p
    elif kind == "walk":
        for _ in range(rng.randrange(1, 4)):
            c = [rng.randrange(n) for n in shape]
            for _ in range(rng.randrange(2, 4 * max(shape))):
                m[tuple(c)] = True
                ax = rng.randrange(len(shape))
                c[ax] = (c[ax] + rng.choice([-1, 1])) % shape[ax]
    else:
        for _ in range(rng.randrange(2, 6)):
            ax = rng.randrange(len(shape))
            c = [rng.randrange(n) for n in shape]
            c[ax] = rng.choice([0, shape[ax] - 1])
            m[tuple(c)] = True
            c2 = list(c)
            a2 = rng.randrange(len(shape))
            c2[a2] = (c2[a2] + 1) % shape[a2]
            m[tuple(c2)] = True
    return m, kind


def gen_cases(ctx, rng):
    cases = []
    # exhaustive small grids
    ex_shapes = [(n,) for n in range(1, 7)] + [(3, 3), (2, 2, 2)]
    if not ctx.quick:
        ex_shapes += [(4, 3), (2, 3, 2)]
    for shape in ex_shapes:
        ncell = int(np.prod(shape))
        for per in itertools.product([False, True], repeat=len(shape)):
            grid = make_grid(shape, per)
            for bits in range(1 << ncell):
                mask = np.array([(bits >> i) & 1 for i in range(ncell)], bool).reshape(shape)
                cases.append((grid, mask, "exhaustive"))
    # random larger images
    for _ in range(ctx.scale(400, 5000)):
        dim = rng.choice([1, 2, 2, 2, 3])
        shape = tuple(rng.randrange(2, {1: 12, 2: 10, 3: 6}[dim]) for _ in range(dim))
        per = tuple(rng.random() < 0.6 for _ in range(dim))
        grid = make_grid(shape, per, rng)
        mask, kind = random_mask(rng, shape)
        cases.append((grid, mask, kind))
    return cases


# ---- cylindrical and radial grids ----------------------------------------------------------------
def run_cyl(grid, mask):
    from pde import ScalarField
    from scipy import ndimage
    from droplets.image_analysis import locate_droplets_in_mask
    with lc.Recorder() as rec:
        try:
            em = locate_droplets_in_mask(ScalarField(grid, mask, dtype=bool))
            exc = None
        except Exception as e:  # noqa
            em, exc = None, f"{type(e).__name__}: {e}"
    nz = grid.shape[1]
    lab_pad, _ = ndimage.label(np.pad(mask, [[0, 0], [nz, nz]], mode="wrap"))
    lab, _ = ndimage.label(mask)
    if exc:
        return em, exc, lab_pad, lab, None, None, None
    if rec.log:
        r = rec.log[0]
        cands = [(float(p[2]), v, rad) for p, v, rad, _ in r["cands"]]
        return em, None, lab_pad, lab, cands, r["out"], r["M"]
    cands = [(float(d.position[2]), float(d.volume), float(d.radius)) for d in em]
    return em, None, lab_pad, lab, cands, list(range(len(cands))), None


def cyl_case_lit(grid, lab_pad, lab, cands, out, M):
    cl = vlib.listlit([f"({vlib.qlit(z)}, {vlib.qlit(v / np.pi)})" for z, v, _ in cands])
    rad = vlib.listlit([r for _, _, r in cands], vlib.qlit)
    D = vlib.listlit([vlib.listlit(row, vlib.qlit) for row in (M.tolist() if M is not None else [])])
    nat = lambda i: f"{int(i)}%nat"
    return ("{| cy_grid := %s; cy_lab_pad := %s; cy_lab := %s; cy_cands := %s; cy_rad := %s; cy_D := %s; cy_out := %s |}"
            % (lc.cyl_lit(grid), vlib.listlit(lab_pad.ravel().tolist(), nat), vlib.listlit(lab.ravel().tolist(), nat),
               cl, rad, D, vlib.listlit(out, nat)))


def gen_cyl_cases(ctx, rng):
    from pde import CylindricalSymGrid
    cases = []
    # exhaustive tiny cylinders
    for (nr, nz) in [(1, 3), (2, 2), (2, 3)] + ([] if ctx.quick else [(2, 4), (3, 3)]):
        for per in (False, True):
            grid = CylindricalSymGrid(float(nr), (0.0, float(nz)), (nr, nz), periodic_z=per)
            for bits in range(1 << (nr * nz)):
                mask = np.array([(bits >> i) & 1 for i in range(nr * nz)], bool).reshape(nr, nz)
                cases.append((grid, mask, "exhaustive"))
    for _ in range(ctx.scale(250, 3000)):
        nr, nz = rng.randrange(1, 6), rng.randrange(2, 9)
        dr, dz = rng.choice([0.5, 1.0, 1.0, 2.0]), rng.choice([0.25, 0.5, 1.0, 1.0])
        zlo = rng.randrange(-8, 9) / 2.0
        grid = CylindricalSymGrid(nr * dr, (zlo, zlo + nz * dz), (nr, nz), periodic_z=rng.random() < 0.6)
        kind = rng.choice(["noise", "noise", "axis", "offaxis", "span", "symmetric"])
        m = np.zeros((nr, nz), bool)
        nrng = np.random.default_rng(rng.randrange(1 << 30))
        if kind == "noise":
            m = nrng.random((nr, nz)) < rng.choice([0.3, 0.5, 0.7])
        elif kind == "axis":
            for _ in range(rng.randrange(1, 3)):
                z0 = rng.randrange(nz)
                for z in range(z0, z0 + rng.randrange(1, 4)):
                    m[:rng.randrange(1, nr + 1), z % nz] = True
        elif kind == "offaxis":
            if nr > 1:
                m[1:, :] = nrng.random((nr - 1, nz)) < 0.5
        elif kind == "span":
            m[0, :] = True
            m |= nrng.random((nr, nz)) < 0.3
        else:  # components straddling the periodic boundary symmetrically
            k = rng.randrange(1, max(2, nz // 2))
            m[:rng.randrange(1, nr + 1), :k] = True
            m[:rng.randrange(1, nr + 1), nz - k:] = True
        cases.append((grid, m, kind))
    return cases


def gen_rad_cases(ctx, rng):
    from pde import PolarSymGrid, SphericalSymGrid
    cases = []
    for n in range(1, 7):
        for cls in (PolarSymGrid, SphericalSymGrid):
            grid = cls(float(n), n)
            for bits in range(1 << n):
                cases.append((grid, np.array([(bits >> i) & 1 for i in range(n)], bool), "exhaustive"))
    for _ in range(ctx.scale(100, 1000)):
        n = rng.randrange(1, 20)
        cls = rng.choice((PolarSymGrid, SphericalSymGrid))
        dr = rng.choice([0.25, 0.5, 1.0, 2.0])
        rlo = rng.choice([0.0, 0.0, 0.5, 2.0])
        grid = cls((rlo, rlo + n * dr), n)
        nrng = np.random.default_rng(rng.randrange(1 << 30))
        m = nrng.random(n) < rng.choice([0.4, 0.7, 0.9])
        if rng.random() < 0.5:
            m[: rng.randrange(0, n + 1)] = True
        cases.append((grid, m, "random"))
    return cases


def run_sym_streams(ctx, rng, ok, fails, known_hits):
    from pde import ScalarField
    from droplets.image_analysis import locate_droplets_in_mask
    # ---- cylindrical
    lits, meta = [], []
    for grid, mask, kind in gen_cyl_cases(ctx, rng):
        em, exc, lab_pad, lab, cands, out, M = run_cyl(grid, mask)
        inp = {"family": "cylindrical", "shape": list(grid.shape), "bounds": [list(map(float, b)) for b in grid.axes_bounds],
               "periodic_z": bool(grid.periodic[1]), "mask": mask.astype(int).ravel().tolist()}
        ctx.case(inp, nontrivial=bool(mask[0].any()))
        ctx.count("cyl_kind", kind)
        ctx.count("cyl_periodic", bool(grid.periodic[1]))
        if exc:
            fails.append({"what": f"locate_droplets_in_mask raised {exc}", "input": inp})
            continue
        ctx.count("cyl_droplets", len(em))
        for cls, desc in lc.oracle_cyl(grid, mask, em, cands, out):
            if cls in KNOWN_CLASSES and (KNOWN_CLASSES[cls] != "F29" or bool(grid.periodic[1])):
                known_hits.setdefault(cls, {"what": desc, "input": inp})
            else:
                fails.append({"what": f"{cls}: {desc}", "input": inp})
        lits.append(cyl_case_lit(grid, lab_pad, lab, cands, out, M))
        meta.append(inp)
    header = ("From Coq Require Import QArith ZArith List.\nImport ListNotations.\n"
              "From PD Require Import Model.Grid Model.Locate Model.LocateSym Model.LocateCases.\nLocal Open Scope Q_scope.\n")
    if ok:
        bad = vlib.run_cases(ctx, "cyl", header, lits, "cyl_agree", shard=250)
        for b in bad[:3]:
            ctx.broken.append(f"correspondence locate_droplets_in_mask (cylindrical): model and implementation differ on {meta[b]}")
    ctx.sample(meta[len(meta) // 2])
    # ---- radial
    lits, meta = [], []
    for grid, mask, kind in gen_rad_cases(ctx, rng):
        inp = {"family": type(grid).__name__, "n": int(grid.shape[0]), "bounds": list(map(float, grid.axes_bounds[0])),
               "mask": mask.astype(int).tolist()}
        ctx.case(inp, nontrivial=bool(mask[0]))
        ctx.count("radial_family", type(grid).__name__)
        try:
            em = locate_droplets_in_mask(ScalarField(grid, mask, dtype=bool))
        except Exception as e:  # noqa
            fails.append({"what": f"locate_droplets_in_mask raised {type(e).__name__}: {e}", "input": inp})
            continue
        rlo, rhi = grid.axes_bounds[0]
        dr = (rhi - rlo) / grid.shape[0]
        # property text: the component containing the innermost cell (if any) gives one droplet at the origin whose
        # radius is the outer radius of that component; nothing else is reported
        n_in = 0
        while n_in < len(mask) and mask[n_in]:
            n_in += 1
        if n_in == 0:
            if len(em) != 0:
                fails.append({"what": "droplet reported although no component touches the origin", "input": inp})
        elif len(em) != 1 or abs(em[0].radius - (rlo + n_in * dr)) > 1e-12 * (1 + rhi) or np.any(em[0].position != 0):
            fails.append({"what": f"expected one droplet of radius {rlo + n_in * dr} at the origin, got {[(list(d.position), d.radius) for d in em]}", "input": inp})
        out = f"(Some {vlib.qlit(em[0].radius)})" if len(em) else "None"
        lits.append("{| rd_lo := %s; rd_dr := %s; rd_mask := %s; rd_out := %s |}"
                    % (vlib.qlit(rlo), vlib.qlit(dr), vlib.listlit(mask.tolist(), vlib.blit), out))
        meta.append(inp)
    if ok:
        bad = vlib.run_cases(ctx, "radial", header, lits, "rad_agree", shard=400)
        for b in bad[:3]:
            ctx.broken.append(f"correspondence locate_droplets_in_mask (radial): model and implementation differ on {meta[b]}")


# failure classes of the cylindrical oracle that are matched against known_findings.json
KNOWN_CLASSES = {"position is not the volume-weighted centre of mass": "F27", "overlap": "F29", "winding volume": "F29"}


def check(ctx: vlib.Ctx) -> int:
    rng = random.Random(ctx.seed)
    ok = vlib.prove(ctx, ["Proofs/C02.vo", "Proofs/LocateCart.vo", "Proofs/LabelClients.vo", "Proofs/LabelUnique.vo", "Model/LocateCases.vo"], gens=[])
    ctx.tie.append("hand-written model (Model/MergeLoop.v, Model/Locate.v) + correspondence on locate_droplets_in_mask; ndimage.label as checked oracle")
    lits, meta, fails = [], [], []
    nspec_bad = 0
    for grid, mask, kind in gen_cases(ctx, rng):
        em, exc, labels, n, rec = run_one(grid, mask)
        per = [bool(p) for p in grid.periodic]
        ncomp = len(lc.torus_components(mask, per)) if mask.any() else 0
        ctx.case([list(grid.shape), per, [list(b) for b in grid.axes_bounds], mask.astype(int).ravel().tolist()],
                 nontrivial=(n >= 2))
        ctx.count("kind", kind)
        ctx.count("dim", grid.dim)
        ctx.count("periodic_axes", sum(per))
        ctx.count("labels_minus_components", n - ncomp)
        inp = {"shape": list(grid.shape), "periodic": per, "bounds": [list(b) for b in grid.axes_bounds],
               "mask": mask.astype(int).ravel().tolist()}
        if exc:
            fails.append({"what": f"locate_droplets_in_mask raised {exc}", "input": inp})
            continue
        if not label_spec_ok(mask, labels, n):
            nspec_bad += 1
            ctx.broken.append(f"oracle-spec:ndimage.label violated on {inp}")
        f = lc.oracle_cart(grid, mask, em, rec)
        if f:
            fails.append({"what": f, "input": inp})
        if rec is not None:
            lits.append(lc.loc_case_lit(grid, labels, rec))
            meta.append(inp)
        elif n != 0 or len(em) != 0:
            fails.append({"what": "no candidates recorded although clusters exist", "input": inp})
    ctx.sample(meta[len(meta) // 3] if meta else {})
    ctx.sample({"coq_case": lits[-1][:600]} if lits else {})
    header = ("From Coq Require Import QArith ZArith List.\nImport ListNotations.\n"
              "From PD Require Import Model.Grid Model.Locate Model.LocateCases.\nLocal Open Scope Q_scope.\n")
    if ok:
        bad = vlib.run_cases(ctx, "cart", header, lits, "loc_agree", shard=250)
        for b in bad[:3]:
            ctx.broken.append(f"correspondence locate_droplets_in_mask (Cartesian): model and implementation differ on {meta[b]}")
    known_hits = {}
    run_sym_streams(ctx, rng, ok, fails, known_hits)
    listed = {e["id"] for e in vlib.load_known() if e.get("property") == "C02" and e.get("kind") == "finding"}
    for cls, hit in known_hits.items():
        fid = KNOWN_CLASSES[cls]
        if fid in listed:
            ctx.known_printed.append(f"[{fid}] cylindrical grid: {cls}: {hit['what']} on {hit['input']}")
        else:
            fails.append({"what": f"{cls}: {hit['what']}", "input": hit["input"]})
    for f in fails[:3]:
        ctx.violations.append({**f, "found": True, "broken": ctx.broken[:3]})
    return vlib.finish(ctx, "", TRUSTED, ASSUME, RULE, exhaustive=True)


def replay(path: str) -> int:
    obj = json.load(open(path))
    print(json.dumps(obj, indent=1)[:1500])
    inp = obj.get("input", {})
    if "mask" in inp:
        from pde import CartesianGrid
        grid = CartesianGrid([tuple(b) for b in inp["bounds"]], inp["shape"], periodic=inp["periodic"])
        mask = np.array(inp["mask"], bool).reshape(inp["shape"])
        em, exc, labels, n, rec = run_one(grid, mask)
        f = f"raised {exc}" if exc else lc.oracle_cart(grid, mask, em, rec)
        print("property oracle on the current tree:", f or "holds")
        return 1 if f else 0
    return 0
