"""C20 -- collections stay aligned and own their droplets under any sequence of edits.

(a) proofs: coq/Model/Heap.v, coq/Proofs/Heap*.v, coq/Proofs/C20.v, coq/Properties/C20.v
(b) correspondence: operation sequences are executed on the real classes of /repo; after each
    operation every collection, every caller handle and the aliasing signature are dumped and
    compared INSIDE Coq with what Model.Heap.exec produces for the same operation list
(c) property oracle (Python, written from the property text): a plain list model with deep-copied
    values is kept next to the real objects; contents, independence, alignment, rejection and the
    summary queries are checked against it
"""
from __future__ import annotations

import copy as _copy
import itertools
import json
import logging
import math
import pickle
import random
from fractions import Fraction

import numpy as np

import vlib

TRUSTED = [
    "Coq 8.16.1 kernel + vm_compute (no native_compute)",
    "hand-written model coq/Model/Heap.v of Emulsion / EmulsionTimeCourse / DropletTrack / DropletTrackList "
    "(tied to /repo by the correspondence run of this check: same operation list executed by the implementation "
    "and by Heap.exec, dumps compared inside Coq)",
    "harness/props/C20.py: executor of the operation language on the real classes, canonical dump "
    "(values as exact rationals, identity classes via `is`, memory classes via np.shares_memory)",
    "numpy record semantics (a np.record taken from a recarray is a view of its row)",
    "state between calls: the reference is the state-free model (Coq) and, for the summary queries, a fresh emulsion of "
    "equal droplets built by the harness; query results kept by the caller are compared bit for bit (_freeze)",
    "Python built-in list semantics for keys: a negative index i denotes position len+i, a slice selects "
    "range(*slice.indices(len)) -- the harness computes these with Python itself and hands the model positions",
]
ASSUME = [
    "theorems are about the Gallina model; Python/numpy semantics are outside the logic",
    "merged droplet data (cube roots) and the set of indices removed by remove_overlapping are oracle inputs of the "
    "model operations, recorded from the implementation (aliasing/ownership/alignment are what is modelled)",
    "EmulsionTimeCourse.append copies the droplets twice (Emulsion(e) then .copy()); the unreachable intermediate "
    "copy is not represented in the model",
    "droplet values are finite in the model (interface_width=None, i.e. NaN, is exercised by the Python oracle's "
    "width_probe only)",
    "summary statistics theorems are over Q with an abstract per-droplet volume/area function (pi and roots are "
    "not rational); np.std is stated as variance",
    "copy.copy / copy.deepcopy / pickle of an Emulsion are one model operation (OEmClone: the reconstruction goes "
    "through Emulsion.append / extend with copy=True); deepcopy / pickle of a DropletTrack is compared with OTrCopy; "
    "the spelling of an explicit dtype (droplet, numpy dtype, plain descr dtype, array, record) and of the iterable "
    "(list, tuple, generator) and the Python/numpy type of a number are harness-side provenance of one model operation",
]
RULE = ("operation sequences over the 42-operation language of Model.Heap (44 harness operations): exhaustive over a 19-letter alphabet "
        "after a fixed 9-operation prefix (all sequences up to the tier's length), exhaustive over the extended "
        "33-letter alphabet (constructor, clones, general slices, self-extension) up to length 2 plus sampled length-3 sequences, the "
        "layout matrix (every ordered pair of 13 droplet layouts through every insertion path), the slice matrix (448 "
        "general slice keys on four-member collections of the three types), twin histories (two independent collections "
        "of each type and of two layouts used alternately, no-argument constructors twice, one-shot iterables), plus random "
        "sequences of length <= 40 over all five droplet classes; distinct = distinct operation sequences; "
        "non-trivial = the sequence contains at least one operation that succeeds and changes a collection")

ERR = {"ValueError": "EValue", "TypeError": "EType", "AttributeError": "EAttr", "IndexError": "EIndex"}

np.seterr(all="ignore")
for _n in ("droplets.droplets", "droplets.emulsions", "droplets.droplet_tracks"):
    logging.getLogger(_n).setLevel(logging.CRITICAL)


# ---------------------------------------------------------------------------------------
# values
# ---------------------------------------------------------------------------------------
def _classes():
    from droplets.droplets import (DiffuseDroplet, PerturbedDroplet2D, PerturbedDroplet3D,
                                   PerturbedDroplet3DAxisSym, SphericalDroplet)
    return [SphericalDroplet, DiffuseDroplet, PerturbedDroplet2D, PerturbedDroplet3D, PerturbedDroplet3DAxisSym]


def make_droplet(v):
    """v = (cls, pos, rad, extra)"""
    c, pos, rad, extra = v
    K = _classes()[c]
    pos = [float(x) for x in pos]
    if c == 0:
        return K(pos, float(rad))
    if c == 1:
        return K(pos, float(rad), float(extra[0]))
    return K(pos, float(rad), float(extra[0]), [float(x) for x in extra[1:]])


def value_of(d):
    """canonical value of a droplet object, read from its record"""
    K = _classes()
    c = K.index(type(d))
    names = d.data.dtype.names
    pos = tuple(float(x) for x in np.atleast_1d(d.data["position"]))
    rad = float(d.data["radius"])
    extra = []
    if "interface_width" in names:
        extra.append(float(d.data["interface_width"]))
    if "amplitudes" in names:
        extra.extend(float(x) for x in np.atleast_1d(d.data["amplitudes"]))
    for x in pos + (rad,) + tuple(extra):
        if not math.isfinite(x):
            raise FloatingPointError("non-finite droplet data")
    return (c, pos, rad, tuple(extra))


def dtype_key(dt):
    """(layout, dim, number of extra scalars) of a numpy record dtype, None for None"""
    if dt is None:
        return None
    names = dt.names
    layout = 2 if "amplitudes" in names else (1 if "interface_width" in names else 0)
    shp = dt.fields["position"][0].shape
    dim = int(shp[0]) if shp else 1
    nextra = 0
    if "interface_width" in names:
        nextra += 1
    if "amplitudes" in names:
        s = dt.fields["amplitudes"][0].shape
        nextra += int(s[0]) if s else 1
    return (layout, dim, nextra)


def set_field(d, k, q):
    """set flat field k (position..., radius, interface_width, amplitudes...) through the property setters"""
    q = float(q)
    dim = len(np.atleast_1d(d.data["position"]))
    names = d.data.dtype.names
    if k < dim:
        p = np.array(d.position, dtype=float)
        p[k] = q
        d.position = p
    elif k == dim:
        d.radius = q
    else:
        j = k - dim - 1
        if "interface_width" not in names:
            raise IndexError("no such field")
        if j == 0:
            d.interface_width = q
        else:
            if "amplitudes" not in names or j - 1 >= d.modes:
                raise IndexError("no such field")
            a = np.array(d.amplitudes, dtype=float)
            a[j - 1] = q
            d.amplitudes = a


def write_row(row, k, q):
    """write flat field k of one row (a record) of a linked array"""
    q = float(q)
    dim = len(np.atleast_1d(row["position"]))
    names = row.dtype.names
    if k < dim:
        row["position"][k] = q
    elif k == dim:
        row["radius"] = q
    else:
        j = k - dim - 1
        if "interface_width" not in names:
            raise IndexError("no such field")
        if j == 0:
            row["interface_width"] = q
        else:
            if "amplitudes" not in names or j - 1 >= len(np.atleast_1d(row["amplitudes"])):
                raise IndexError("no such field")
            row["amplitudes"][j - 1] = q


DUMMY = (0, (), 0.0, ())


# ---------------------------------------------------------------------------------------
# the world: the real objects, mirrored index by index by the tables of Model.Heap
# ---------------------------------------------------------------------------------------
class World:
    def __init__(self):
        self.H, self.E, self.T, self.K, self.A, self.L = [], [], [], [], [], []
        self.TV = []         # Python lists of times owned by the caller
        self.Asrc = []       # emulsion each linked array came from (generator bookkeeping only)
        self.sizes = []      # (collection kind, length of the targeted collection before the operation): evidence only

    # -- execution -------------------------------------------------------------------
    def apply(self, op):
        """Execute op on the implementation.  Returns (completed op, outcome) where outcome is 'Ok' or
        the error enum; oracle fields of the op (removed indices, merged value) are filled in."""
        self.sizes.append(self._target_size(op))
        self.last_error = None
        try:
            op2 = self._do(op)
            return (op2 or op), "Ok"
        except _Completed as c:  # error raised by the implementation, op completed with oracle data
            self.last_error = c.kind
            return c.op, c.kind
        except FloatingPointError:
            raise
        except Exception as ex:  # noqa
            self.last_error = f"{type(ex).__name__}: {ex}"[:200]
            return op, ERR.get(type(ex).__name__, "EOther")

    _TARGET = {"E": ("Append", "Extend", "Get", "SetM", "Copy", "Slice", "SliceG", "Add", "RemoveSmall", "RemoveOverlap",
                     "Link", "Merge", "EmClone", "EmCopyCtor", "ExtendSelf"),
               "T": ("TcAppend", "TcAppendBad", "TcSlice", "TcSliceG", "TcClear", "TcCopy", "TcClone"),
               "K": ("TrAppend", "TrAppendBad", "TrSlice", "TrSliceG", "TrGet", "TrCopy", "TrClone"),
               "L": ("TlRemoveShort",)}

    def _target_size(self, op):
        try:
            for kind, names in self._TARGET.items():
                if op[0] in names:
                    x = getattr(self, kind)[op[1]]
                    return kind, len(x.emulsions if kind == "T" else x.droplets if kind == "K" else x)
        except Exception:  # noqa
            pass
        return None

    def _do(self, op):
        from droplets.emulsions import Emulsion, EmulsionTimeCourse
        from droplets.droplet_tracks import DropletTrack, DropletTrackList
        H, E, T, K, A, L = self.H, self.E, self.T, self.K, self.A, self.L
        n = op[0]
        if n == "New":
            H.append(make_droplet(op[1]))
        elif n == "View":
            d = H[op[1]]
            H.append(type(d).from_data(d.data))
        elif n == "SetH":
            set_field(H[op[1]], op[2], op[3])
        elif n == "EmNew":
            E.append(Emulsion())
        elif n == "Append":
            _, c, i, cp, fc = op
            d, e = H[i], E[c]
            kw = {}
            if not cp:
                kw["copy"] = False
            if fc:
                kw["force_consistency"] = True
            e.append(d, **kw)
        elif n == "Extend":
            _, c, idx, cp, fc = op[:5]
            ds = [H[i] for i in idx]
            keep = list(ds)
            e = E[c]
            kw = {}
            if not cp:
                kw["copy"] = False
            if fc:
                kw["force_consistency"] = True
            try:
                e.extend(_as_iterable(ds, op[5] if len(op) > 5 else "list"), **kw)
            finally:
                _same_list(ds, keep)
        elif n == "ExtendSelf":
            _, c, how, cp, fc = op
            e = E[c]
            n0 = len(e)
            arg = {"self": lambda: e, "alias": lambda: E[c], "list": lambda: list(e), "tuple": lambda: tuple(e),
                   "slice": lambda: e[:]}[how]()
            kw = {}
            if not cp:
                kw["copy"] = False
            if fc:
                kw["force_consistency"] = True
            try:
                _bounded_extend(e, arg, kw, 2 * n0 + 4)
            except _Runaway:
                list.__delitem__(e, slice(n0, None))     # harness clean-up: keep the world small
                raise
        elif n == "Get":
            done = op[:3] + (_norm(op[2], len(E[op[1]])),)
            try:
                H.append(E[op[1]][op[2]])
            except Exception as ex:  # noqa
                raise _Completed(done, ERR.get(type(ex).__name__, "EOther"))
            return done
        elif n == "SetM":
            done = op[:5] + (_norm(op[2], len(E[op[1]])),)
            try:
                set_field(E[op[1]][op[2]], op[3], op[4])
            except Exception as ex:  # noqa
                raise _Completed(done, ERR.get(type(ex).__name__, "EOther"))
            return done
        elif n == "Copy":
            e = E[op[1]]
            E.append(e.copy() if op[2] == -1 else e.copy(min_radius=_num(op[2])))
        elif n == "EmCtor":
            _, idx, dt, dtkind, itkind, cp, fc = op
            ds = [H[i] for i in idx]
            if dtkind == "empty":
                if idx or cp or fc:
                    raise RuntimeError("Emulsion.empty takes no droplets")
                E.append(Emulsion.empty(H[dt]))
                return None
            ds = _as_iterable(ds, itkind)
            kw = {}
            if dt is not None:
                d0 = H[dt]
                kw["dtype"] = {"droplet": lambda: d0, "dtype": lambda: d0.data.dtype,
                               "plain": lambda: np.dtype(d0.data.dtype.descr),
                               "array": lambda: np.empty(0, dtype=d0.data.dtype),
                               "record": lambda: d0.data}[dtkind]()
            if not cp:
                kw["copy"] = False
            if fc:
                kw["force_consistency"] = True
            keep = list(ds) if isinstance(ds, list) else None
            try:
                E.append(Emulsion(ds, **kw))
            finally:
                if keep is not None:
                    _same_list(ds, keep)
        elif n == "EmCopyCtor":
            e = E[op[1]]
            done = op[:2] + (len(e),)
            keep = list(e)
            r = Emulsion(e)                      # the copy constructor, default flags
            _same_list(e, keep)
            E.append(r)
            return done
        elif n == "EmClone":
            e = E[op[1]]
            how = op[2]
            if how == "copy":
                r = _copy.copy(e)
            elif how == "deepcopy":
                r = _copy.deepcopy(e)
            else:
                r = pickle.loads(pickle.dumps(e, protocol={"pickle": pickle.HIGHEST_PROTOCOL, "pickle2": 2}[how]))
            if type(r) is not Emulsion:
                raise _WrongKind(f"{how} of an Emulsion is a {type(r).__name__}")
            E.append(r)
        elif n == "SliceG":
            e = E[op[1]]
            done = op[:5] + (_sel(op[2], op[3], op[4], len(e)),)
            r = e[_key(op[2], op[3], op[4])]
            if type(r) is not Emulsion:
                raise _WrongKind(f"slice of an Emulsion is a {type(r).__name__}")
            E.append(r)
            return done
        elif n == "Slice":
            E.append(E[op[1]][op[2]:op[3]])
        elif n == "Add":
            e1, e2 = E[op[1]], E[op[2]]
            E.append(e1 + e2)
        elif n == "RemoveSmall":
            if op[2] is None:
                if any(not float(d.data["radius"]) > -1 for d in E[op[1]]):
                    raise RuntimeError("a radius is not > -1 (NaN or negative): not a valid droplet")
                E[op[1]].remove_small()          # default threshold: -inf
            else:
                E[op[1]].remove_small(_num(op[2]))
        elif n == "RemoveOverlap":
            e = E[op[1]]
            before = list(e)
            e.remove_overlapping()
            removed, j = [], 0
            after = list(e)
            for i, d in enumerate(before):  # after is a subsequence of before
                if j < len(after) and after[j] is d:
                    j += 1
                else:
                    removed.append(i)
            if j != len(after):
                raise RuntimeError("remove_overlapping reordered or replaced members")
            return ("RemoveOverlap", op[1], tuple(removed))
        elif n == "Link":
            A.append(E[op[1]].get_linked_data())
            self.Asrc.append(op[1])
        elif n == "WriteA":
            arr = A[op[1]]
            if op[2] >= len(arr):
                raise IndexError("row")
            write_row(arr[op[2]], op[3], op[4])
        elif n == "Merge":
            _, c, i, j, inplace, _v = op
            e = E[c]
            di, dj = e[i], e[j]
            if inplace:
                try:
                    di.merge(dj, inplace=True)
                except Exception as ex:  # noqa
                    raise _Completed(("Merge", c, i, j, True, value_of(di)),
                                     ERR.get(type(ex).__name__, "EOther"))
                return ("Merge", c, i, j, True, value_of(di))
            r = di.merge(dj)
            H.append(r)
            return ("Merge", c, i, j, False, value_of(r))
        elif n == "TcNew":
            ems = [E[c] for c in op[1]]
            keep = list(ems)
            it = op[3] if len(op) > 3 else "list"
            if it == "noargs":          # every argument at its default (called twice: no state shared via defaults)
                if op[1] or op[2] is not None:
                    raise RuntimeError("noargs takes no arguments")
                tc = EmulsionTimeCourse()
            else:
                tc = EmulsionTimeCourse(_as_iterable(ems, it), None if op[2] is None else [_num(t) for t in op[2]])
            _same_list(ems, keep)
            T.append(tc)
            E.extend(tc.emulsions)
        elif n == "TcAppend":
            _, t, c, tm, cp = op
            tc, e = T[t], E[c]
            kw = {}
            if tm is not None:
                kw["time"] = _num(tm)
            if not cp:
                kw["copy"] = False
            tc.append(e, **kw)
            E.append(tc.emulsions[-1])
        elif n == "TcAppendBad":
            T[op[1]].append(3)
        elif n == "TcSlice":
            tc = T[op[1]][op[2]:op[3]]
            T.append(tc)
            E.extend(tc.emulsions)
        elif n == "TcSliceG":
            tc0 = T[op[1]]
            done = op[:5] + (_sel(op[2], op[3], op[4], len(tc0.emulsions)),)
            tc = tc0[_key(op[2], op[3], op[4])]
            if type(tc) is not EmulsionTimeCourse:
                raise _WrongKind(f"slice of an EmulsionTimeCourse is a {type(tc).__name__}")
            T.append(tc)
            E.extend(tc.emulsions)
            return done
        elif n == "TcClone":
            tc0 = T[op[1]]
            tc = _copy.deepcopy(tc0) if op[2] == "deepcopy" else pickle.loads(pickle.dumps(tc0))
            if type(tc) is not EmulsionTimeCourse:
                raise _WrongKind(f"{op[2]} of an EmulsionTimeCourse is a {type(tc).__name__}")
            T.append(tc)
            E.extend(tc.emulsions)
        elif n == "TcClear":
            T[op[1]].clear()
        elif n == "TrNew":
            ds = [H[i] for i in op[1]]
            keep = list(ds)
            it = op[3] if len(op) > 3 else "list"
            if it == "noargs":
                if op[1] or op[2] is not None:
                    raise RuntimeError("noargs takes no arguments")
                K.append(DropletTrack())
            else:
                K.append(DropletTrack(_as_iterable(ds, it), None if op[2] is None else [_num(t) for t in op[2]]))
            _same_list(ds, keep)
        elif n == "TrAppend":
            _, k, i, tm = op
            tr, d = K[k], H[i]
            if tm is None:
                tr.append(d)
            else:
                tr.append(d, time=_num(tm))
        elif n == "TrAppendBad":
            K[op[1]].append(3)
        elif n == "TrSlice":
            K.append(K[op[1]][op[2]:op[3]])
        elif n == "TrSliceG":
            k0 = K[op[1]]
            done = op[:5] + (_sel(op[2], op[3], op[4], len(k0.droplets)),)
            try:
                r = k0[_key(op[2], op[3], op[4])]
            except Exception as ex:  # noqa
                raise _Completed(done, ERR.get(type(ex).__name__, "EOther"))
            if type(r) is not DropletTrack:
                raise _WrongKind(f"slice of a DropletTrack is a {type(r).__name__}")
            K.append(r)
            return done
        elif n == "TrClone":
            k0 = K[op[1]]
            r = _copy.deepcopy(k0) if op[2] == "deepcopy" else pickle.loads(pickle.dumps(k0))
            if type(r) is not DropletTrack:
                raise _WrongKind(f"{op[2]} of a DropletTrack is a {type(r).__name__}")
            K.append(r)
        elif n == "TrGet":
            done = op[:3] + (_norm(op[2], len(K[op[1]].droplets)),)
            try:
                H.append(K[op[1]][op[2]])
            except Exception as ex:  # noqa
                raise _Completed(done, ERR.get(type(ex).__name__, "EOther"))
            return done
        elif n == "TlNew":
            L.append(DropletTrackList([K[k] for k in op[1]]))
        elif n == "TlRemoveShort":
            L[op[1]].remove_short_tracks(float(op[2]))
        elif n == "TcCopy":
            tc = EmulsionTimeCourse(T[op[1]])
            T.append(tc)
            E.extend(tc.emulsions)
        elif n == "TcNewL":
            ems = [E[c] for c in op[1]]
            lst = self.TV[op[2]]
            tc = EmulsionTimeCourse(ems, lst)       # the caller keeps its list
            T.append(tc)
            E.extend(tc.emulsions)
        elif n == "TrCopy":
            K.append(DropletTrack(K[op[1]]))
        elif n == "TrNewL":
            ds = [H[i] for i in op[1]]
            lst = self.TV[op[2]]
            K.append(DropletTrack(ds, lst))
        elif n == "TlistNew":
            kind = op[2] if len(op) > 2 else "list"
            vals = [_num(t) for t in op[1]]
            if kind == "array":
                vals = np.array([float(v) for v in vals], dtype=float)   # the caller's array of times
            elif kind == "tuple":
                vals = tuple(vals)
            self.TV.append(vals)
        elif n == "TlistAppend":
            self.TV[op[1]].append(_num(op[2]))
        elif n == "TlistSet":
            self.TV[op[1]][op[2]] = _num(op[3])
        else:
            raise RuntimeError("unknown op " + n)
        return None

    # -- observation -----------------------------------------------------------------
    def positions(self):
        out = list(self.H)
        for e in self.E:
            out.extend(list(e))
        for k in self.K:
            out.extend(k.droplets)
        return out

    def dump(self):
        """canonical dump; a world that cannot be dumped (e.g. a non-droplet stored in a collection, non-finite
        data) yields a marker dump that equals nothing the model or the list model can produce"""
        try:
            return self._dump()
        except Exception as ex:  # noqa
            d = {k: list(v) for k, v in EMPTY_DUMP.items()}
            d["objsig"] = [777]
            d["undumpable"] = f"{type(ex).__name__}: {ex}"
            return d

    def _dump(self):
        H, E, T, K, A, L = self.H, self.E, self.T, self.K, self.A, self.L
        d = {}
        d["hnd"] = [value_of(x) for x in H]
        d["ems"] = [(dtype_key(getattr(e, "dtype", None)), [value_of(x) for x in e]) for e in E]
        d["tcs"] = [([_fr(t) for t in tc.times], [_index_is(E, e) for e in tc.emulsions]) for tc in T]
        d["trs"] = [([_fr(t) for t in k.times], [value_of(x) for x in k.droplets]) for k in K]
        d["arrs"] = [[_row_value(a[i]) for i in range(len(a))] for a in A]
        d["tls"] = [[_index_is(K, k) for k in l] for l in L]
        d["tvars"] = [[_fr(t) for t in lst] for lst in self.TV]
        tlists = [tc.times for tc in T] + [k.times for k in K] + list(self.TV)
        firstl = {}
        nown = len(T) + len(K)
        # identity of the list objects; a tuple the caller holds is immutable (CPython shares e.g. the empty tuple)
        d["tlsig"] = [firstl.setdefault(("tuple", i) if i >= nown and isinstance(x, tuple) else id(x), i)
                      for i, x in enumerate(tlists)]
        pos = self.positions()
        first = {}
        d["objsig"] = [first.setdefault(id(x), i) for i, x in enumerate(pos)]
        recs = [x.data for x in pos] + [a[i] for a in A for i in range(len(a))]
        d["stosig"] = _memory_classes(recs)
        return d


class _Completed(Exception):
    def __init__(self, op, kind):
        self.op, self.kind = op, kind


class OneShot:
    """an iterator that can be traversed exactly once (what a generator, a file reader or map() is): a consumer that
    peeks, iterates twice or stops early loses or repeats elements, which shows in the contents"""

    def __init__(self, items):
        self._items, self._pos = list(items), 0

    def __iter__(self):
        return self

    def __next__(self):
        if self._pos >= len(self._items):
            raise StopIteration
        self._pos += 1
        return self._items[self._pos - 1]


def _as_iterable(lst, kind):
    if kind == "tuple":
        return tuple(lst)
    if kind == "gen":
        return (x for x in list(lst))
    if kind == "oneshot":
        return OneShot(lst)
    if kind == "map":
        return map(lambda x: x, list(lst))
    return lst


class _Runaway(Exception):
    """Emulsion.extend did not stop after the number of appends a list would need (outcome EOther)"""


def _bounded_extend(e, arg, kw, limit):
    """e.extend(arg, **kw) with a deterministic bound on the number of Emulsion.append calls (extending an emulsion by
    itself must not hang the check); SIGALRM is a backstop for implementations that bypass Emulsion.append"""
    import signal
    from droplets.emulsions import Emulsion
    orig = Emulsion.append
    calls = [0]

    def counted(self, droplet, **kwargs):
        calls[0] += 1
        if calls[0] > limit:
            raise _Runaway(f"more than {limit} appends")
        return orig(self, droplet, **kwargs)

    def on_alarm(signum, frame):
        raise _Runaway("no result after 20 s")

    old = None
    try:
        old = signal.signal(signal.SIGALRM, on_alarm)
        signal.alarm(20)
    except ValueError:      # not in the main thread: the append bound alone
        old = None
    Emulsion.append = counted
    try:
        e.extend(arg, **kw)
    finally:
        Emulsion.append = orig
        if old is not None:
            signal.alarm(0)
            signal.signal(signal.SIGALRM, old)


def _same_list(lst, keep):
    """the caller's list passed as an argument still holds the same objects in the same order"""
    if len(lst) != len(keep) or any(a is not b_ for a, b_ in zip(lst, keep)):
        raise _WrongKind("the list passed as an argument was changed by the call")


class _WrongKind(Exception):
    """the implementation returned an object of the wrong class (mapped to EOther: no model outcome equals it)"""


def tval(t):
    """plain number of a (possibly tagged) number of the operation language: ("f", x) Python float,
    ("f64", x) numpy.float64, ("i64", x) numpy.int64, untagged: Python int when integral, else float"""
    if isinstance(t, (tuple, list)):
        return t[1]
    return t


def _fr(t):
    """exact value of a number read back from the implementation (Python or numpy scalar)"""
    if isinstance(t, np.generic):
        t = t.item()
    return Fraction(t)


def _num(t):
    if isinstance(t, (tuple, list)):
        tag, x = t
        if tag == "f":
            return float(x)
        if tag == "f64":
            return np.float64(x)
        if tag == "i64":
            return np.int64(int(x))
        raise RuntimeError("unknown number tag " + str(tag))
    f = Fraction(t)
    return int(f) if f.denominator == 1 else float(f)


def flavour(t):
    if isinstance(t, (tuple, list)):
        return t[0]
    return "int" if Fraction(t).denominator == 1 else "float"


def _norm(i, n):
    """the list position a Python index i denotes in a list of length n (any out-of-range nat when there is none)"""
    if i >= 0:
        return i
    return n + i if n + i >= 0 else n - i


def _key(start, stop, step):
    return slice(start, stop, step)


def _sel(start, stop, step, n):
    """indices selected by l[start:stop:step] in a list of length n (Python's own slice.indices)"""
    return tuple(range(*slice(start, stop, step).indices(n)))


def _index_is(lst, x):
    for i, y in enumerate(lst):
        if y is x:
            return i
    return 999


def _row_value(row):
    """value of a row of a linked array: (cls is not known to an array: 0), pos, rad, extra"""
    names = row.dtype.names
    extra = []
    if "interface_width" in names:
        extra.append(float(row["interface_width"]))
    if "amplitudes" in names:
        extra.extend(float(x) for x in np.atleast_1d(row["amplitudes"]))
    return (0, tuple(float(x) for x in np.atleast_1d(row["position"])), float(row["radius"]), tuple(extra))


def _memory_classes(recs):
    """label every record with the index of the first record it shares memory with.
    Records are contiguous blocks, so two records share memory iff their byte ranges overlap; the ranges are
    used to avoid the quadratic number of np.shares_memory calls, and np.shares_memory confirms every class
    membership and every pair of neighbouring (in address order) distinct classes."""
    n = len(recs)
    rng = []
    for r in recs:
        a = r.__array_interface__["data"][0]
        rng.append((a, a + max(1, r.dtype.itemsize)))
    order = sorted(range(n), key=lambda i: (rng[i][0], i))
    comp = list(range(n))
    cur_end, members = None, []
    groups = []
    for i in order:
        if cur_end is not None and rng[i][0] < cur_end:
            members.append(i)
            cur_end = max(cur_end, rng[i][1])
        else:
            if members:
                groups.append(members)
            members, cur_end = [i], rng[i][1]
    if members:
        groups.append(members)
    for g in groups:
        rep = min(g)
        for i in g:
            comp[i] = rep
            if i != rep and not np.shares_memory(recs[i], recs[rep]):
                raise RuntimeError("byte ranges overlap but np.shares_memory says no")
    for g1, g2 in zip(groups, groups[1:]):
        if np.shares_memory(recs[g1[0]], recs[g2[0]]):
            raise RuntimeError("byte ranges disjoint but np.shares_memory says yes")
    return comp


# ---------------------------------------------------------------------------------------
# Coq literals
# ---------------------------------------------------------------------------------------
def q(x):
    fr = Fraction(tval(x))
    return f"({fr.numerator}#{fr.denominator})%Q"


def ql(xs):
    if not xs:
        return "[]"
    return "[" + ";".join(f"{Fraction(tval(x)).numerator}#{Fraction(tval(x)).denominator}" for x in xs) + "]%Q"


def nl(xs):
    return "[" + ";".join(str(int(x)) for x in xs) + "]"


def vlit(v):
    return f"(V {v[0]} {ql(v[1])} {q(v[2])} {ql(v[3])})"


def b(x):
    return "true" if x else "false"


def optq(x):
    return "None" if x is None else f"(Some {q(x)})"


def optql(x):
    return "None" if x is None else f"(Some {ql(x)})"


def oplit(op):
    n = op[0]
    if n == "New":
        return f"(ONew {vlit(op[1])})"
    if n == "View":
        return f"(OView {op[1]})"
    if n == "SetH":
        return f"(OSetH {op[1]} {op[2]} {q(op[3])})"
    if n == "EmNew":
        return "OEmNew"
    if n == "Append":
        return f"(OAppend {op[1]} {op[2]} {b(op[3])} {b(op[4])})"
    if n == "Extend":
        return f"(OExtend {op[1]} {nl(op[2])} {b(op[3])} {b(op[4])})"
    if n == "Get":
        return f"(OGet {op[1]} {op[3] if len(op) > 3 else max(op[2], 0)})"
    if n == "SetM":
        return f"(OSetM {op[1]} {op[5] if len(op) > 5 else max(op[2], 0)} {op[3]} {q(op[4])})"
    if n == "EmCtor":
        dt = "None" if op[2] is None else f"(Some {op[2]})"
        return f"(OEmCtor {nl(op[1])} {dt} {b(op[5])} {b(op[6])})"
    if n == "ExtendSelf":
        # e.extend(e[:]) stores (copies of) the fresh droplets of the slice: no aliasing whatever the copy flag
        return f"(OExtendSelf {op[1]} {b(op[3] or op[2] == 'slice')} {b(op[4])})"
    if n == "EmCopyCtor":
        # Emulsion(e) with the default flags: fresh copies of all members, dtype of the first one -- the abstract
        # effect of the full slice e[0:len(e)]
        return f"(OSlice {op[1]} 0 {op[2] if len(op) > 2 else 0})"
    if n == "EmClone":
        return f"(OEmClone {op[1]})"
    if n == "SliceG":
        return f"(OSel {op[1]} {nl(op[5] if len(op) > 5 else ())})"
    if n == "TcSliceG":
        return f"(OTcSel {op[1]} {nl(op[5] if len(op) > 5 else ())})"
    if n == "TrSliceG":
        return f"(OTrSel {op[1]} {nl(op[5] if len(op) > 5 else ())})"
    if n == "TcClone":
        return f"(OTcClone {op[1]})"
    if n == "TrClone":
        # deepcopy / pickle round trip of a track: fresh droplets, fresh list of times -- the abstract effect of the
        # copy constructor (whose dimension and length checks always pass on a track built by append)
        return f"(OTrCopy {op[1]})"
    if n == "Copy":
        return f"(OCopy {op[1]} {q(op[2])})"
    if n == "Slice":
        return f"(OSlice {op[1]} {op[2]} {op[3]})"
    if n == "Add":
        return f"(OAdd {op[1]} {op[2]})"
    if n == "RemoveSmall":
        # remove_small() with the default threshold -inf: the model takes -1 (World._do checks all radii are > -1)
        return f"(ORemoveSmall {op[1]} {q(-1 if op[2] is None else op[2])})"
    if n == "RemoveOverlap":
        return f"(ORemoveOverlap {op[1]} {nl(op[2])})"
    if n == "Link":
        return f"(OLink {op[1]})"
    if n == "WriteA":
        return f"(OWriteA {op[1]} {op[2]} {op[3]} {q(op[4])})"
    if n == "Merge":
        return f"(OMerge {op[1]} {op[2]} {op[3]} {b(op[4])} {vlit(op[5])})"
    if n == "TcNew":
        return f"(OTcNew {nl(op[1])} {optql(op[2])})"
    if n == "TcAppend":
        return f"(OTcAppend {op[1]} {op[2]} {optq(op[3])} {b(op[4])})"
    if n == "TcAppendBad":
        return f"(OTcAppendBad {op[1]})"
    if n == "TcSlice":
        return f"(OTcSlice {op[1]} {op[2]} {op[3]})"
    if n == "TcClear":
        return f"(OTcClear {op[1]})"
    if n == "TrNew":
        return f"(OTrNew {nl(op[1])} {optql(op[2])})"
    if n == "TrAppend":
        return f"(OTrAppend {op[1]} {op[2]} {optq(op[3])})"
    if n == "TrAppendBad":
        return f"(OTrAppendBad {op[1]})"
    if n == "TrSlice":
        return f"(OTrSlice {op[1]} {op[2]} {op[3]})"
    if n == "TrGet":
        return f"(OTrGet {op[1]} {op[3] if len(op) > 3 else max(op[2], 0)})"
    if n == "TlNew":
        return f"(OTlNew {nl(op[1])})"
    if n == "TlRemoveShort":
        return f"(OTlRemoveShort {op[1]} {q(op[2])})"
    if n == "TcCopy":
        return f"(OTcCopy {op[1]})"
    if n == "TcNewL":
        return f"(OTcNewL {nl(op[1])} {op[2]})"
    if n == "TrCopy":
        return f"(OTrCopy {op[1]})"
    if n == "TrNewL":
        return f"(OTrNewL {nl(op[1])} {op[2]})"
    if n == "TlistNew":
        return f"(OTlistNew {ql(op[1])})"
    if n == "TlistAppend":
        return f"(OTlistAppend {op[1]} {q(op[2])})"
    if n == "TlistSet":
        return f"(OTlistSet {op[1]} {op[2]} {q(op[3])})"
    raise RuntimeError(n)


def _vs(l):
    return "[" + ";".join(vlit(v) for v in l) + "]"


def _dt(k):
    return "None" if k is None else f"(Some ({k[0]},{k[1]},{k[2]}))"


ENTRY = {
    "hnd": vlit,
    "ems": lambda x: f"({_dt(x[0])},{_vs(x[1])})",
    "tcs": lambda x: f"({ql(x[0])},{nl(x[1])})",
    "trs": lambda x: f"({ql(x[0])},{_vs(x[1])})",
    "arrs": _vs,
    "tls": nl,
    "tvars": ql,
}
TABLES = ["hnd", "ems", "tcs", "trs", "arrs", "tls"]
EMPTY_DUMP = {"hnd": [], "ems": [], "tcs": [], "trs": [], "arrs": [], "tls": [], "objsig": [], "stosig": [],
              "tvars": [], "tlsig": []}


def _tablit(t, xs):
    return "[" + ";".join(ENTRY[t](x) for x in xs) + "]"


def dumplit(d):
    tabs = " ".join(_tablit(t, d[t]) for t in TABLES)
    return (f"(mkD {tabs} {nl(d['objsig'])} {nl(d['stosig'])} {_tablit('tvars', d['tvars'])} "
            f"{nl(d['tlsig'])})")


def deltalit(prev, d):
    """delta of dump d against the previously transmitted dump prev (tables: new length + changed entries)"""
    def tab(t):
        old, new = prev[t], d[t]
        ch = [(i, x) for i, x in enumerate(new) if i >= len(old) or old[i] != x]
        return f"({len(new)},[" + ";".join(f"({i},{ENTRY[t](x)})" for i, x in ch) + "])"

    def sig(sname):
        return "None" if prev[sname] == d[sname] else f"(Some {nl(d[sname])})"

    parts = [tab(t) for t in TABLES] + [sig("objsig"), sig("stosig"), tab("tvars"), sig("tlsig")]
    return "(mkDD " + " ".join(parts) + ")"


def oclit(o):
    return "Ok" if o == "Ok" else f"(Err {o})"


HEADER = """From Coq Require Import List Arith Bool QArith.
Import ListNotations.
From PD Require Import Model.Heap.
Local Open Scope nat_scope.
Notation V := mkV.
"""


def run_sequence(ops, dump_every=True):
    """Execute ops on a fresh world.  Returns (completed ops, [(outcome, dump or None)], world)."""
    w = World()
    done, obs = [], []
    for k, op in enumerate(ops):
        op2, oc = w.apply(op)
        done.append(op2)
        obs.append((oc, w.dump() if (dump_every or k == len(ops) - 1) else None))
    return done, obs, w


def caselit(done, obs, start=None):
    ol = "[" + ";".join(oplit(o) for o in done) + "]"
    prev = start or EMPTY_DUMP
    items = []
    for oc, d in obs:
        if d is None:
            items.append(f"({oclit(oc)},None)")
        else:
            items.append(f"({oclit(oc)},Some {deltalit(prev, d)})")
            prev = d
    return f"({ol},\n   [" + ";".join(items) + "])"


# ---------------------------------------------------------------------------------------
# generators
# ---------------------------------------------------------------------------------------
VA = (0, (0.0, 0.0), 1.0, ())               # SphericalDroplet, 2d
VB = (1, (1.0, 2.0), 2.0, (0.5,))           # DiffuseDroplet, 2d
VC = (0, (3.0, 0.5), 1.5, ())               # SphericalDroplet, 2d
PREFIX = [("New", VA), ("New", VB), ("New", VC), ("EmNew",), ("Append", 0, 0, True, False),
          ("Append", 0, 2, True, False), ("TlistNew", (2.0,)), ("TcNewL", (0,), 0), ("TrNewL", (0,), 0)]
# after PREFIX: H = [A, B, C]; E[0] = [copy of A, copy of C] (dtype spherical 2d); TV[0] = [2.0] (caller's list);
# T[0] = [E[1]] and K[0] = [copy of A], both constructed with times=TV[0]
ALPHABET = [
    ("SetH", 0, 2, 3.0),                    # caller mutates its own droplet
    ("Append", 0, 0, True, False),          # default flags
    ("Append", 0, 1, False, False),         # documented aliasing insert (other class: diffuse)
    ("Append", 0, 1, True, True),           # force_consistency with another layout -> ValueError
    ("Slice", 0, 0, 2),
    ("Copy", 0, 1.0),
    ("SetM", 0, 0, 2, 5.0),                 # mutate through a member reference
    ("Link", 0),
    ("WriteA", 0, 0, 2, 7.0),
    ("Merge", 0, 0, 1, True, DUMMY),
    ("RemoveSmall", 0, 1.0),
    ("TcAppend", 0, 0, None, True),
    ("TrAppend", 0, 0, None),
    ("Add", 0, 0),
    ("TcSlice", 0, 0, 2),
    ("TcAppendBad", 0),
    ("TcCopy", 0),                          # copy constructor
    ("TlistAppend", 0, 9.0),                # the caller mutates its own list of times
    ("ExtendSelf", 0, "self", True, False),  # e.extend(e): like a list, doubled by the droplets held before the call
]
# 14 letters for the length-4 enumeration of the thorough tier
ALPHABET4 = [a for a in ALPHABET if a[0] not in ("Add", "Copy", "RemoveSmall", "TcAppendBad", "ExtendSelf")]
ALPHABET_EXTRA = [("TrSlice", 0, 0, 2), ("TrAppendBad", 0), ("Get", 0, 1), ("RemoveOverlap", 0, ()), ("TrCopy", 0),
                  ("TlistSet", 0, 0, 4.0), ("TrAppend", 0, 0, None)]


# letters of the extended alphabet (after PREFIX): constructor, clones, general slices, a negative index
NEW_LETTERS = [
    ("EmCtor", (0, 2), None, "droplet", "list", True, True),     # constructor, consistent droplets
    ("EmCtor", (0, 1), 0, "dtype", "gen", True, True),           # explicit dtype; the diffuse droplet is rejected
    ("EmCtor", (), 1, "empty", "list", False, False),            # Emulsion.empty(diffuse droplet)
    ("EmClone", 0, "pickle"),
    ("EmClone", 0, "copy"),
    ("EmCopyCtor", 0),                                           # Emulsion(e)
    ("SliceG", 0, None, None, -1),                               # reversed
    ("TcSliceG", 0, -1, None, None),                             # the last snapshot, negative start
    ("TcClone", 0, "pickle"),
    ("TrSliceG", 0, None, None, -1),
    ("TrClone", 0, "deepcopy"),
    ("SetM", 0, -1, 2, 6.0),                                     # negative index
    ("ExtendSelf", 0, "slice", False, True),                     # e.extend(e[:], copy=False, force_consistency=True)
    ("ExtendSelf", 0, "alias", False, False),                    # the same objects a second time (documented aliasing)
]

# one representative droplet per data layout: class family x dimension x number of modes
LAYOUTS = [
    ("S1", (0, (0.5,), 1.0, ())), ("S2", (0, (0.0, 0.0), 1.0, ())), ("S3", (0, (0.0, 0.5, 1.0), 1.0, ())),
    ("D2", (1, (1.0, 2.0), 2.0, (0.5,))), ("D3", (1, (1.0, 2.0, 0.0), 2.0, (0.5,))),
    ("P2m0", (2, (0.0, 1.0), 1.5, (0.5,))), ("P2m2", (2, (0.0, 1.0), 1.5, (0.5, 0.125, -0.125))),
    ("P2m4", (2, (0.0, 1.0), 1.5, (0.5, 0.125, -0.125, 0.25, 0.0))),
    ("P3m0", (3, (0.0, 1.0, 2.0), 1.5, (0.5,))), ("P3m3", (3, (0.0, 1.0, 2.0), 1.5, (0.5, 0.125, -0.125, 0.25))),
    ("P3m8", (3, (0.0, 1.0, 2.0), 1.5, (0.5, 0.125, -0.125, 0.25, 0.0, 0.0, 0.125, 0.0, -0.25))),
    ("A3m1", (4, (0.0, 0.0, 2.0), 1.5, (0.5, 0.125))), ("A3m3", (4, (0.0, 0.0, 2.0), 1.5, (0.5, 0.125, -0.125, 0.25))),
]
LAYOUT_PATHS = ["append", "extend", "ctor", "empty", "dtype", "ctor_dtype", "emptied", "clone", "slice"]
# pairs that are always run through every path, also by the oracle: same fields and dimension but another number of
# modes (2-d: 2/4/0, 3-d: 3/8), another dimension, another class family, equal layouts, two classes with one dtype
LAYOUT_CORE = [("P2m2", "P2m4"), ("P2m4", "P2m2"), ("P2m2", "P2m0"), ("P3m3", "P3m8"), ("S2", "S3"), ("S2", "D2"),
               ("D2", "S2"), ("S2", "S2"), ("P3m3", "A3m3"), ("D2", "P2m0")]


def twin_case(a, b, rng):
    """Two independent collections of EACH type (emulsions, time courses, tracks, track lists), one per layout, used
    alternately: class-level or module-level state (a dtype cache keyed on the field names, a class attribute
    instead of an instance attribute, a mutable default) would couple them.  Layout a always first, then b."""
    va, vb = dict(LAYOUTS)[a], dict(LAYOUTS)[b]
    it = rng.choice(ITKINDS)
    how = rng.choice(HOWS)
    dim_a = len(va[1])
    return [("New", va), ("New", vb),
            ("EmCtor", (), 0, "empty", "list", False, False), ("EmCtor", (), 1, rng.choice(DTKINDS[:5]), "list", True, False),
            ("Append", 0, 0, True, True), ("Append", 1, 1, True, True),          # each accepts its own layout
            ("Append", 0, 1, True, True), ("Append", 1, 0, True, True),          # ... and judges the other one by ITS dtype
            ("Extend", 0, (0, 0), True, True, it), ("Extend", 1, (1, 1), True, True, it),
            ("EmNew",), ("EmNew",), ("Append", 2, 1, True, False), ("Append", 3, 0, True, False),   # defaults twice
            ("Append", 2, 0, True, True), ("Append", 3, 1, True, True),
            ("TcNew", (), None, "noargs"), ("TcNew", (), None, "noargs"),
            ("TcAppend", 0, 0, None, True), ("TcAppend", 1, 1, 2.5, True), ("TcAppend", 0, 1, None, True),
            ("TcAppend", 1, 0, None, True),
            ("TrNew", (), None, "noargs"), ("TrNew", (), None, "noargs"),
            ("TrAppend", 0, 0, None), ("TrAppend", 1, 1, 4.0), ("TrAppend", 0, 0, None), ("TrAppend", 1, 1, None),
            ("TrAppend", 0, 1, None), ("TrAppend", 1, 0, None),                  # other dimension -> ValueError, no change
            ("Link", 0), ("Link", 1), ("WriteA", 0, 0, dim_a, 3.0), ("EmClone", 0, how), ("EmClone", 1, how),
            ("SetM", 0, 0, dim_a, 2.0), ("Copy", 1, -1), ("Copy", 0, -1),
            ("TlNew", (0, 1)), ("TlNew", (1,)), ("TlRemoveShort", 0, 0.5), ("TcClear", 0), ("TcAppend", 0, 1, None, True),
            ("TcClear", 1), ("TcAppend", 1, 0, None, True), ("TcAppend", 0, 0, 9.5, True), ("TcClear", 0)]


def layout_case(a, b, path, cp, fc, rng):
    """[New a, New b] + one way of building an emulsion of layout a and adding a droplet of layout b"""
    va, vb = dict(LAYOUTS)[a], dict(LAYOUTS)[b]
    kind, it, how = rng.choice(DTKINDS[:5]), rng.choice(ITKINDS), rng.choice(HOWS)
    ops = {
        "append": [("EmNew",), ("Append", 0, 0, cp, False), ("Append", 0, 1, cp, fc)],
        "extend": [("EmNew",), ("Extend", 0, (0, 1, 0), cp, fc)],        # raises in the middle: the first one stays
        "ctor": [("EmCtor", (0, 1, 0), None, "droplet", it, cp, fc)],
        "empty": [("EmCtor", (), 0, "empty", "list", False, False), ("Append", 0, 1, cp, fc),
                  ("Extend", 0, (0, 1), cp, fc)],
        "dtype": [("EmCtor", (), 0, kind, "list", True, False), ("Extend", 0, (1, 0), cp, fc)],
        "ctor_dtype": [("EmCtor", (0, 1), 0, kind, it, cp, fc)],
        "emptied": [("EmNew",), ("Append", 0, 0, True, False), ("RemoveSmall", 0, 100.0), ("Append", 0, 1, cp, fc)],
        "clone": [("EmCtor", (), 0, "empty", "list", False, False), ("EmClone", 0, how), ("Append", 1, 1, cp, fc)],
        "slice": [("EmNew",), ("Append", 0, 0, True, False), ("SliceG", 0, None, None, None), ("Append", 1, 1, cp, fc),
                  ("TcNew", (0,), None), ("Append", 2, 1, cp, fc)],
    }[path]
    return [("New", va), ("New", vb)] + ops


def dyadic(rng, lo, hi, k=2):
    """multiple of 2^-k in [lo, hi]"""
    s = 1 << k
    return rng.randrange(int(lo * s), int(hi * s) + 1) / s


def flavoured(rng, x):
    """the number x as Python int/float (untagged), explicit Python float, numpy.float64 or numpy.int64"""
    r = rng.random()
    if r < 0.55:
        return x
    if r < 0.7:
        return ("f", x)
    if r < 0.9 or Fraction(x).denominator != 1:
        return ("f64", x)
    return ("i64", x)


def rtime(rng):
    """a time: mostly small dyadics; 0 and repeated values occur (times need not increase)"""
    return flavoured(rng, rng.choice([0.0, dyadic(rng, 0, 8, 1), dyadic(rng, 0, 8, 1), float(rng.randrange(0, 4))]))


def rslice(rng, n):
    """start, stop, step of a general slice for a list of length n: None, negative, beyond the ends, steps != 1"""
    def bound():
        r = rng.random()
        if r < 0.3:
            return None
        if r < 0.65:
            return rng.randrange(0, n + 2)
        return -rng.randrange(1, n + 3)
    step = rng.choice([None, None, 1, 2, -1, -1, -2, 3])
    return bound(), bound(), step


def random_value(rng, classes):
    c = rng.choice(classes)
    if c <= 1:
        dim = rng.choice([1, 2, 2, 2, 3, 3])
    elif c == 2:
        dim = 2
    else:
        dim = 3
    pos = tuple(dyadic(rng, -4, 4) for _ in range(dim))
    if c == 4:
        pos = (0.0, 0.0, pos[2])          # axisymmetric droplets must lie on the z axis
    rad = dyadic(rng, 0, 4)
    if c == 0:
        extra = ()
    elif c == 1:
        extra = (dyadic(rng, 0, 2),)
    else:
        modes = rng.choice([0, 2, 2, 4]) if c == 2 else rng.choice([0, 1, 3, 3, 4, 8])
        extra = (dyadic(rng, 0, 2),) + tuple(dyadic(rng, -1, 1, 3) for _ in range(modes))
    return (c, pos, rad, extra)


OPNAMES = ["New", "View", "SetH", "EmNew", "Append", "Extend", "Get", "SetM", "Copy", "Slice", "Add", "RemoveSmall",
           "RemoveOverlap", "Link", "WriteA", "Merge", "TcNew", "TcAppend", "TcAppendBad", "TcSlice", "TcClear",
           "TrNew", "TrAppend", "TrAppendBad", "TrSlice", "TrGet", "TlNew", "TlRemoveShort",
           "TcCopy", "TcNewL", "TrCopy", "TrNewL", "TlistNew", "TlistAppend", "TlistSet",
           "EmCtor", "EmClone", "SliceG", "TcSliceG", "TrSliceG", "TcClone", "TrClone", "EmCopyCtor", "ExtendSelf"]
WEIGHTS = {"New": 5, "View": 1, "SetH": 4, "EmNew": 2, "Append": 8, "Extend": 3, "Get": 2, "SetM": 4, "Copy": 3,
           "Slice": 3, "Add": 2, "RemoveSmall": 2, "RemoveOverlap": 2, "Link": 3, "WriteA": 3, "Merge": 3, "TcNew": 2,
           "TcAppend": 4, "TcAppendBad": 1, "TcSlice": 2, "TcClear": 1, "TrNew": 2, "TrAppend": 4, "TrAppendBad": 1,
           "TrSlice": 2, "TrGet": 1, "TlNew": 1, "TlRemoveShort": 1,
           "TcCopy": 3, "TcNewL": 3, "TrCopy": 3, "TrNewL": 3, "TlistNew": 2, "TlistAppend": 3, "TlistSet": 2,
           "EmCtor": 5, "EmClone": 3, "SliceG": 3, "TcSliceG": 2, "TrSliceG": 2, "TcClone": 2, "TrClone": 2,
           "EmCopyCtor": 2, "ExtendSelf": 3}
SELF_HOWS = ["self", "self", "alias", "list", "tuple", "slice"]
DTKINDS = ["droplet", "dtype", "plain", "array", "record", "empty"]
ITKINDS = ["list", "tuple", "gen", "oneshot", "map"]
HOWS = ["copy", "deepcopy", "pickle", "pickle2"]
MAXMEM = 7      # emulsions / tracks are kept small so that dumps stay small
MAXTAB = 14


def random_op(rng, w, classes, default_only=False):
    """one random operation that mostly refers to existing objects of world w (sometimes to a missing one)"""
    H, E, T, K, A, L = w.H, w.E, w.T, w.K, w.A, w.L

    def idx(lst):
        if rng.random() < 0.02:
            return len(lst) + rng.randrange(2)  # out of range on purpose
        if not lst:
            raise _Skip()
        return rng.randrange(len(lst))

    def flat_index(d):
        n = len(value_flat(value_of(d)))
        return rng.randrange(n) if rng.random() > 0.03 else n

    def pidx(lst):
        """a Python index: like idx, sometimes negative (counted from the end), rarely out of range below"""
        i = idx(lst)
        r = rng.random()
        if lst and r < 0.3:
            return i - len(lst) if i < len(lst) else -len(lst) - 1
        return i

    idx.py = pidx

    names = [n for n in OPNAMES]
    if default_only:
        names = [n for n in names if n not in ("View", "Get", "TrGet")]
    for _ in range(80):
        try:
            op = _random_op_once(rng, w, classes, default_only, names, idx, flat_index)
        except _Skip:
            continue
        except Exception:  # noqa  a world that holds junk (possible only on a broken tree) must not stop the run
            return ("New", random_value(rng, classes))
        if op is not None:
            return op
    return ("New", random_value(rng, classes))


class _Skip(Exception):
    pass


def _random_op_once(rng, w, classes, default_only, names, idx, flat_index):
    H, E, T, K, A, L = w.H, w.E, w.T, w.K, w.A, w.L
    if True:
        n = rng.choices(names, [WEIGHTS[x] for x in names])[0]
        if A and rng.random() < 0.08 and len(H) < MAXTAB:
            # operations on an emulsion whose data has been linked (merge after linking)
            c = rng.choice(w.Asrc)
            m = len(E[c])
            if m:
                i, j = rng.randrange(m), rng.randrange(m)
                if float(E[c][i].data["radius"]) + float(E[c][j].data["radius"]) > 0 and _merge_keeps_valid(E[c][i], E[c][j]):
                    return ("Merge", c, i, j, rng.random() < 0.5, DUMMY)
        if n == "New":
            if len(H) >= MAXTAB:
                return None
            return ("New", random_value(rng, classes))
        if n == "View":
            if len(H) >= MAXTAB:
                return None
            return ("View", idx(H))
        if n == "SetH":
            i = idx(H)
            k = flat_index(H[i]) if i < len(H) else 0
            return ("SetH", i, k, _field_value(rng, H[i] if i < len(H) else None, k))
        if n == "EmNew":
            if len(E) >= MAXTAB:
                return None
            return ("EmNew",)
        if n == "Append":
            c, i = idx(E), idx(H)
            if c < len(E) and len(E[c]) >= MAXMEM:
                return None
            cp = True if default_only else rng.random() < 0.75
            return ("Append", c, i, cp, rng.random() < 0.35)
        if n == "Extend":
            c = idx(E)
            if c < len(E) and len(E[c]) >= MAXMEM - 2:
                return None
            cp = True if default_only else rng.random() < 0.75
            return ("Extend", c, tuple(idx(H) for _ in range(rng.randrange(0, 4))), cp, rng.random() < 0.35,
                    rng.choice(ITKINDS))
        if n == "Get":
            if len(H) >= MAXTAB:
                return None
            c = idx(E)
            return ("Get", c, idx.py(E[c]) if c < len(E) else 0)
        if n == "SetM":
            c = idx(E)
            i = idx.py(E[c]) if c < len(E) else 0
            d = E[c][i] if c < len(E) and -len(E[c]) <= i < len(E[c]) else None
            k = flat_index(d) if d is not None else 0
            return ("SetM", c, i, k, _field_value(rng, d, k))
        if n == "Copy":
            if len(E) >= MAXTAB:
                return None
            return ("Copy", idx(E), rng.choice([-1, 0.0, flavoured(rng, dyadic(rng, 0, 3)), -0.5]))
        if n == "EmCtor":
            if len(E) >= MAXTAB:
                return None
            ids = tuple(idx(H) for _ in range(rng.choice([0, 0, 1, 1, 2, 2, 3])))
            r = rng.random()
            if r < 0.12 and H:
                return ("EmCtor", (), idx(H), "empty", "list", False, False)      # Emulsion.empty(droplet)
            dt, dtkind = None, "droplet"
            if r < 0.55:
                dt, dtkind = idx(H), rng.choice(DTKINDS[:5])
                if ids and rng.random() < 0.6 and ids[0] < len(H):
                    dt = ids[0] if rng.random() < 0.5 else dt     # often a dtype that fits the first droplet
            cp = True if default_only else rng.random() < 0.75
            return ("EmCtor", ids, dt, dtkind, rng.choice(ITKINDS), cp, rng.random() < 0.5)
        if n == "EmClone":
            if len(E) >= MAXTAB:
                return None
            return ("EmClone", idx(E), rng.choice(HOWS))
        if n == "EmCopyCtor":
            if len(E) >= MAXTAB:
                return None
            return ("EmCopyCtor", idx(E))
        if n == "ExtendSelf":
            c = idx(E)
            if c < len(E) and 2 * len(E[c]) > MAXMEM:
                return None
            cp = True if default_only else rng.random() < 0.75
            return ("ExtendSelf", c, rng.choice(SELF_HOWS), cp, rng.random() < 0.35)
        if n == "SliceG":
            if len(E) >= MAXTAB:
                return None
            c = idx(E)
            return ("SliceG", c) + rslice(rng, len(E[c]) if c < len(E) else 0)
        if n == "Slice":
            if len(E) >= MAXTAB:
                return None
            lo = rng.randrange(0, 4)
            return ("Slice", idx(E), lo, rng.randrange(0, 6))
        if n == "Add":
            if len(E) >= MAXTAB:
                return None
            c1, c2 = idx(E), idx(E)
            if c1 < len(E) and c2 < len(E) and len(E[c1]) + len(E[c2]) > MAXMEM:
                return None
            return ("Add", c1, c2)
        if n == "RemoveSmall":
            return ("RemoveSmall", idx(E), rng.choice([None, 0.0, 0, -0.5, flavoured(rng, dyadic(rng, 0, 3)),
                                                        flavoured(rng, dyadic(rng, 0, 3))]))
        if n == "RemoveOverlap":
            return ("RemoveOverlap", idx(E), ())
        if n == "Link":
            if len(A) >= 6:
                return None
            return ("Link", idx(E))
        if n == "WriteA":
            if not A:
                return None
            a = idx(A)
            i = idx(range(len(A[a]))) if a < len(A) else 0
            row = A[a][i] if a < len(A) and i < len(A[a]) else None
            nf = len(value_flat(_row_value(row))) if row is not None else 1
            k = rng.randrange(nf) if rng.random() > 0.03 else nf
            dim = len(np.atleast_1d(row["position"])) if row is not None else 0
            axisym = row is not None and dim == 3 and "amplitudes" in row.dtype.names   # may be axisymmetric
            return ("WriteA", a, i, k, _plain_field_value(rng, k, dim, axisym))
        if n == "Merge":
            if len(H) >= MAXTAB:
                return None
            c = idx(E)
            m = len(E[c]) if c < len(E) else 0
            i, j = idx(range(m)), idx(range(m))
            if i < m and j < m and float(E[c][i].data["radius"]) + float(E[c][j].data["radius"]) == 0:
                return None      # merging two vanished droplets divides by zero (outside this property)
            if i < m and j < m and not _merge_keeps_valid(E[c][i], E[c][j]):
                return None      # merge() does not re-validate: it would move an axisymmetric droplet off its axis
            return ("Merge", c, i, j, rng.random() < 0.5, DUMMY)
        if n == "TcNew":
            if len(T) >= 6 or len(E) >= MAXTAB - 2:
                return None
            cs = tuple(idx(E) for _ in range(rng.randrange(0, 3)))
            r = rng.random()
            if r < 0.4:
                ts = None
            elif r < 0.9:
                ts = tuple(rtime(rng) for _ in cs)
            else:
                ts = tuple(rtime(rng) for _ in range(len(cs) + 1))   # wrong length
            if rng.random() < 0.15:
                return ("TcNew", (), None, "noargs")
            return ("TcNew", cs, ts, rng.choice(["list", "list", "gen", "oneshot", "tuple"]))
        if n == "TcAppend":
            if len(E) >= MAXTAB:
                return None
            t = idx(T)
            if t < len(T) and len(T[t].emulsions) >= 4:
                return None
            return ("TcAppend", t, idx(E), None if rng.random() < 0.5 else rtime(rng), rng.random() < 0.7)
        if n == "TcAppendBad":
            return ("TcAppendBad", idx(T))
        if n == "TcSlice":
            if len(T) >= 6 or len(E) >= MAXTAB - 2:
                return None
            lo = rng.randrange(0, 3)
            return ("TcSlice", idx(T), lo, rng.randrange(0, 5))
        if n == "TcSliceG":
            if len(T) >= 6 or len(E) >= MAXTAB - 2:
                return None
            t = idx(T)
            return ("TcSliceG", t) + rslice(rng, len(T[t].emulsions) if t < len(T) else 0)
        if n == "TcClone":
            if len(T) >= 6 or len(E) >= MAXTAB - 2:
                return None
            return ("TcClone", idx(T), rng.choice(["deepcopy", "pickle"]))
        if n == "TcClear":
            return ("TcClear", idx(T))
        if n == "TrNew":
            if len(K) >= 6:
                return None
            hs = tuple(idx(H) for _ in range(rng.randrange(0, 3)))
            r = rng.random()
            if r < 0.4:
                ts = None
            elif r < 0.9:
                ts = tuple(rtime(rng) for _ in hs)
            else:
                ts = tuple(rtime(rng) for _ in range(len(hs) + 1))
            if rng.random() < 0.15:
                return ("TrNew", (), None, "noargs")
            return ("TrNew", hs, ts, rng.choice(["list", "list", "gen", "oneshot", "tuple"]))
        if n == "TrAppend":
            k = idx(K)
            if k < len(K) and len(K[k].droplets) >= MAXMEM:
                return None
            return ("TrAppend", k, idx(H), None if rng.random() < 0.5 else rtime(rng))
        if n == "TrAppendBad":
            return ("TrAppendBad", idx(K))
        if n == "TrSlice":
            if len(K) >= 6:
                return None
            lo = rng.randrange(0, 3)
            return ("TrSlice", idx(K), lo, rng.randrange(0, 6))
        if n == "TrSliceG":
            if len(K) >= 6:
                return None
            k = idx(K)
            return ("TrSliceG", k) + rslice(rng, len(K[k].droplets) if k < len(K) else 0)
        if n == "TrClone":
            if len(K) >= 6:
                return None
            return ("TrClone", idx(K), rng.choice(["deepcopy", "pickle"]))
        if n == "TrGet":
            if len(H) >= MAXTAB:
                return None
            k = idx(K)
            return ("TrGet", k, idx.py(K[k].droplets) if k < len(K) else 0)
        if n == "TlNew":
            if len(L) >= 3:
                return None
            return ("TlNew", tuple(idx(K) for _ in range(rng.randrange(0, 4))))
        if n == "TlRemoveShort":
            return ("TlRemoveShort", idx(L), dyadic(rng, 0, 4, 1))
        TV = w.TV
        if n == "TcCopy":
            t = idx(T)
            if len(T) >= 6 or len(E) >= MAXTAB - 2:
                return None
            return ("TcCopy", t)
        if n == "TcNewL":
            if len(T) >= 6 or len(E) >= MAXTAB - 2:
                return None
            j = idx(TV)
            want = len(TV[j]) if j < len(TV) and rng.random() < 0.85 else rng.randrange(0, 3)
            if want > 3:
                return None
            return ("TcNewL", tuple(idx(E) for _ in range(want)), j)
        if n == "TrCopy":
            if len(K) >= 6:
                return None
            return ("TrCopy", idx(K))
        if n == "TrNewL":
            if len(K) >= 6:
                return None
            j = idx(TV)
            want = len(TV[j]) if j < len(TV) and rng.random() < 0.85 else rng.randrange(0, 3)
            if want > 4:
                return None
            return ("TrNewL", tuple(idx(H) for _ in range(want)), j)
        if n == "TlistNew":
            if len(TV) >= 4:
                return None
            kind = rng.choice(["list", "list", "array", "tuple"])
            return ("TlistNew", tuple((rtime(rng) if kind != "array" else dyadic(rng, 0, 8, 1))
                                      for _ in range(rng.randrange(0, 4))), kind)
        if n == "TlistAppend":
            j = idx(TV)
            if j < len(TV) and (len(TV[j]) >= 6 or not isinstance(TV[j], list)):
                return None          # arrays and tuples cannot be appended to
            return ("TlistAppend", j, rtime(rng))
        if n == "TlistSet":
            j = idx(TV)
            if j < len(TV) and isinstance(TV[j], tuple):
                return None          # tuples are immutable
            m = len(TV[j]) if j < len(TV) else 0
            x = rtime(rng)
            if j < len(TV) and isinstance(TV[j], np.ndarray):
                x = float(tval(x))   # stored into a float array
            return ("TlistSet", j, idx(range(m)), x)
    return None


def _merge_keeps_valid(di, dj):
    """merge() writes the volume-weighted position without calling check_data(); for an axisymmetric droplet the
    partner must lie on the z axis too, otherwise every later property setter of the result raises"""
    if type(di).__name__.endswith("AxisSym"):
        p = np.atleast_1d(dj.data["position"])
        return len(p) == 3 and p[0] == 0 and p[1] == 0
    return True


def value_flat(v):
    return list(v[1]) + [v[2]] + list(v[3])


def _plain_field_value(rng, k, dim, axisym=False):
    if k < dim:
        return 0.0 if (axisym and k < 2) else dyadic(rng, -4, 4)
    if k <= dim + 1:
        return dyadic(rng, 0, 4)        # radius, interface width: non-negative
    return dyadic(rng, -1, 1, 3)        # amplitudes


def _field_value(rng, d, k):
    dim = len(np.atleast_1d(d.data["position"])) if d is not None else 0
    return _plain_field_value(rng, k, dim, d is not None and type(d).__name__.endswith("AxisSym"))


def random_sequence(rng, length, classes, default_only=False):
    """generate and execute a random sequence (generation looks at the live world to pick valid indices)"""
    w = World()
    done, obs = [], []
    for _ in range(length):
        op = random_op(rng, w, classes, default_only)
        op2, oc = w.apply(op)
        done.append(op2)
        obs.append((oc, w.dump()))
    return done, obs, w


def exhaustive_cases(alphabet, maxlen):
    """all sequences over `alphabet` of length 1..maxlen, each run after PREFIX on a fresh world; only the
    outcome of every step and the dump after the LAST step are recorded (every proper prefix is itself a case)"""
    w0 = World()
    for op in PREFIX:
        _, oc = w0.apply(op)
        assert oc == "Ok", (op, oc)
    d0 = w0.dump()
    out = []
    for n in range(1, maxlen + 1):
        for seq in itertools.product(range(len(alphabet)), repeat=n):
            w = World()
            for op in PREFIX:
                w.apply(op)
            done, obs = [], []
            for k, li in enumerate(seq):
                op2, oc = w.apply(alphabet[li])
                done.append(op2)
                obs.append((oc, w.dump() if k == n - 1 else None))
            out.append((seq, done, obs))
    return d0, out


def run_after_prefix(letters):
    """one sequence of letters after PREFIX on a fresh world: outcomes of every step, dump after the last"""
    w = World()
    for op in PREFIX:
        w.apply(op)
    done, obs = [], []
    for k, letter in enumerate(letters):
        op2, oc = w.apply(letter)
        done.append(op2)
        obs.append((oc, w.dump() if k == len(letters) - 1 else None))
    return done, obs, w


def extended_sequences(rng, nsample3, full3):
    """sequences over ALPHABET + NEW_LETTERS that contain at least one new letter: all of length 1 and 2, and of
    length 3 either all (thorough) or a random sample"""
    alpha = ALPHABET + NEW_LETTERS
    n0 = len(ALPHABET)
    out = []
    for n in (1, 2):
        for seq in itertools.product(range(len(alpha)), repeat=n):
            if max(seq) >= n0:
                out.append(seq)
    if full3:
        out += [seq for seq in itertools.product(range(len(alpha)), repeat=3) if max(seq) >= n0]
    else:
        seen = set()
        while len(seen) < nsample3:
            seq = tuple(rng.randrange(len(alpha)) for _ in range(3))
            if max(seq) >= n0:
                seen.add(seq)
        out += sorted(seen)
    return alpha, out


# the slice matrix: collections of four members (an empty frame, repeated times), every general slice key
VD = (0, (-2.0, 1.0), 2.5, ())
VE = (0, (5.0, 5.0), 0.5, ())
SLICE_PREFIX = [("New", VA), ("New", VC), ("New", VD), ("New", VE), ("EmNew",), ("Extend", 0, (0, 1, 2, 3), True, False),
                ("Slice", 0, 0, 1), ("Slice", 0, 1, 3), ("EmNew",),
                ("TcNew", (0, 1, 2, 3), (0.5, 2.0, 2.0, 7.0)), ("TrNew", (0, 1, 2, 3), (1.0, 2.0, 4.0, 8.0))]
SLICE_BOUNDS = [None, 0, 1, 3, 5, -1, -2, -5]
SLICE_STEPS = [None, 1, 2, 3, -1, -2, -3]


def slice_matrix(rng, fraction):
    """(header, cases, ops): one general slice of the emulsion / time course / track built by SLICE_PREFIX per case"""
    w0 = World()
    for op in SLICE_PREFIX:
        _, oc = w0.apply(op)
        assert oc == "Ok", (op, oc)
    d0 = w0.dump()
    keys = [(a, b_, st) for a in SLICE_BOUNDS for b_ in SLICE_BOUNDS for st in SLICE_STEPS]
    out = []
    for name in ("SliceG", "TcSliceG", "TrSliceG"):
        for key in keys:
            if fraction < 1 and rng.random() >= fraction:
                continue
            w = World()
            for op in SLICE_PREFIX:
                w.apply(op)
            op2, oc = w.apply((name, 0) + key)
            out.append(([op2], [(oc, w.dump())], w))
    return prefix_header(SLICE_PREFIX, d0), d0, out


def prefix_header(pre_ops, d0):
    pre = "[" + ";".join(oplit(o) for o in pre_ops) + "]"
    return (HEADER + f"Definition pre : list op := {pre}.\nDefinition d0 : dump := {dumplit(d0)}.\n"
            "Definition agree_x := agree_after pre d0.\n")


def exhaustive_header(d0):
    pre = "[" + ";".join(oplit(o) for o in PREFIX) + "]"
    return (HEADER + f"Definition pre : list op := {pre}.\nDefinition d0 : dump := {dumplit(d0)}.\n"
            "Definition agree_x := agree_after pre d0.\n")


# ---------------------------------------------------------------------------------------
# (c) property oracle: plain list model in Python, written from the property text
# ---------------------------------------------------------------------------------------
class RefModel:
    """Simple list model: values only (deep copies), no sharing.  Only the operations with default settings are
    supported (insertion copies); the aliasing operations (from_data views, copy=False, integer indexing) are
    documented API behaviour outside the property and are not part of the oracle's sequences."""

    def __init__(self):
        self.H = []          # values
        self.E = []          # [dtype key or None, [values]]
        self.T = []          # [times, [index into E]]
        self.K = []          # [times, [values]]
        self.L = []          # [indices into K]
        self.TV = []         # the caller's own lists of times (values)
        self.nA = 0

    @staticmethod
    def _dtype(v):
        return (0 if v[0] == 0 else 1 if v[0] == 1 else 2, len(v[1]), len(v[3]))

    @staticmethod
    def _set(v, k, x):
        flat = value_flat(v)
        if k >= len(flat):
            raise IndexError
        flat[k] = float(x)
        d = len(v[1])
        return (v[0], tuple(flat[:d]), flat[d], tuple(flat[d + 1:]))

    def _append(self, c, v, force):
        e = self.E[c]
        if e[0] is None:
            e[0] = self._dtype(v)
        elif force and e[0] != self._dtype(v):
            raise ValueError
        e[1].append(v)

    def _new_em(self, vals):
        vals = list(vals)
        self.E.append([self._dtype(vals[0]) if vals else None, vals])

    def step(self, op):
        """returns the expected outcome ('Ok' or error enum); state is updated as the property text demands"""
        try:
            self._do(op)
            return "Ok"
        except ValueError:
            return "EValue"
        except TypeError:
            return "EType"
        except AttributeError:
            return "EAttr"
        except IndexError:
            return "EIndex"
        except RuntimeError:
            return "EOther"

    def _do(self, op):
        H, E, T, K, L = self.H, self.E, self.T, self.K, self.L
        n = op[0]
        if n == "New":
            H.append(op[1])
        elif n == "SetH":
            H[op[1]] = self._set(H[op[1]], op[2], op[3])
        elif n == "EmNew":
            E.append([None, []])
        elif n == "Append":
            _, c, i, cp, fc = op
            v = H[i]
            E[c]
            self._append(c, v, fc)
        elif n == "Extend":
            _, c, idx, cp, fc = op[:5]
            vs = [H[i] for i in idx]
            E[c]
            for v in vs:                      # a rejected droplet stops the loop, earlier ones stay
                self._append(c, v, fc)
        elif n == "ExtendSelf":
            _, c, how, cp, fc = op
            for v in list(E[c][1]):           # like a list: the droplets held BEFORE the call; a rejection stops the loop
                self._append(c, v, fc)
        elif n == "SetM":
            c, i, k, x = op[1:5]
            E[c][1][i] = self._set(E[c][1][i], k, x)
        elif n == "Copy":
            self._new_em(v for v in E[op[1]][1] if v[2] > float(tval(op[2])))
        elif n == "EmCtor":
            _, idx, dt, dtkind, itkind, cp, fc = op
            vs = [H[i] for i in idx]
            new = [None if dt is None else self._dtype(H[dt]), []]
            for v in vs:                      # all or nothing: a rejected droplet makes the constructor raise
                if new[0] is None:
                    new[0] = self._dtype(v)
                elif fc and new[0] != self._dtype(v):
                    raise ValueError
                new[1].append(v)
            E.append(new)
        elif n == "EmCopyCtor":
            self._new_em(E[op[1]][1])
        elif n == "EmClone":
            e = E[op[1]]
            E.append([e[0], list(e[1])])      # the dtype attribute is taken over
        elif n == "SliceG":
            self._new_em(E[op[1]][1][_key(op[2], op[3], op[4])])
        elif n == "Slice":
            self._new_em(E[op[1]][1][op[2]:op[3]])
        elif n == "Add":
            a, b_ = E[op[1]][1], E[op[2]][1]
            self._new_em(a + b_)
        elif n == "RemoveSmall":
            e = E[op[1]]
            thr = -math.inf if op[2] is None else float(tval(op[2]))
            e[1] = [v for v in e[1] if not v[2] <= thr]
        elif n == "RemoveOverlap":
            e = E[op[1]]
            dims = [len(v[1]) for v in e[1]]
            for i in range(len(dims)):
                for j in range(i + 1, len(dims)):
                    if dims[i] != dims[j] and dims[i] != 1 and dims[j] != 1:
                        raise ValueError      # positions of different dimension cannot be subtracted
            e[1] = [v for i, v in enumerate(e[1]) if i not in set(op[2])]
        elif n == "Link":
            e = E[op[1]]
            if not e[1]:
                if e[0] is None:
                    raise RuntimeError
            elif len({v[0] for v in e[1]}) > 1:
                raise TypeError
            self.nA += 1
        elif n == "Merge":
            _, c, i, j, inplace, v = op
            vi, vj = E[c][1][i], E[c][1][j]
            err = None
            if not (len(vj[1]) == len(vi[1]) or len(vj[1]) == 1):
                err = ValueError
            elif vi[0] != 0 and vj[0] == 0:
                err = AttributeError          # a plain sphere has no interface width to average
            if inplace:
                E[c][1][i] = v                # merged data (cube roots): taken from the implementation
            elif err is None:
                H.append(v)
            if err is not None:
                raise err
        elif n == "TcNew":
            ems = [E[c] for c in op[1]]
            ts = list(range(len(ems))) if op[2] is None else [Fraction(tval(t)) for t in op[2]]
            if len(ts) != len(ems):
                raise ValueError
            base = len(E)
            for e in ems:
                self._new_em(e[1])
            T.append([ts, list(range(base, base + len(ems)))])
        elif n == "TcSliceG":
            tc = T[op[1]]
            key = _key(op[2], op[3], op[4])
            ts, cs = tc[0][key], tc[1][key]
            base = len(E)
            for c in cs:
                self._new_em(E[c][1])
            T.append([list(ts), list(range(base, base + len(cs)))])
        elif n == "TcClone":
            tc = T[op[1]]
            base = len(E)
            for c in tc[1]:
                E.append([E[c][0], list(E[c][1])])
            T.append([list(tc[0]), list(range(base, base + len(tc[1])))])
        elif n == "TrSliceG":
            tr = K[op[1]]
            key = _key(op[2], op[3], op[4])
            vs = tr[1][key]
            if len({len(v[1]) for v in vs}) > 1:
                raise ValueError
            K.append([list(tr[0][key]), list(vs)])
        elif n == "TrClone":
            tr = K[op[1]]
            K.append([list(tr[0]), list(tr[1])])
        elif n == "TcAppend":
            _, t, c, tm, cp = op
            tc, e = T[t], E[c]
            self._new_em(e[1])
            if tm is None:
                tm = 0 if not tc[0] else tc[0][-1] + 1
            tc[0].append(Fraction(tval(tm)))
            tc[1].append(len(E) - 1)
        elif n == "TcAppendBad":
            T[op[1]]
            raise TypeError
        elif n == "TcSlice":
            tc = T[op[1]]
            ts, cs = tc[0][op[2]:op[3]], tc[1][op[2]:op[3]]
            base = len(E)
            for c in cs:
                self._new_em(E[c][1])
            T.append([list(ts), list(range(base, base + len(cs)))])
        elif n == "TcClear":
            T[op[1]] = [[], []]
        elif n == "TrNew":
            vs = [H[i] for i in op[1]]
            if len({len(v[1]) for v in vs}) > 1:
                raise ValueError
            ts = list(range(len(vs))) if op[2] is None else [Fraction(tval(t)) for t in op[2]]
            if len(ts) != len(vs):
                raise ValueError
            K.append([ts, vs])
        elif n == "TrAppend":
            _, k, i, tm = op
            tr, v = K[k], H[i]
            if tr[1] and len(tr[1][-1][1]) != len(v[1]):
                raise ValueError
            if tm is None:
                tm = 0 if not tr[0] else tr[0][-1] + 1
            tr[0].append(Fraction(tval(tm)))
            tr[1].append(v)
        elif n == "TrAppendBad":
            K[op[1]]
            raise AttributeError
        elif n == "TrSlice":
            tr = K[op[1]]
            vs = tr[1][op[2]:op[3]]
            if len({len(v[1]) for v in vs}) > 1:
                raise ValueError
            K.append([list(tr[0][op[2]:op[3]]), list(vs)])
        elif n == "TlNew":
            L.append([k for k in op[1] if K[k] is not None])
        elif n == "TlRemoveShort":
            ks = L[op[1]]
            L[op[1]] = [k for k in ks
                        if not ((K[k][0][-1] - K[k][0][0] if K[k][0] else 0) <= Fraction(op[2]))]
        elif n == "TcCopy":
            tc = T[op[1]]
            if len(tc[0]) != len(tc[1]):
                raise ValueError
            base = len(E)
            for c in tc[1]:
                self._new_em(E[c][1])
            T.append([list(tc[0]), list(range(base, base + len(tc[1])))])    # times are copied
        elif n == "TcNewL":
            ems = [E[c] for c in op[1]]
            ts = list(self.TV[op[2]])                                         # the CONTENT of the caller's list
            if len(ts) != len(ems):
                raise ValueError
            base = len(E)
            for e in ems:
                self._new_em(e[1])
            T.append([ts, list(range(base, base + len(ems)))])
        elif n == "TrCopy":
            tr = K[op[1]]
            if len({len(v[1]) for v in tr[1]}) > 1 or len(tr[0]) != len(tr[1]):
                raise ValueError
            K.append([list(tr[0]), list(tr[1])])
        elif n == "TrNewL":
            vs = [H[i] for i in op[1]]
            ts = list(self.TV[op[2]])
            if len({len(v[1]) for v in vs}) > 1 or len(ts) != len(vs):
                raise ValueError
            K.append([ts, vs])
        elif n == "TlistNew":
            self.TV.append([Fraction(tval(t)) for t in op[1]])
        elif n == "TlistAppend":
            self.TV[op[1]].append(Fraction(tval(op[2])))
        elif n == "TlistSet":
            self.TV[op[1]][op[2]] = Fraction(tval(op[3]))
        elif n == "WriteA":
            raise NotImplementedError        # handled by the oracle directly (alias by design)
        else:
            raise NotImplementedError(n)

    def contents(self):
        return {"hnd": list(self.H), "ems": [(e[0], list(e[1])) for e in self.E],
                "tcs": [(list(t[0]), list(t[1])) for t in self.T], "trs": [(list(k[0]), list(k[1])) for k in self.K],
                "tls": [list(l) for l in self.L], "tvars": [list(x) for x in self.TV]}


def world_contents(w):
    d = w.dump()
    return {k: d[k] for k in ("hnd", "ems", "tcs", "trs", "tls", "tvars")}, d


def _close(a, b, scale):
    if isinstance(a, float) and math.isnan(a):
        return isinstance(b, float) and math.isnan(b)
    return abs(a - b) <= 1e-12 * max(1.0, scale)


def _try(f):
    try:
        return ("ok", f())
    except Exception as ex:  # noqa
        return ("err", type(ex).__name__)


def _freeze(x):
    """bit-exact, hashable image of a query result (arrays, dicts, numbers, Cuboid, None)"""
    if isinstance(x, np.ndarray):
        if x.dtype == object:
            return ("objarray", x.shape, tuple(_freeze(v) for v in x.ravel()))
        return ("array", str(x.dtype), x.shape, x.tobytes())
    if isinstance(x, np.void):
        return ("record", str(x.dtype), x.tobytes())
    if isinstance(x, dict):
        return ("dict", tuple(sorted((k, _freeze(v)) for k, v in x.items())))
    if isinstance(x, (list, tuple)):
        return ("seq", tuple(_freeze(v) for v in x))
    if isinstance(x, (float, np.floating)):
        return ("float", "nan" if math.isnan(float(x)) else float(x).hex())
    if isinstance(x, (int, np.integer)):
        return ("int", int(x))
    if x is None:
        return ("none",)
    if hasattr(x, "pos") and hasattr(x, "size"):
        return ("cuboid", _freeze(np.asarray(x.pos)), _freeze(np.asarray(x.size)))
    return ("repr", repr(x))


def _spoil(x):
    """change a query result in place (the caller owns it)"""
    if isinstance(x, np.ndarray):
        if x.dtype.names:
            x["radius"] += 1.0
        elif x.dtype == object:
            x[...] = None          # an array of records of different layouts: replace the entries
        elif x.size:
            x += 1.0
    elif isinstance(x, dict):
        for k in list(x):
            x[k] = -7
    elif hasattr(x, "pos") and hasattr(x, "size"):
        x.pos += 1.0


ORACLE_COUNTS = {}       # evidence of the oracle's state-between-calls examinations (flushed into ctx.hist by check)


def _ocount(key):
    ORACLE_COUNTS[key] = ORACLE_COUNTS.get(key, 0) + 1


KEPT_QUERIES = {
    "E": [("data", lambda e: e.data), ("get_size_statistics", lambda e: e.get_size_statistics()),
          ("bbox", lambda e: e.bbox), ("total_droplet_volume", lambda e: e.total_droplet_volume),
          ("interface_width", lambda e: e.interface_width)],
    "K": [("get_trajectory", lambda k: k.get_trajectory()), ("get_radii", lambda k: k.get_radii()),
          ("data", lambda k: k.data), ("duration", lambda k: k.duration)],
}


def keep_result(w, rng):
    """Call one summary query TWICE on a random collection: both results bit-identical, no shared buffer (spoiling
    the second leaves the first and the collection unchanged).  Returns (failure or None, kept entry or None); the
    kept entry (description, live result, frozen image) is re-examined after every later operation: results must
    not change retroactively (get_linked_data, the documented view, is not among them)."""
    kinds = [k for k in ("E", "K") if getattr(w, k)]
    if not kinds:
        return None, None
    kind = rng.choice(kinds)
    ci = rng.randrange(len(getattr(w, kind)))
    coll = getattr(w, kind)[ci]
    members = list(coll) if kind == "E" else list(coll.droplets)
    if any(type(d).__name__ == "PerturbedDroplet3D" for d in members):
        return None, None                 # numerical volume integration: too slow to call repeatedly
    name, fn = rng.choice(KEPT_QUERIES[kind])
    what = f"{kind}[{ci}].{name}"
    before = [value_of(d) for d in members]
    r1, r2 = _try(lambda: fn(coll)), _try(lambda: fn(coll))
    if r1[0] != r2[0] or (r1[0] == "err" and r1[1] != r2[1]):
        return f"{what} called twice: {r1[0]} {r1[1] if r1[0] == 'err' else ''} then {r2[0]} {r2[1] if r2[0] == 'err' else ''}", None
    if r1[0] == "err":
        return None, None
    f1 = _freeze(r1[1])
    if _freeze(r2[1]) != f1:
        return f"{what} called twice on an unchanged collection gives two different results", None
    if isinstance(r1[1], np.ndarray) and r1[1].size and np.shares_memory(r1[1], r2[1]):
        return f"{what}: the results of two calls share memory", None
    _spoil(r2[1])
    if _freeze(r1[1]) != f1:
        return f"{what}: changing the result of the second call changed the result of the first call", None
    if [value_of(d) for d in members] != before:
        return f"{what}: changing the returned result changed the collection", None
    r3 = _try(lambda: fn(coll))
    if r3[0] != "ok" or _freeze(r3[1]) != f1:
        return f"{what}: a third call after the caller changed an earlier result differs from the first call", None
    _ocount(f"query_twice_and_kept:{kind}.{name}")
    return None, (what, r1[1], f1, lambda: fn(coll))


HEAVY_BUDGET = [6]      # reset by check(): bounds the cost of numerically integrated volumes (0.3 s each)


def check_queries(w, rng, budget=None):
    """summary queries equal their definitions over the members and do not depend on member order"""
    from droplets.emulsions import Emulsion
    fails = []
    budget = budget if budget is not None else [1]     # emulsions with many-mode PerturbedDroplet3D members examined
    deep = set(rng.sample(range(len(w.E)), min(2, len(w.E))))     # emulsions examined against a fresh twin
    for ci, e in enumerate(w.E):
        members = list(e)
        p3 = [d for d in members if type(d).__name__ == "PerturbedDroplet3D"]
        if p3:   # numerical volume integration (0.3 s per droplet with 3 or 8 modes): only a bounded sample of these
            heavy = not all(len(np.atleast_1d(d.data["amplitudes"])) <= 1 for d in p3)
            if rng.random() < (0.9 if heavy else 0.8) or (heavy and (budget[0] <= 0 or len(p3) > 2)):
                continue
            if heavy:
                budget[0] -= 1
        perm = list(members)
        rng.shuffle(perm)
        pe = Emulsion(perm, copy=False)                 # same droplets in another order (read only)
        # definitions over the members
        def_r = _try(lambda: [float(d.data["radius"]) for d in members])
        def_v = _try(lambda: [float(d.volume) for d in members])
        got = _try(lambda: e.get_size_statistics())
        gotp = _try(lambda: pe.get_size_statistics())
        if def_v[0] == "err":
            if members and (got[0] != "err" or got[1] != def_v[1]):
                fails.append(f"E[{ci}].get_size_statistics: expected {def_v[1]}, got {got}")
        else:
            radii, vols = def_r[1], def_v[1]
            if got[0] != "ok":
                fails.append(f"E[{ci}].get_size_statistics raised {got[1]}")
            else:
                st = got[1]
                exp = {"count": len(radii),
                       "radius_mean": float(np.mean(radii)) if radii else math.nan,
                       "radius_std": float(np.std(radii)) if radii else math.nan,
                       "volume_mean": float(np.mean(vols)) if vols else math.nan,
                       "volume_std": float(np.std(vols)) if vols else math.nan}
                sc = max([1.0] + [abs(x) for x in radii + vols])
                for k, x in exp.items():
                    if not _close(float(st[k]), float(x), sc):
                        fails.append(f"E[{ci}].get_size_statistics[{k}] = {st[k]} != definition {x}")
                    if gotp[0] != "ok" or not _close(float(gotp[1][k]), float(x), sc):
                        fails.append(f"E[{ci}].get_size_statistics[{k}] depends on member order")
                # incl_vanished=False: the same definitions over the members with radius > 0
                nz = [(r, v) for r, v in zip(radii, vols) if r > 0]
                gnz = _try(lambda: e.get_size_statistics(incl_vanished=False))
                if gnz[0] != "ok" or gnz[1]["count"] != len(nz):
                    fails.append(f"E[{ci}].get_size_statistics(incl_vanished=False) count {gnz}, expected {len(nz)}")
                elif nz and not (_close(float(gnz[1]["radius_mean"]), float(np.mean([r for r, _ in nz])), sc)
                                 and _close(float(gnz[1]["volume_mean"]), float(np.mean([v for _, v in nz])), sc)):
                    fails.append(f"E[{ci}].get_size_statistics(incl_vanished=False) differs from its definition")
            tv, tvp = _try(lambda: e.total_droplet_volume), _try(lambda: pe.total_droplet_volume)
            sc = max([1.0] + [abs(x) for x in vols]) * max(1, len(vols))
            if tv[0] != "ok" or not _close(float(tv[1]), float(sum(vols)), sc):
                fails.append(f"E[{ci}].total_droplet_volume = {tv} != {sum(vols)}")
            elif tvp[0] != "ok" or not _close(float(tvp[1]), float(tv[1]), sc):
                fails.append(f"E[{ci}].total_droplet_volume depends on member order")

        def width_def(ms):
            num = den = 0.0
            for d in ms:
                if "interface_width" not in d.data.dtype.names:
                    continue
                wv = float(d.data["interface_width"])
                if math.isnan(wv):
                    continue
                a = d.surface_area
                num += wv * a
                den += a
            return None if den == 0 else num / den

        dw, gw, gwp = _try(lambda: width_def(members)), _try(lambda: e.interface_width), _try(lambda: pe.interface_width)
        if dw[0] == "err":
            if gw[0] != "err" or gw[1] != dw[1]:
                fails.append(f"E[{ci}].interface_width: expected {dw[1]}, got {gw}")
        elif gw[0] != "ok" or (dw[1] is None) != (gw[1] is None) or (dw[1] is not None and not _close(gw[1], dw[1], abs(dw[1]))):
            fails.append(f"E[{ci}].interface_width = {gw} != definition {dw[1]}")
        elif gwp[0] != "ok" or (gwp[1] is None) != (gw[1] is None) or (gw[1] is not None and not _close(gwp[1], gw[1], abs(gw[1]))):
            fails.append(f"E[{ci}].interface_width depends on member order")
        # bounding box
        dims = {len(np.atleast_1d(d.data["position"])) for d in members}
        gb = _try(lambda: e.bbox)
        if not members:
            if gb != ("err", "RuntimeError"):
                fails.append(f"E[{ci}].bbox of empty emulsion: {gb}")
        elif len(dims) == 1:
            lo = np.min([np.atleast_1d(d.data["position"]) - float(d.data["radius"]) for d in members], axis=0)
            hi = np.max([np.atleast_1d(d.data["position"]) + float(d.data["radius"]) for d in members], axis=0)
            gbp = _try(lambda: pe.bbox)
            # Cuboid stores (pos, size) and rebuilds the upper corner as pos + size at every union: each union
            # rounds twice (<= 2 ulp of the coordinates), n <= 16 members -> far below 1e-12 * scale
            tol = 1e-12 * max(1.0, float(np.max(np.abs(lo))), float(np.max(np.abs(hi))))
            if gb[0] != "ok" or not (np.allclose(gb[1].pos, lo, rtol=0, atol=tol)
                                     and np.allclose(gb[1].pos + gb[1].size, hi, rtol=0, atol=tol)):
                fails.append(f"E[{ci}].bbox = {gb} != [{lo}, {hi}]")
            elif gbp[0] != "ok" or not (np.allclose(gbp[1].pos, gb[1].pos, rtol=0, atol=tol)
                                        and np.allclose(gbp[1].size, gb[1].size, rtol=0, atol=tol)):
                fails.append(f"E[{ci}].bbox depends on member order")
        if len(e) != len(members):
            fails.append(f"len(E[{ci}])")
        # Emulsion.data is documented as a copy: writing to the returned array must not reach the members
        # (read-only for the world: the array is thrown away)
        if members and len({type(d) for d in members}) == 1 and len({d.data.dtype for d in members}) == 1:
            arr = _try(lambda: e.data)
            if arr[0] != "ok" or not isinstance(arr[1], np.ndarray) or len(arr[1]) != len(members):
                fails.append(f"E[{ci}].data: {arr[1] if arr[0] == 'err' else 'wrong kind or length'}")
            else:
                before = [value_of(d) for d in members]
                arr[1]["radius"] += 1.0
                if [value_of(d) for d in members] != before:
                    fails.append(f"E[{ci}].data is not a copy: writing to it changed the members")
        # state kept between calls: a collection that has been through a history answers like a FRESH collection of
        # equal droplets (bit-identical), also after every single attribute change (set through the property setter
        # and through the record, alternately), and again after the change is undone
        fresh = _try(lambda: Emulsion([make_droplet(value_of(d)) for d in members]))
        if fresh[0] == "ok" and not p3 and ci in deep:      # (volumes of PerturbedDroplet3D are numerical integrals: too slow here)
            def answers(x):
                return _freeze([_try(lambda: x.get_size_statistics()), _try(lambda: x.total_droplet_volume),
                                _try(lambda: x.interface_width),
                                _try(lambda: (x.bbox.pos, x.bbox.size)) if len(x) else None])
            a0 = answers(e)
            _ocount("fresh_twin_compared:emulsions")
            _ocount(f"fresh_twin_compared:requery_after_single_change:{min(len(members), 2)}")
            if a0 != answers(fresh[1]):
                fails.append(f"E[{ci}]: summary queries differ from those of a fresh emulsion of equal droplets")
            if answers(e) != a0:
                fails.append(f"E[{ci}]: summary queries called twice give different results")
            for j in range(min(len(members), 2)):
                d, fd = members[j], fresh[1][j]
                r0 = float(d.data["radius"])
                if (ci + j) % 2 and _try(lambda: setattr(d, "radius", r0 + 0.5))[0] == "ok":
                    pass
                else:
                    d.data["radius"] = r0 + 0.5
                fd.radius = r0 + 0.5
                if answers(e) != answers(fresh[1]):
                    fails.append(f"E[{ci}]: after changing the radius of member {j} the summary queries differ from "
                                 "those of a fresh emulsion of equal droplets (stale state)")
                d.data["radius"] = r0
                fd.radius = r0
            if answers(e) != a0:
                fails.append(f"E[{ci}]: after undoing the changes the summary queries differ from the first answers")
        if members:
            if e[-1] is not members[-1] or e[-len(members)] is not members[0] or e[np.int64(0)] is not members[0]:
                fails.append(f"E[{ci}][-1] / E[{ci}][-len] / E[{ci}][numpy.int64(0)] are not the last / first member")
    for ki, k in enumerate(w.K):
        ds = list(k.droplets)
        if len(k) != len(ds) or len(k.times) != len(ds):
            fails.append(f"K[{ki}]: len/times/droplets differ")
            continue
        if [t for t, _ in k.items()] != list(k.times) or any(a is not b_ for (_, a), b_ in zip(k.items(), ds)):
            fails.append(f"K[{ki}].items() not paired")
        exp_dur = (k.times[-1] - k.times[0]) if ds else 0
        if k.duration != exp_dur:
            fails.append(f"K[{ki}].duration = {k.duration} != {exp_dur}")
        if ds:
            tr = _try(lambda: k.get_trajectory())
            exp = np.array([np.atleast_1d(d.data["position"]) for d in ds])
            if tr[0] != "ok" or not np.array_equal(tr[1], exp):
                fails.append(f"K[{ki}].get_trajectory != member positions")
            rr = _try(lambda: k.get_radii())
            if rr[0] != "ok" or not np.array_equal(rr[1], np.array([float(d.data["radius"]) for d in ds])):
                fails.append(f"K[{ki}].get_radii != member radii")
            if k[-1] is not ds[-1] or k.last is not ds[-1] or k.first is not ds[0]:
                fails.append(f"K[{ki}][-1] / first / last")
            if len({type(d) for d in ds}) == 1 and len({d.data.dtype for d in ds}) == 1:
                arr = _try(lambda: k.data)
                if arr[0] != "ok" or len(arr[1]) != len(ds) or [_fr(t) for t in arr[1]["time"]] != [_fr(t) for t in k.times]:
                    fails.append(f"K[{ki}].data does not pair times and droplets")
                else:
                    before = [value_of(d) for d in ds]
                    arr[1]["radius"] += 1.0
                    if [value_of(d) for d in ds] != before:
                        fails.append(f"K[{ki}].data is not a copy")
            t0 = k.times[len(ds) // 2]
            j = list(k.times).index(t0)
            gp = _try(lambda: k.get_position(t0))
            if gp[0] != "ok" or not np.array_equal(gp[1], np.atleast_1d(ds[j].data["position"])):
                fails.append(f"K[{ki}].get_position({t0})")
    for ti, tc in enumerate(w.T):
        if len(tc.times) != len(tc.emulsions) or len(tc) != len(tc.emulsions):
            fails.append(f"T[{ti}]: {len(tc.times)} times, {len(tc.emulsions)} emulsions")
            continue
        if [t for t, _ in tc.items()] != list(tc.times) or any(a is not b_ for (_, a), b_ in zip(tc.items(), tc.emulsions)):
            fails.append(f"T[{ti}].items() not paired")
        if tc.times:
            ts = [float(t) for t in tc.times]
            probes = ts + [(a + b_) / 2 for a, b_ in zip(ts, ts[1:])] + [min(ts) - 1, max(ts) + 1.25]
            for t in probes:
                dist = [abs(x - t) for x in ts]
                j = dist.index(min(dist))          # definition: closest time; first one on ties
                got = _try(lambda: tc.get_emulsion(t))
                if got[0] != "ok" or got[1] is not tc.emulsions[j]:
                    fails.append(f"T[{ti}].get_emulsion({t}) is not the emulsion at the nearest time {ts[j]}")
                    break
        for i in range(len(tc.emulsions)):
            if tc[i] is not tc.emulsions[i] or tc[i - len(tc.emulsions)] is not tc.emulsions[i]:
                fails.append(f"T[{ti}][{i}]")
        if [id(x) for x in tc] != [id(x) for x in tc.emulsions]:
            fails.append(f"iter(T[{ti}]) is not its emulsions")
    for li, l in enumerate(w.L):
        from droplets.droplet_tracks import DropletTrackList
        perm = list(l)
        rng.shuffle(perm)
        pl = DropletTrackList(perm)
        md = 1.0
        pl.remove_short_tracks(md)
        keep = [t for t in l if not (t.duration <= md)]
        if sorted(map(id, pl)) != sorted(map(id, keep)):
            fails.append(f"L[{li}].remove_short_tracks depends on order or differs from its definition")
    return fails


def oracle_run(ops, rng=None, queries=True):
    """Run a default-settings operation sequence on the implementation next to the list model.
    Returns None or a description of the first failure."""
    rng = rng or random.Random(0)
    w, m = World(), RefModel()
    kept = []            # (description, live result object, frozen image at the time of the call)
    budget = HEAVY_BUDGET   # per check run: emulsions with many-mode PerturbedDroplet3D members given to the queries
    for step, op in enumerate(ops):
        n = op[0]
        if not _is_default(op):
            continue        # aliasing by design: not part of the property's "default settings"
        before = None
        if n == "WriteA":
            _, before = world_contents(w)
        op2, oc = w.apply(op)
        where = f"step {step} {op2!r}"
        cont, dump = world_contents(w)
        if n == "WriteA":
            # alias by design: the write may change at most ONE droplet (the linked member), no handle, no track
            changed = 0
            if dump["hnd"] != before["hnd"] or dump["trs"] != before["trs"]:
                return f"{where}: write through a linked array changed a caller droplet or a track"
            for (_, a), (_, b_) in zip(before["ems"], dump["ems"]):
                changed += sum(1 for x, y in zip(a, b_) if x != y)
            if changed > 1:
                return f"{where}: write through a linked array changed {changed} members"
            if oc == "Ok" and changed == 1:
                for e in m.E:                 # follow the implementation for the aliased write
                    pass
            m.E = [[k, list(vs)] for k, vs in dump["ems"]]
        else:
            exp = m.step(op2)
            if exp != oc:
                return f"{where}: outcome {oc}" + (f" ({w.last_error})" if w.last_error else "") + f", list model expects {exp}"
            mc = m.contents()
            for key in ("hnd", "ems", "tcs", "trs", "tls", "tvars"):
                if mc[key] != cont[key]:
                    return f"{where}: {key} differ from the list model: implementation {cont[key]!r} model {mc[key]!r}"
        # alignment after EVERY operation, failed ones included, for ALL live collections
        for ti, tc in enumerate(w.T):
            if len(tc.times) != len(tc.emulsions) or len(tc) != len(tc.emulsions):
                return f"{where}: T[{ti}] has {len(tc.times)} times but {len(tc.emulsions)} emulsions"
        for ki, k in enumerate(w.K):
            if len(k.times) != len(k.droplets):
                return f"{where}: K[{ki}] has {len(k.times)} times but {len(k.droplets)} droplets"
        # ownership: every stored droplet is its own object with its own record
        pos = w.positions()
        if dump["objsig"] != list(range(len(pos))):
            i = next(i for i, x in enumerate(dump["objsig"]) if x != i)
            return f"{where}: droplet at position {i} is the same object as the one at position {dump['objsig'][i]}"
        if dump["stosig"][:len(pos)] != list(range(len(pos))):
            i = next(i for i, x in enumerate(dump["stosig"][:len(pos)]) if x != i)
            return f"{where}: droplet at position {i} shares its data with position {dump['stosig'][i]}"
        # ... and every collection owns its list of times: no list object is held by two collections or by a
        # collection and the caller
        nT, nK = len(w.T), len(w.K)
        if dump["tlsig"] != list(range(len(dump["tlsig"]))):
            i = next(i for i, x in enumerate(dump["tlsig"]) if x != i)

            def who(p):
                return f"T[{p}]" if p < nT else (f"K[{p - nT}]" if p < nT + nK else f"the caller's list TV[{p - nT - nK}]")
            return f"{where}: {who(i)} and {who(dump['tlsig'][i])} hold the same list of times"
        ids = [id(e) for e in w.E]
        if len(set(ids)) != len(ids):
            return f"{where}: one Emulsion object is referenced twice (stored emulsion is not a copy)"
        # independence, dynamically: mutate one droplet through its reference, nothing else may change
        if pos:
            probes = {rng.randrange(len(pos)), len(pos) - 1}
            if n in ("Append", "Extend") and oc == "Ok" and op2[2] != () and w.H:
                i = op2[2] if n == "Append" else op2[2][-1]
                if isinstance(i, int) and i < len(w.H):
                    probes.add(i)     # the caller's droplet that was just inserted
            for pi in sorted(probes):
                d = pos[pi]
                vals0 = [value_of(x) for x in pos]
                r0 = float(d.data["radius"])
                d.data["radius"] = r0 + 1.0      # through the droplet's own record, no validation involved
                vals1 = [value_of(x) for x in pos]
                d.data["radius"] = r0
                diff = [j for j in range(len(pos)) if vals0[j] != vals1[j]]
                if diff != [pi]:
                    return (f"{where}: changing the radius of the droplet at position {pi} changed positions {diff} "
                            f"(positions: handles, then members of E[0], E[1], ..., then tracks)")
        # results of earlier queries that the caller kept alive must not change retroactively
        if kept:
            _ocount(f"kept_results_reexamined_after_operation:{min(len(kept), 8)}")
            _try(rng.choice(kept)[3])       # the same query again, now on the changed collection (buffer reuse?)
        for what, live, frozen, _again in kept:
            if _freeze(live) != frozen:
                return f"{where}: the result of {what}, obtained earlier and kept by the caller, changed retroactively"
        if queries and len(kept) < 8 and rng.random() < 0.12:
            kf, entry = keep_result(w, rng)
            if kf:
                return f"{where}: {kf}"
            if entry:
                kept.append(entry)
        if queries and (step == len(ops) - 1 or rng.random() < 0.15):
            qf = check_queries(w, rng, budget)
            if qf:
                return f"{where}: {qf[0]}"
    return None


def shrink(ops, fails):
    """delete operations while the sequence still fails"""
    ops = list(ops)
    i = 0
    budget = 400
    while i < len(ops) and budget > 0:
        cand = ops[:i] + ops[i + 1:]
        budget -= 1
        try:
            still = bool(fails(cand))
        except Exception:  # noqa  an exception while replaying a candidate = "does not reproduce"
            still = False
        if still:
            ops = cand
        else:
            i += 1
    return ops


def ops_to_json(ops):
    def conv(x):
        if isinstance(x, tuple):
            return [conv(y) for y in x]
        if isinstance(x, Fraction):
            return float(x)
        return x
    return [conv(o) for o in ops]


def ops_from_json(lst):
    def conv(x):
        if isinstance(x, list):
            return tuple(conv(y) for y in x)
        return x
    return [conv(o) for o in lst]


# ---------------------------------------------------------------------------------------
# observations OUTSIDE the judged property: run on every check, named and counted in the evidence, never judged.
# Reason (decision of the lead): the C20 text enumerates the operations of the property (append, extend, copy, slice,
# add, filter by radius, remove overlaps, link data, merge members, clear); insert / += / item and slice assignment
# are plain `list` behaviour that Emulsion inherits and that nothing in the library uses.
# Replays in the style of corpus/defects.py (None when the list-model behaviour holds, a description otherwise).
# (Self-extension, first reported here, was judged a genuine defect: F35, fixed by /repo 0a76226; it is now the
# judged operation ExtendSelf of the correspondence and the oracle.)
# ---------------------------------------------------------------------------------------
def S2_inherited_list_mutators():
    """insert / += / item assignment / slice assignment are inherited from list: they store the caller's object
    (no copy although no copy=False was given) and bypass the dtype bookkeeping and force_consistency"""
    from droplets.droplets import DiffuseDroplet, SphericalDroplet
    from droplets.emulsions import Emulsion
    out = []
    for name, put in (("insert(0, d)", lambda e, d: e.insert(0, d)),
                      ("+= [d]", lambda e, d: e.__iadd__([d])),
                      ("e[0] = d", lambda e, d: e.__setitem__(0, d)),
                      ("e[0:1] = [d]", lambda e, d: e.__setitem__(slice(0, 1), [d]))):
        e = Emulsion([SphericalDroplet([0, 0], 1)])
        d = DiffuseDroplet([1, 1], 2, 0.5)
        put(e, d)
        d.radius = 7
        if any(x is d for x in e):
            out.append(f"{name} stores the caller's droplet itself (a later d.radius = 7 shows in the emulsion)")
        e2 = Emulsion()
        e2.insert(0, d)
        if e2.dtype is None:
            out.append("insert into a new emulsion leaves dtype None (dim is None although a droplet is stored)")
    return "; ".join(sorted(set(out))) or None


# ---------------------------------------------------------------------------------------
# oracle-only probes (judged): inputs the heap model does not represent
# ---------------------------------------------------------------------------------------
def width_probe(rng):
    """area-weighted interface width over members whose width is None (stored as NaN), exactly 0.0 or positive, with
    vanished droplets (radius 0: no area) and droplets without a width; equals its definition in every member order"""
    from droplets.droplets import DiffuseDroplet, PerturbedDroplet2D, SphericalDroplet
    from droplets.emulsions import Emulsion
    ds = []
    for _ in range(rng.randrange(0, 6)):
        w_ = rng.choice([None, 0.0, 0.0, dyadic(rng, 0, 2), dyadic(rng, 0, 2)])
        r = rng.choice([0.0, dyadic(rng, 0, 3), dyadic(rng, 0, 3)])
        k = rng.randrange(3)
        ds.append(SphericalDroplet([0.0, 1.0], r) if k == 0 else DiffuseDroplet([1.0, 0.0], r, w_) if k == 1
                  else PerturbedDroplet2D([0.0, 0.0], r, w_, [0.125, 0.0]))
    num = den = 0.0
    for d in ds:
        if "interface_width" in d.data.dtype.names and not math.isnan(float(d.data["interface_width"])):
            a = float(d.surface_area)
            num += float(d.data["interface_width"]) * a
            den += a
    exp = None if den == 0 else num / den
    desc = [(type(d).__name__, float(d.data["radius"]),
             None if "interface_width" not in d.data.dtype.names else float(d.data["interface_width"])) for d in ds]
    for order in (list(ds), list(reversed(ds))):
        got = _try(lambda: Emulsion(order).interface_width)
        if got[0] != "ok" or (got[1] is None) != (exp is None) or (exp is not None and not _close(float(got[1]), exp, abs(exp))):
            return {"what": f"Emulsion.interface_width = {got} != definition {exp}", "members": desc}
    return None


def long_history_probe(n=1203):
    """a long history: n default-time appends keep times and members aligned, default times are 0..n-1, slices,
    clones and the copy constructor of the long collections stay paired"""
    from droplets.droplets import SphericalDroplet
    from droplets.droplet_tracks import DropletTrack
    from droplets.emulsions import Emulsion, EmulsionTimeCourse
    d = SphericalDroplet([0.0, 0.0], 1.0)
    e = Emulsion([d])
    tc, tr = EmulsionTimeCourse(), DropletTrack()
    for i in range(n):
        d.radius = float(i)
        e[0].radius = float(i)
        tc.append(e)
        tr.append(d)
        if len(tc.times) != len(tc.emulsions) or len(tr.times) != len(tr.droplets):
            return f"misaligned after {i + 1} appends"
    if list(tc.times) != list(range(n)) or list(tr.times) != list(range(n)):
        return "default times are not 0..n-1"
    if [float(x[0].data["radius"]) for x in tc.emulsions] != [float(i) for i in range(n)]:
        return "stored snapshots follow later changes of the caller's emulsion"
    if [float(x.data["radius"]) for x in tr.droplets] != [float(i) for i in range(n)]:
        return "stored track droplets follow later changes of the caller's droplet"
    for key in (slice(None, None, 100), slice(-3, None), slice(999, 1001), slice(None, None, -400)):
        for coll, mem in ((tc, "emulsions"), (tr, "droplets")):
            s_ = coll[key]
            ts = list(range(n))[key]
            rr = [float((x[0] if mem == "emulsions" else x).data["radius"]) for x in getattr(s_, mem)]
            if list(s_.times) != ts or rr != [float(t) for t in ts]:
                return f"{type(coll).__name__}[{key}] does not pair times and members"
    for cl in (EmulsionTimeCourse(tc), pickle.loads(pickle.dumps(tc)), _copy.deepcopy(tc)):
        if list(cl.times) != list(range(n)) or len(cl.emulsions) != n or cl.emulsions[7] is tc.emulsions[7] \
                or cl.times is tc.times or cl.emulsions[7][0] is tc.emulsions[7][0]:
            return "clone of a long time course is not an independent aligned copy"
    if tc.get_emulsion(1000.4) is not tc.emulsions[1000] or tc.get_emulsion(-5) is not tc.emulsions[0]:
        return "nearest-time lookup in a long time course"
    return None


OBSERVED_OUTSIDE_PROPERTY = [
    ("S2_inherited_list_mutators", S2_inherited_list_mutators,
     "insert / += / item and slice assignment are inherited list methods, not among the operations the property "
     "enumerates, and unused by the library"),
]


# ---------------------------------------------------------------------------------------
# the check
# ---------------------------------------------------------------------------------------
DEPS = ["Proofs/C20.vo"]
# operation sequences that failed once (kept as regression inputs of the oracle; all pass on the current tree)
CORPUS = [
    # F11: merge after get_linked_data (fixed by commit c6eb4d5 in /repo)
    [("New", VB), ("New", VB), ("EmNew",), ("Extend", 0, (0, 1), True, False), ("Link", 0),
     ("Merge", 0, 0, 1, False, DUMMY), ("Merge", 0, 0, 1, True, DUMMY)],
    # one op of every kind with default settings
    PREFIX + [("Append", 0, 0, True, False), ("SetH", 0, 2, 3.0), ("SetM", 0, 0, 2, 5.0), ("Slice", 0, 0, 2),
              ("Copy", 0, 1.0), ("Add", 0, 0), ("Link", 0), ("WriteA", 0, 0, 2, 7.0), ("TcAppend", 0, 0, None, True),
              ("TcAppendBad", 0), ("TcSlice", 0, 0, 2), ("TrAppend", 0, 0, None), ("TrAppendBad", 0),
              ("TrSlice", 0, 0, 2), ("Append", 0, 1, True, True), ("RemoveSmall", 0, 1.0), ("RemoveOverlap", 0, ()),
              ("TlNew", (0, 1)), ("TlRemoveShort", 0, 0.5), ("TcClear", 0)],
    # copy constructors and caller-owned lists of times: edit the copy / the caller's list, the source must not move
    [("New", VA), ("EmNew",), ("Append", 0, 0, True, False), ("TcNew", (0, 0, 0), (0.0, 10.0, 20.0)), ("TcCopy", 0),
     ("TcAppend", 1, 0, 99.0, True), ("TlistNew", (0.0, 1.0)), ("TcNewL", (0, 0), 0), ("TcAppend", 2, 0, None, True),
     ("TlistAppend", 0, 5.0), ("TlistSet", 0, 0, 7.0), ("TrNewL", (0, 0), 0), ("TrNew", (0,), (3.0,)), ("TrCopy", 1),
     ("TrAppend", 2, 0, None), ("TrAppend", 1, 0, 8.0), ("TcSlice", 0, 0, 2), ("TcAppend", 3, 0, -1.0, True)],
    # constructor / Emulsion.empty / explicit dtype / clones / general slices / number flavours / caller-owned arrays
    [("New", VA), ("New", VB), ("New", VC), ("EmCtor", (0, 2, 0), None, "droplet", "gen", True, True),
     ("EmCtor", (0, 1), None, "droplet", "list", True, True), ("EmCtor", (), 1, "empty", "list", False, False),
     ("Append", 1, 0, True, True), ("Append", 1, 1, True, True), ("EmCtor", (1,), 1, "array", "tuple", True, True),
     ("EmClone", 0, "copy"), ("EmClone", 1, "pickle"), ("EmClone", 2, "deepcopy"), ("SetM", 3, -1, 2, 9.0),
     ("EmCopyCtor", 0), ("EmCopyCtor", 1), ("SetM", 6, 0, 2, 8.0),
     ("SliceG", 0, None, None, -1), ("SliceG", 0, -2, None, None), ("SliceG", 0, None, None, 2),
     ("TlistNew", (0.5, 1.5, 1.5), "array"), ("TcNewL", (0, 0, 3), 0), ("TlistSet", 0, 1, 7.0),
     ("TcAppend", 0, 0, ("f64", 0.0), True), ("TcAppend", 0, 1, None, True), ("TcSliceG", 0, None, None, -2),
     ("TcSliceG", 0, -3, -1, None), ("TcClone", 0, "pickle"), ("TcAppend", 3, 0, ("i64", 4), True),
     ("TcClone", 1, "deepcopy"), ("TlistNew", (("f", 2.0), ("i64", 3)), "tuple"), ("TrNewL", (0, 2), 1),
     ("TrSliceG", 0, None, None, -1), ("TrClone", 0, "pickle"), ("TrAppend", 2, 0, None), ("TrClone", 1, "deepcopy"),
     ("RemoveSmall", 0, None), ("RemoveSmall", 0, -0.5), ("RemoveSmall", 0, ("f64", 1.0)), ("Copy", 0, ("i64", 1)),
     ("EmClone", 0, "pickle2"), ("Link", 3), ("EmClone", 3, "pickle"), ("WriteA", 0, 0, 2, 4.0)],
    # F35: self-extension (fixed by commit 0a76226 in /repo): e.extend(e) in every spelling, then edits of both halves
    [("New", VA), ("New", VB), ("EmNew",), ("ExtendSelf", 0, "self", True, False), ("Extend", 0, (0, 1), True, False),
     ("ExtendSelf", 0, "self", True, False), ("SetM", 0, 0, 2, 5.0), ("SetM", 0, 3, 2, 6.0),
     ("ExtendSelf", 0, "self", True, True), ("EmCopyCtor", 0), ("ExtendSelf", 1, "alias", True, False),
     ("Slice", 0, 0, 1), ("ExtendSelf", 2, "list", True, False), ("ExtendSelf", 2, "tuple", True, True),
     ("ExtendSelf", 2, "slice", True, False), ("SetM", 2, -1, 2, 9.0), ("TcNew", (2,), None),
     ("ExtendSelf", 3, "self", True, False), ("Link", 3), ("ExtendSelf", 3, "self", True, False)],
]


def _is_default(op):
    """operations with the default settings (the property's list model); the others alias by design"""
    n = op[0]
    if n in ("View", "Get", "TrGet"):
        return False
    if n in ("Append", "Extend"):
        return bool(op[3])
    if n == "EmCtor":
        return bool(op[5]) or not op[1]
    if n == "ExtendSelf":
        return bool(op[3]) or op[2] == "slice"
    return True


def _nontrivial(done, obs):
    return any(oc == "Ok" and o[0] not in ("New", "EmNew") for o, (oc, _) in zip(done, obs))


def _sgn(x):
    return "None" if x is None else ("neg" if x < 0 else "nonneg")


def _book_sizes(ctx, w, skip=0):
    for o in w.sizes[skip:]:
        if o is not None:
            ctx.count("target_collection_length", f"{o[0]}:{min(o[1], 4)}")


def _book(ctx, done, obs, kind):
    ctx.case([kind] + ops_to_json(done), nontrivial=_nontrivial(done, obs))
    ctx.count("sequence_kind", kind)
    ctx.count("sequence_length", len(done))
    where = {}           # handle -> collections it was inserted into
    tvk = []             # kind of every caller-held sequence of times
    prev_target, prev_oc = {}, "Ok"
    for o, (oc, _) in zip(done, obs):
        n = o[0]
        # state between calls: the previous operation failed; the previous operation on a collection of the same
        # type went to ANOTHER collection (interleaving of independent collections)
        ctx.count("after_failing_call", prev_oc != "Ok")
        prev_oc = oc
        for kind, names in World._TARGET.items():
            if n in names and isinstance(o[1], int):
                if kind in prev_target:
                    ctx.count("interleaving", f"{kind}:{'other_collection' if prev_target[kind] != o[1] else 'same_collection'}")
                prev_target[kind] = o[1]
        if n in ("Extend", "TcNew", "TrNew"):
            it = (o[5] if len(o) > 5 else "list") if n == "Extend" else (o[3] if len(o) > 3 else "list")
            ctx.count("argument_iterable", f"{n}:{it}")
        if n == "TlistNew" and oc == "Ok":
            tvk.append(o[2] if len(o) > 2 else "list")
        if n in ("TcNewL", "TrNewL", "TlistSet", "TlistAppend"):
            j = o[2] if n in ("TcNewL", "TrNewL") else o[1]
            ctx.count("caller_times_use", f"{n}:{tvk[j] if j < len(tvk) else 'missing'}:{oc}")
        if oc == "Ok" and n in ("Append", "TrAppend"):
            tgt = ("E" if n == "Append" else "K", o[1])
            seen_in = where.setdefault(o[2], [])
            ctx.count("same_droplet_inserted", "again_same_collection" if tgt in seen_in else
                      ("second_collection" if seen_in else "first_time"))
            seen_in.append(tgt)
        ctx.count("operation", n)
        ctx.count("outcome", oc)
        ctx.count("operation_outcome", f"{n}:{oc}")
        if n == "New":
            ctx.count("droplet_class", _classes()[o[1][0]].__name__)
            ctx.count("droplet_dim", len(o[1][1]))
            if o[1][0] >= 2:
                ctx.count("droplet_modes", f"{_classes()[o[1][0]].__name__}:{len(o[1][3]) - 1}")
            ctx.count("droplet_radius", "zero" if o[1][2] == 0 else "positive")
        elif n in ("Append", "Extend"):
            ctx.count("insert_flags", f"{n}:copy={o[3]},force_consistency={o[4]}")
            if n == "Extend":
                ctx.count("extend_length", len(o[2]))
                ctx.count("extend_same_droplet_twice", len(set(o[2])) < len(o[2]))
        elif n == "EmCtor":
            ctx.count("constructor_dtype", "none" if o[2] is None else o[3])
            ctx.count("constructor_iterable", o[4])
            ctx.count("constructor_length", len(o[1]))
            ctx.count("insert_flags", f"EmCtor:copy={o[5]},force_consistency={o[6]}")
        elif n == "ExtendSelf":
            ctx.count("self_extension", f"{o[2]}:copy={o[3]},force_consistency={o[4]}:{oc}")
        elif n in ("EmClone", "TcClone", "TrClone"):
            ctx.count("clone_provenance", f"{n}:{o[2]}")
        elif n in ("SliceG", "TcSliceG", "TrSliceG"):
            ctx.count("slice_key", f"start={_sgn(o[2])},stop={_sgn(o[3])},step={o[4]}")
            if len(o) > 5:
                ctx.count("slice_result_length", min(len(o[5]), 4))
        elif n in ("Get", "SetM", "TrGet"):
            ctx.count("index_sign", f"{n}:{'neg' if o[2] < 0 else 'nonneg'}")
        elif n in ("Copy", "RemoveSmall"):
            x = o[2]
            ctx.count("min_radius", f"{n}:" + ("default" if x is None or (n == "Copy" and x == -1) else
                                               "zero" if tval(x) == 0 else "neg" if tval(x) < 0 else "pos"))
            if x is not None:
                ctx.count("number_flavour", flavour(x))
        elif n in ("TcAppend", "TrAppend"):
            tm = o[3]
            ctx.count("append_time", "default" if tm is None else ("zero" if tval(tm) == 0 else "given"))
            if tm is not None:
                ctx.count("number_flavour", flavour(tm))
        elif n in ("TcNew", "TrNew"):
            ctx.count("ctor_times", "default" if o[2] is None else f"given:{min(len(o[2]), 3)}")
            ctx.count("ctor_members", min(len(o[1]), 3))
            for tm in (o[2] or ()):
                ctx.count("number_flavour", flavour(tm))
        elif n == "TlistNew":
            ctx.count("caller_times_kind", o[2] if len(o) > 2 else "list")
        elif n in ("TcNewL", "TrNewL"):
            ctx.count("ctor_members", min(len(o[1]), 3))


def _fresh_fails(history, ops):
    """Run the sequences of `history` and then `ops` through the oracle in a FRESH interpreter (no module-level or
    class-level state left by the earlier sequences of this run).  Returns the failure text, "" when it passes, None
    when the interpreter could not be run."""
    import os
    import subprocess
    import sys
    code = ("import json, random, sys\n"
            "sys.path.insert(0, %r)\n"
            "import C20\n"
            "job = json.loads(sys.stdin.read())\n"
            "for h in job['history']:\n"
            "    try:\n"
            "        C20.oracle_run(C20.ops_from_json(h), random.Random(0))\n"
            "    except Exception:\n"
            "        pass\n"
            "try:\n"
            "    r = C20.oracle_run(C20.ops_from_json(job['ops']), random.Random(0))\n"
            "except Exception as ex:\n"
            "    r = 'oracle crashed: %%s: %%s' %% (type(ex).__name__, ex)\n"
            "print('RESULT ' + json.dumps(r or ''))\n") % os.path.dirname(os.path.abspath(__file__))
    try:
        p = subprocess.run([sys.executable, "-c", code], input=json.dumps(
            {"history": [ops_to_json(h) for h in history], "ops": ops_to_json(ops)}),
            capture_output=True, text=True, timeout=300)
        for line in p.stdout.splitlines():
            if line.startswith("RESULT "):
                return json.loads(line[7:])
    except Exception:  # noqa
        pass
    return None


def _oracle_violation(ctx, ops, why, seen):
    """shrink a failing oracle input and record it"""
    def fails(cand):
        try:
            return oracle_run(cand, random.Random(0)) is not None
        except Exception:  # noqa
            return False
    small = shrink([o for o in ops if _is_default(o)], fails)
    try:
        msg = oracle_run(small, random.Random(0)) or why
    except Exception as ex:  # noqa  never let the search crash the check
        msg = f"{why} (oracle raised {type(ex).__name__}: {ex} on the stored sequence)"
    key = json.dumps(ops_to_json(small))
    if key in seen:
        return
    seen.add(key)
    # the failure may depend on state that earlier sequences of this run left in the process (class attributes,
    # module-level caches): make the stored input self-contained for a fresh interpreter
    full = [o for o in ops if _is_default(o)]
    inp = {"ops": ops_to_json(small)}
    if not _fresh_fails([], small):
        r1 = _fresh_fails([], full)
        r2 = None if r1 else _fresh_fails([full], full)
        if r1:
            inp, msg = {"ops": ops_to_json(full), "note": "state kept between calls: the shortened sequence fails only "
                        "after earlier sequences of the run; this unshortened one fails in a fresh interpreter"}, r1
        elif r2:
            inp, msg = {"history": [ops_to_json(full)], "ops": ops_to_json(full),
                        "note": "state kept between calls: fails when the same sequence has been run before in the "
                                "process"}, r2
        else:
            inp["note"] = ("state kept between calls: reproduced only after the earlier sequences of the run, not in a "
                           "fresh interpreter; rerun ./check to reproduce")
    ctx.violations.append({"what": msg, "input": inp, "found": True, "broken": ctx.broken[:3]})


def check(ctx: vlib.Ctx) -> int:
    rng = random.Random(ctx.seed)
    ok = vlib.prove(ctx, DEPS)
    ctx.tie.append("correspondence: operation sequences executed by the implementation and by Model.Heap.exec, "
                   "dumps (contents + aliasing signature + outcome per operation) compared inside Coq")
    seen = set()
    suspicious = []      # op sequences on which model and implementation disagree
    import time as _time
    stage = ctx.extra.setdefault("stage_wall_s", {})
    _t = [_time.time()]

    def lap(name):
        stage[name] = round(_time.time() - _t[0], 1)
        _t[0] = _time.time()
    lap("prove")
    # ---- (b1) exhaustive sequences after the fixed prefix
    if ok:
        maxlen = ctx.scale(3, 4)
        alpha3 = ALPHABET                    # 18 letters up to length 3
        d0, out = exhaustive_cases(alpha3, 3)
        if maxlen >= 4:
            d0b, out4 = exhaustive_cases(ALPHABET4, 4)
            out = out + [x for x in out4 if len(x[0]) == 4]
        cases = []
        for seq, done, obs in out:
            cases.append(caselit(done, obs, d0))
            _book(ctx, PREFIX + done, [("Ok", None)] * len(PREFIX) + obs, f"exhaustive_len{len(seq)}")
        ctx.sample({"exhaustive_case": {"prefix": ops_to_json(PREFIX), "ops": ops_to_json(out[300][1]),
                                        "outcomes": [oc for oc, _ in out[300][2]]}})
        bad = vlib.run_cases(ctx, "exh", exhaustive_header(d0), cases, "agree_x", shard=max(60, len(cases) // 64 + 1),
                             timeout=900)
        if bad:
            ctx.broken.append(f"correspondence (exhaustive sequences): model and implementation differ on {len(bad)} "
                              f"of {len(cases)} sequences, first: {ops_to_json(out[bad[0]][1])}")
            suspicious += [PREFIX + out[i][1] for i in bad[:40]]
        ctx.extra["exhaustive"] = {"alphabet": len(alpha3), "max_length": maxlen, "cases": len(cases)}
    lap("exhaustive")
    # ---- (b1x) the extended alphabet: constructor, clones, general slices, negative index
    if ok:
        alpha, seqs = extended_sequences(rng, 300, not ctx.quick)
        cases, dones = [], []
        for seq in seqs:
            done, obs, w = run_after_prefix([alpha[i] for i in seq])
            cases.append(caselit(done, obs, d0))
            dones.append(done)
            _book(ctx, PREFIX + done, [("Ok", None)] * len(PREFIX) + obs, f"extended_len{len(seq)}")
            _book_sizes(ctx, w, len(PREFIX))
        bad = vlib.run_cases(ctx, "ext", exhaustive_header(d0), cases, "agree_x", shard=max(60, len(cases) // 32 + 1),
                             timeout=900)
        if bad:
            ctx.broken.append(f"correspondence (extended alphabet): model and implementation differ on {len(bad)} "
                              f"of {len(cases)} sequences, first: {ops_to_json(dones[bad[0]])}")
            suspicious += [PREFIX + dones[i] for i in bad[:40]]
        ctx.extra["extended"] = {"alphabet": len(alpha), "cases": len(cases)}
    lap("extended")
    # ---- (b3) the layout matrix: every ordered pair of layouts through every insertion path
    if ok:
        names = [n_ for n_, _ in LAYOUTS]
        plan = []
        for a in names:
            for b_ in names:
                core = (a, b_) in LAYOUT_CORE
                # quick tier: every pair through three of the nine paths (all nine for the core pairs)
                paths = LAYOUT_PATHS if (core or not ctx.quick) else rng.sample(LAYOUT_PATHS, 3)
                for path in paths:
                    plan.append((a, b_, path, True, True))
                    if not ctx.quick or core:
                        plan += [(a, b_, path, True, False), (a, b_, path, False, True), (a, b_, path, False, False)]
                    elif rng.random() < 0.25:
                        plan.append((a, b_, path, rng.random() < 0.5, rng.random() < 0.5))
        cases, dones = [], []
        for a, b_, path, cp, fc in plan:
            done, obs, w = run_sequence(layout_case(a, b_, path, cp, fc, rng))
            cases.append(caselit(done, obs))
            dones.append(done)
            _book(ctx, done, obs, "layout_matrix")
            _book_sizes(ctx, w)
            ctx.count("layout_pair", f"{a}->{b_}")
            ctx.count("layout_path", f"{path}:copy={cp},force_consistency={fc}")
            va, vb = dict(LAYOUTS)[a], dict(LAYOUTS)[b_]
            ctx.count("layout_difference", "+".join(
                [x for x, y in (("class_family", RefModel._dtype(va)[0] != RefModel._dtype(vb)[0]),
                                ("dimension", len(va[1]) != len(vb[1])),
                                ("modes", len(va[3]) != len(vb[3])), ("class_only", va[0] != vb[0])) if y] or ["none"]))
            ctx.count("layout_rejected", any(oc == "EValue" for oc, _ in obs))
        bad = vlib.run_cases(ctx, "lay", HEADER, cases, "agree", shard=max(60, len(cases) // 32 + 1), timeout=900)
        if bad:
            ctx.broken.append(f"correspondence (layout matrix): model and implementation differ on {len(bad)} of "
                              f"{len(cases)} cases, first: {plan[bad[0]]} {ops_to_json(dones[bad[0]])}")
            suspicious += [dones[i] for i in bad[:40]]
        ctx.extra["layout_matrix"] = {"layouts": len(names), "paths": len(LAYOUT_PATHS), "cases": len(cases)}
    lap("layout_matrix")
    # ---- (b5) twins: two independent collections of each type, of two layouts, used alternately (state between calls)
    if ok:
        names = [n_ for n_, _ in LAYOUTS]
        fam = {n_: RefModel._dtype(v)[0] for n_, v in LAYOUTS}
        pairs = [(a, b_) for a in names for b_ in names
                 if not ctx.quick or (fam[a] == fam[b_]) or (a, b_) in LAYOUT_CORE or rng.random() < 0.2]
        cases, dones = [], []
        for a, b_ in pairs:
            # outcome of every step, contents and aliasing signature after the last one (nothing is ever deleted from
            # the world, so the final dump shows every collection)
            done, obs, w = run_sequence(twin_case(a, b_, rng), dump_every=False)
            cases.append(caselit(done, obs))
            dones.append(done)
            _book(ctx, done, obs, "twins")
            _book_sizes(ctx, w)
            ctx.count("twin_layouts", "same_fields_and_class_family" if fam[a] == fam[b_] else "different_family")
        bad = vlib.run_cases(ctx, "twn", HEADER, cases, "agree", shard=max(8, len(cases) // 16 + 1), timeout=900)
        if bad:
            ctx.broken.append(f"correspondence (twin collections): model and implementation differ on {len(bad)} of "
                              f"{len(cases)} cases, first: {pairs[bad[0]]}")
            suspicious += [dones[i] for i in bad[:40]]
        ctx.extra["twins"] = {"cases": len(cases), "operations_per_case": len(twin_case("S2", "S3", random.Random(0)))}
    lap("twins")
    # ---- (b4) the slice matrix: every general slice key on four-member collections of all three types
    if ok:
        hdr, ds0, out = slice_matrix(rng, 0.4 if ctx.quick else 1.0)
        cases, dones = [], []
        for done, obs, w in out:
            cases.append(caselit(done, obs, ds0))
            dones.append(done)
            _book(ctx, SLICE_PREFIX + done, [("Ok", None)] * len(SLICE_PREFIX) + obs, "slice_matrix")
            _book_sizes(ctx, w, len(SLICE_PREFIX))
        bad = vlib.run_cases(ctx, "slc", hdr, cases, "agree_x", shard=max(40, len(cases) // 16 + 1), timeout=900)
        if bad:
            ctx.broken.append(f"correspondence (slice matrix): model and implementation differ on {len(bad)} of "
                              f"{len(cases)} slices, first: {ops_to_json(dones[bad[0]])}")
            suspicious += [SLICE_PREFIX + dones[i] for i in bad[:40]]
        ctx.extra["slice_matrix"] = {"keys": len(SLICE_BOUNDS) ** 2 * len(SLICE_STEPS), "cases": len(cases)}
    lap("slice_matrix")
    # ---- (b2) random sequences over all five classes
    if ok:
        nrand = ctx.scale(240, 1600)
        cases, seqs = [], []
        for i in range(nrand):
            done, obs, _w = random_sequence(rng, rng.randrange(4, 41), [0, 1, 2, 3, 4],
                                            default_only=(i % 4 == 0))
            cases.append(caselit(done, obs))
            seqs.append(done)
            _book(ctx, done, obs, "random")
            _book_sizes(ctx, _w)
        ctx.sample({"random_case": {"ops": ops_to_json(seqs[0][:8]), "n_ops": len(seqs[0])}})
        bad = vlib.run_cases(ctx, "rnd", HEADER, cases, "agree", shard=max(4, nrand // 48), timeout=900)
        if bad:
            ctx.broken.append(f"correspondence (random sequences): model and implementation differ on {len(bad)} "
                              f"of {len(cases)} sequences")
            suspicious += [seqs[i] for i in bad[:40]]
    lap("random")
    # ---- (c) property oracle: corpus, a stream of default-settings sequences, and (when something is broken)
    #      the sequences on which model and implementation disagree plus a larger stream
    HEAVY_BUDGET[0] = ctx.scale(6, 40)
    orng = random.Random(ctx.seed + 1)
    todo = [list(c) for c in CORPUS]
    todo += [PREFIX + [ALPHABET[a], ALPHABET[b_]] for a in range(len(ALPHABET)) for b_ in range(len(ALPHABET))
             if _is_default(ALPHABET[a]) and _is_default(ALPHABET[b_])]
    todo += [PREFIX + [a, b_] for a in NEW_LETTERS for b_ in ALPHABET + NEW_LETTERS if _is_default(a) and _is_default(b_)]
    todo += [PREFIX + [a, b_] for a in ALPHABET for b_ in NEW_LETTERS if _is_default(a) and _is_default(b_)]
    todo += [SLICE_PREFIX + [(nm, 0) + key for nm in ("SliceG", "TcSliceG", "TrSliceG")]
             for key in ((None, None, 2), (None, None, -2), (1, None, 3), (-1, None, -3), (-5, 5, 2), (3, 0, -1))]
    lrng = random.Random(ctx.seed + 2)
    todo += [twin_case(a, b_, lrng) for a, b_ in LAYOUT_CORE]
    todo += [layout_case(a, b_, path, True, fc, lrng) for a, b_ in LAYOUT_CORE for path in LAYOUT_PATHS
             for fc in (True, False)]
    nstream = ctx.scale(100, 600) if not ctx.broken else ctx.scale(300, 900)
    for i in range(nstream):
        done, obs, _w = random_sequence(orng, orng.randrange(4, 41), [0, 1, 2, 3, 4], default_only=True)
        todo.append(done)
    todo = suspicious + todo
    nor = 0
    for ops in todo:
        if len(ctx.violations) >= 3:
            break
        nor += 1
        try:
            why = oracle_run(ops, random.Random(nor))
        except Exception as ex:  # noqa   the oracle itself must not crash: report it as a failing input
            why = f"oracle crashed: {type(ex).__name__}: {ex}"
        ctx.count("oracle_sequences", "run")
        if why:
            _oracle_violation(ctx, ops, why, seen)
    ctx.extra["oracle_sequences"] = nor
    # oracle-only probes: interface widths None / 0.0 / positive with vanished droplets; a long history
    prng = random.Random(ctx.seed + 3)
    for i in range(ctx.scale(150, 600)):
        if len(ctx.violations) >= 3:
            break
        try:
            r = width_probe(prng)
        except Exception as ex:  # noqa
            r = {"what": f"interface width probe raised {type(ex).__name__}: {ex}", "members": []}
        ctx.count("oracle_probe", "interface_width_None_zero_positive")
        if r:
            ctx.violations.append({"what": r["what"], "input": {"members": r["members"]}, "found": True,
                                   "broken": ctx.broken[:3]})
    try:
        r = long_history_probe()
    except Exception as ex:  # noqa
        r = f"long history probe raised {type(ex).__name__}: {ex}"
    ctx.count("oracle_probe", "long_history_1203_appends")
    if r and len(ctx.violations) < 3:
        ctx.violations.append({"what": r, "input": {"probe": "long_history_probe", "appends": 1203}, "found": True,
                               "broken": ctx.broken[:3]})
    lap("oracle")
    for k_, v_ in sorted(ORACLE_COUNTS.items()):
        ctx.count("state_between_calls", k_, v_)
    ORACLE_COUNTS.clear()
    # ---- observations outside the judged property: run, named, counted, not judged
    for name, fn, reason in OBSERVED_OUTSIDE_PROPERTY:
        try:
            res = fn()
        except Exception as ex:  # noqa
            res = f"replay raised {type(ex).__name__}: {ex}"
        ctx.count("observed_outside_property_not_judged", f"{name}:{'differs_from_list_model' if res else 'holds'}")
        ctx.notes.append(f"OBSERVED OUTSIDE THE PROPERTY (not judged: {reason}) {name}: " + (res or "holds on this tree"))
    ctx.notes.append("self-extension with an iterator / generator over the emulsion itself is not an input: the list "
                     "model itself diverges (list.extend(x for x in l) never ends in CPython); judged spellings: the "
                     "emulsion itself, an alias, list(e), tuple(e), the slice e[:]")
    ctx.notes.append("deepcopy / pickle round trip of a DropletTrack is compared with the model's copy constructor "
                     "OTrCopy (same abstract effect); copy.copy of a time course or track (shallow by Python convention), "
                     "DropletTrackList clones, slice step 0 and list indices (TypeError / ValueError of the built-in "
                     "list) are outside the model; interface_width=None (NaN) and the summary queries are exercised "
                     "by the Python oracle only")
    return vlib.finish(ctx, "", TRUSTED, ASSUME, RULE)


def replay(path: str) -> int:
    obj = json.load(open(path))
    print(json.dumps(obj, indent=1)[:3000])
    inp = obj.get("input") or {}
    if inp.get("probe") == "long_history_probe":
        why = long_history_probe(int(inp.get("appends", 1203)))
        print("long history probe on current tree:", why or "passes")
        return 1 if why else 0
    if "members" in inp:
        from droplets.droplets import DiffuseDroplet, PerturbedDroplet2D, SphericalDroplet
        from droplets.emulsions import Emulsion
        ds = []
        for name, r, w_ in inp["members"]:
            w_ = None if (w_ is None or (isinstance(w_, float) and math.isnan(w_))) else w_
            ds.append(SphericalDroplet([0.0, 1.0], r) if name == "SphericalDroplet" else
                      DiffuseDroplet([1.0, 0.0], r, w_) if name == "DiffuseDroplet" else
                      PerturbedDroplet2D([0.0, 0.0], r, w_, [0.125, 0.0]))
        num = den = 0.0
        for d in ds:
            if "interface_width" in d.data.dtype.names and not math.isnan(float(d.data["interface_width"])):
                num += float(d.data["interface_width"]) * float(d.surface_area)
                den += float(d.surface_area)
        exp = None if den == 0 else num / den
        got = [_try(lambda: Emulsion(o).interface_width) for o in (ds, ds[::-1])]
        print("Emulsion.interface_width (both orders):", got, "definition:", exp)
        bad = any(g[0] != "ok" or (g[1] is None) != (exp is None)
                  or (exp is not None and not _close(float(g[1]), exp, abs(exp))) for g in got)
        return 1 if bad else 0
    if "ops" not in inp:
        print("no operation sequence stored (obligation / correspondence failure without failing input)")
        return 1
    ops = ops_from_json(inp["ops"])
    for h in inp.get("history", []):          # sequences to be run before, in the same process
        try:
            oracle_run(ops_from_json(h), random.Random(0))
        except Exception:  # noqa
            pass
    why = oracle_run(ops, random.Random(0))
    print("oracle on current tree:", why or "passes")
    done, obs, w = run_sequence(ops)
    for o, (oc, _d) in zip(done, obs):
        print("  ", o, "->", oc)
    print("final contents:", world_contents(w)[0])
    # the model on the same operation list (needs a built build/coq, i.e. one earlier ./check run)
    try:
        d = vlib.BUILD / "cases" / "C20"
        d.mkdir(parents=True, exist_ok=True)
        f = d / "replay_case.v"
        f.write_text(HEADER + "Definition c := " + caselit(done, obs) + ".\n"
                     "Eval vm_compute in (agree c, map snd (run_trace emp (fst c))).\n")
        rc, out = vlib.coqc(f, timeout=300)
        print("model (Model.Heap.exec) agrees with the implementation on every step:",
              " ".join(out.split())[:600] if rc == 0 else "could not evaluate: " + out[-300:])
        f.unlink()
    except Exception as ex:  # noqa
        print("model evaluation skipped:", ex)
    return 1 if why else 0
