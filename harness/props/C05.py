"""C05 -- refined localisation recovers position, radius and interface width (partial: convergence is measured).

(a) proofs: Properties/C05.v (R-layer over Gen_refine_R + Gen_shapes: truth gives zero residual, identifiability in 1-d;
    D-layer over Model/Refine.v + Gen_refine: located candidates are feasible starts), golden fallback
(b) translator validation: interval sample goals -- the generated residual / profile expressions evaluated at the
    implementation's own (distance, parameters, image value) reproduce the residual entries that `_image_deviation` returned
(c) correspondence inside Coq (shared with C04): the candidates that locate_droplets builds, refined one by one with the
    recorded optimiser answers; the pipeline result must be exactly these per-candidate results
(d) property oracle: locate_droplets(refine=True) on resolvable droplets / well-separated emulsions, every threshold rule,
    intensities supplied or fitted: one droplet per original, relative errors < 1e-4 -- measured distribution in the evidence
"""
from __future__ import annotations

import json
import math
import random

import numpy as np

import refine_common as rc
import refine_state as rs
import vlib

TOL = 1e-4
TRUSTED = [
    "Coq 8.16.1 kernel + vm_compute; Interval tactic (sample goals only)",
    "harness/gen_refine.py, harness/gen_shapes.py (fail-closed translators; validated by the sample goals of this run)",
    "real-number model of the residual / profile; floating-point evaluation differs by rounding (bounded per sample goal)",
    "oracle scipy.optimize.least_squares: premise lsq_spec checked on every recorded call; CONVERGENCE to the zero-residual "
    "point within 1e-4 is NOT a theorem: it is measured on every run (error distribution in this file)",
    "locate_droplets_in_mask / thresholding (C01, C18) produce one candidate per droplet: checked per sample",
    "correspondence harness harness/refine_common.py (proxy on droplets.image_analysis.optimize / .ndimage)",
]
ASSUME = [
    "resolvable droplet: radius >= 3 cells, width 1-2 cells (of the mean spacing), spacing anisotropy <= 1.25, centre at least "
    "radius + 2 widths + 2 cells away from non-periodic faces; along periodic axes the region above the lowest threshold a rule can "
    "choose (mean or mid-level) must not span the axis, i.e. the thresholded droplet does not meet its own periodic image (cases are "
    "redrawn from the same PRNG until this holds; evidence key redrawn_until_resolvable_along_periodic_axes; the thorough tier had "
    "drawn a 12-cell periodic axis for a droplet of 3 cells radius and 1.8 cells width, whose mean-threshold region winds around "
    "the axis -- it fails the recovery claim on the tree before the audit as well); well-separated: interface gap >= 10 widths",
    "position error is measured in units of the mean cell size (stricter than relative to the radius), modulo the period on periodic axes",
    "dimension stream: along periodic axes the box is at least 2 (radius + 2 widths + 2 cells) wide when the centre is put exactly on a "
    "face / corner (the thresholded region of every rule must not meet its own periodic image); with modes > 0 the fitted centre is "
    "degenerate with the first-mode amplitudes: radius, width, class and count are judged, the position error is measured only; "
    "float32 images: same tolerance 1e-4 (measured <= 2e-6)",
    "identifiability is proved for known levels (1-d from three cells; every dimension / metric from the two centres and one further point); fitted levels and identifiability from grid cells alone in d >= 2 are covered by measurement",
]
RULE = ("one evaluation = one locate_droplets(refine=True) call on a rendered image; grid families cart1/cart2/cart3 (random "
        "periodicity mask, mildly anisotropic, NON-SQUARE: cell counts 16-20 vs 36-48 in 2-d, 12-14 vs 24-30 in 3-d, random axis order), "
        "polar, spherical, cylindrical (periodic_z or not); 60 % of the centres forced within one radius of a periodic face of one "
        "axis or of all periodic axes (corners); image clean or "
        "affine (a in {0.25..3}, b in {-1..5}); threshold rules extrema/mean/otsu/numeric mid-level; intensities supplied, supplied+fitted, "
        "automatic+fitted; emulsions of two droplets on 1-d / 2-d / 3-d Cartesian grids and along the axis of cylinders, boxes at random "
        "(also entirely negative) origins; dimension stream (notes/input_dimensions.md, one named recipe per case): grid geometry "
        "(entirely negative / centred boxes, flat-wide and narrow finely sliced cylinders, dz > dr, inner radius > 0, coarser first / last "
        "axis, exactly one periodic axis first / middle / last), boundary values (radius exactly 3 cells, width exactly 1 / 2 cells, "
        "centre at the resolvability margin of a non-periodic face, exactly on a periodic face / corner), image (float32, copied / "
        "unpickled field, all-negative intensities, contrast 2^-20 ... 2^40 with offsets up to 1000 contrasts), options (threshold 'auto', numeric threshold and levels as "
        "numpy scalar / 0-d array / int, tolerance and least_squares_params in refine_args -- the caller's dicts compared afterwards --, "
        "minimal_radius 0 / negative / -inf / half the radius, interface_width start value, modes 2 / 3, num_processes 2, the same "
        "call repeated on the same objects); annular stream: polar / spherical grids with a core of 1, 4, 8, 16 cells removed x "
        "threshold rule x level option (full product, 96 cases), the candidate's radius error before refinement counted; sequences (input "
        "dimension 8): sessions of 8 locate_droplets(refine=True) calls on ONE grid object with fields A, B (same shape, levels; other droplet) and "
        "C (A's droplet, other levels), one refine_args dict -- same call twice, A / B / A alternately, other rule, after a call that raises, with "
        "two worker processes, fresh equal objects at the end, emulsions kept alive and one modified in place -- every result compared bit for bit "
        "with the same (serial) call made FIRST in a fresh interpreter; all non-trivial (the candidate differs from the truth); distinct by the full case")

RULES = ["extrema", "mean", "otsu", "numeric"]
OPTS = ["supplied", "supplied+fitted", "auto+fitted"]

# Input classes on which the UNCHANGED /repo fails the property text and whose status (defect of py-droplets or not) is not
# decided yet: reported in the evidence notes, NOT judged.  (S3 "recovery depends on the intensity scale" was decided: defect
# F34, repaired in /repo 01cb8f2, replay corpus/defects.py F34 -- contrasts 2^-20 ... 2^40 with offsets are judged now.)
SUSPECTED: list[dict] = []


def suspected(case: dict):
    return None


# ---- the dimension stream (notes/input_dimensions.md): one named recipe per case -------------------------------
GRID_KINDS = ["negative", "centred", "cyl_flat", "cyl_dz_larger", "cyl_narrow", "inner_radius", "aniso_first_coarser",
              "aniso_last_coarser", "periodic_first", "periodic_middle", "periodic_last"]
BOUNDARY_KINDS = ["radius_3_cells", "width_1_cell", "width_2_cells", "radius_3_width_2", "touching_nonperiodic_margin",
                  "on_periodic_face", "on_periodic_corner"]
IMAGE_KINDS = ["float32", "field_copy", "field_pickle", "negative_contrast_offset", "large_scale", "small_scale", "small_scale",
               "large_scale"]
OPTION_KINDS = ["threshold_auto", "threshold_np.float64", "threshold_0d", "threshold_int", "levels_np.float64", "levels_0d", "levels_int",
                "tolerance", "lsq_params", "tolerance+lsq_params", "minimal_radius_0", "minimal_radius_negative", "minimal_radius_-inf",
                "minimal_radius_small", "interface_width_start", "modes_2", "modes_3", "num_processes_2", "repeated_call"]


def refine_args(opt: str, a: float, b: float) -> dict:
    if opt == "supplied":
        return {"vmin": b, "vmax": a + b}
    if opt == "supplied+fitted":
        return {"vmin": b, "vmax": a + b, "adjust_values": True}
    return {"vmin": None, "vmax": None, "adjust_values": True}


def gen_grid_c05(rng: random.Random, fam: str) -> dict:
    """grids for the recovery claim: Cartesian grids are NON-SQUARE (cell counts differ by a factor >= 1.8 between axes,
    in random axis order), with every periodicity mask and mildly anisotropic spacing"""
    if fam == "cylindrical" and rng.random() < 0.4:
        # narrow, finely sliced cylinders: a droplet is then LONGER in z-cells than the grid has radial cells
        # (seeded change C05-3 compared the z-extent of a cluster with the number of radial cells)
        nr, nz = rng.randint(9, 11), rng.randint(36, 48)
        h = rng.choice([0.5, 1.0, 0.75, 1.25])
        hz = h * rng.choice([0.5, 0.625, 0.75])
        z0 = rc.dy(rng, -4, 4)
        return {"family": "cylindrical", "radius": nr * h, "bounds_z": [z0, z0 + nz * hz], "shape": [nr, nz],
                "periodic_z": rng.random() < 0.7}
    if not fam.startswith("cart") or fam == "cart1":
        return rc.gen_grid(rng, fam, big=True)
    d = int(fam[4])
    small, large = ((16, 20), (36, 48)) if d == 2 else ((12, 14), (24, 30))
    counts = [rng.randint(*large)] + [rng.randint(*small) for _ in range(d - 1)]
    if rng.random() < 0.15:
        counts = [counts[1]] * d          # a share of square / cubic grids stays in the stream
    rng.shuffle(counts)
    h0 = rng.choice([0.5, 1.0, 1.0, 0.75, 1.25, 2.0])
    bounds = []
    for n in counts:
        h = h0 * rng.choice([1.0, 1.0, 1.0, 1.125, 0.875, 1.25])
        lo = rc.dy(rng, -4, 4)
        bounds.append([lo, lo + n * h])
    mask = [rng.random() < 0.6 for _ in range(d)]
    return {"family": "cartesian", "bounds": bounds, "shape": counts, "periodic": mask}


def straddle(rng: random.Random, gs: dict, truth: dict) -> str:
    """move the centre to within one radius of a periodic face: of one randomly chosen periodic axis, or (a third of the
    cases) of every periodic axis (edges / corners); returns what was done"""
    axes = rc.grid_axes(gs)
    fam = gs["family"]
    if fam == "cartesian":
        per = [i for i, a in enumerate(axes) if a[3]]
        idx = {i: i for i in per}
    elif fam == "cylindrical" and axes[1][3]:
        per, idx = [1], {1: 2}
    else:
        return "none"
    if not per:
        return "none"
    chosen = per if rng.random() < 0.34 else [rng.choice(per)]
    for i in chosen:
        lo, hi, n, _ = axes[i]
        face = lo if rng.random() < 0.5 else hi
        x = face + rng.uniform(-1, 1) * truth["radius"]
        truth["position"][idx[i]] = lo + (x - lo) % (hi - lo)
    return "corner" if len(chosen) > 1 else f"axis{chosen[0]}"


def meets_own_image(case: dict) -> bool:
    """resolvability along periodic axes: the region above the LOWEST threshold any rule can choose (the mean or the mid-level
    of the image) spans a whole periodic axis, i.e. the thresholded droplet touches its own periodic image -- the box is too
    small for the droplet and its interface (found in the thorough tier: 12 cells for a droplet of 3 cells radius and 1.8 cells
    width; fails on the tree before this audit as well).  Such a configuration is not a resolvable droplet."""
    gs = case["grid"]
    axes = rc.grid_axes(gs)
    per = [i for i, a in enumerate(axes) if a[3]]
    if not per:
        return False
    grid = rc.make_grid(gs)
    data = np.asarray(rc.make_image(dict(case["image"], dtype="float64", field="fresh"), grid).data, float)
    low = min(float(data.mean()), float(data.min() + data.max()) / 2)
    mask = data > low
    for i in per:
        if mask.any(axis=tuple(a for a in range(mask.ndim) if a != i)).all():
            return True
    return False


def resolvable_case(make, rng: random.Random, tries: int = 40) -> dict:
    """the first case drawn by `make(rng)` whose thresholded droplet does not meet its own periodic image"""
    for _ in range(tries):
        case = make(rng)
        if not meets_own_image(case):
            case["redrawn"] = _
            return case
    raise RuntimeError("generator: no resolvable configuration in %d draws" % tries)


def gen_single(rng: random.Random, k: int) -> dict:
    def make(rng):
        fam = rc.FAMILIES[k % 6]
        gs = gen_grid_c05(rng, fam)
        truth = rc.gen_truth(rng, gs, "DiffuseDroplet", 0, resolvable=True)
        how = straddle(rng, gs, truth) if rng.random() < 0.6 else "none"
        isp = rc.gen_image_spec(rng, truth, ["clean", "affine"][(k // 6) % 2])
        return {"grid": gs, "image": isp, "rule": RULES[(k // 12) % 4], "opt": OPTS[(k // 3) % 3], "straddles": how}
    return resolvable_case(make, rng)


def gen_dim_single(rng: random.Random, k: int) -> dict:
    """k-th case of the dimension stream (redrawn until the thresholded droplet does not meet its own periodic image)"""
    return resolvable_case(lambda r: _gen_dim_single(r, k), rng)


def _gen_dim_single(rng: random.Random, k: int) -> dict:
    """a single resolvable droplet; `case["dim"]` names what is exercised, `case["extra"]` holds further arguments of
    locate_droplets / refine_droplet"""
    group = ["grid", "boundary", "image", "options"][k % 4]
    j = k // 4
    rule, opt = RULES[j % 4], OPTS[(j // 2) % 3]
    kind_img = ["clean", "affine"][j % 2]
    extra: dict = {}
    if group == "grid":
        kind = GRID_KINDS[j % len(GRID_KINDS)]
        h = rng.choice([0.5, 1.0, 0.75, 1.25])
        if kind in ("negative", "centred"):
            gs = gen_grid_c05(rng, rc.FAMILIES[[0, 1, 2, 5][(j // len(GRID_KINDS)) % 4]])
            for b in (gs["bounds"] if gs["family"] == "cartesian" else [gs["bounds_z"]]):
                L = b[1] - b[0]
                lo = -L - rc.dy(rng, 0.25, 3) if kind == "negative" else -L / 2
                b[0], b[1] = lo, lo + L
        elif kind.startswith("cyl"):
            if kind == "cyl_flat":
                nr, nz, hz = rng.randint(24, 32), rng.randint(13, 16), h
            elif kind == "cyl_dz_larger":
                nr, nz, hz = rng.randint(12, 16), rng.randint(16, 20), h * 1.25
            else:   # narrow, finely sliced (seeded change C05-3)
                nr, nz, hz = rng.randint(9, 11), rng.randint(40, 52), h * rng.choice([0.5, 0.625])
            z0 = rc.dy(rng, -4, 4)
            gs = {"family": "cylindrical", "radius": nr * h, "bounds_z": [z0, z0 + nz * hz], "shape": [nr, nz], "periodic_z": rng.random() < 0.5}
        elif kind == "inner_radius":
            n = rng.randint(16, 24)
            r0 = h * rng.choice([0.5, 1.0, 2.0])
            gs = {"family": rng.choice(["polar", "spherical"]), "radius": [r0, r0 + n * h], "shape": n}
        elif kind.startswith("aniso"):
            d = rng.choice([2, 2, 3])
            hs = [1.25 * h] + [h] * (d - 1)
            ns = [rng.randint(18, 22)] + [rng.randint(22, 28) if d == 2 else rng.randint(14, 16) for _ in range(d - 1)]
            if kind.endswith("last_coarser"):
                hs, ns = hs[::-1], ns[::-1]
            bounds = []
            for n, hh in zip(ns, hs):
                lo = rc.dy(rng, -4, 4)
                bounds.append([lo, lo + n * hh])
            gs = {"family": "cartesian", "bounds": bounds, "shape": ns, "periodic": [rng.random() < 0.5 for _ in range(d)]}
        else:   # exactly one periodic axis: first / middle / last
            gs = gen_grid_c05(rng, "cart3")
            i = {"periodic_first": 0, "periodic_middle": 1, "periodic_last": 2}[kind]
            gs["periodic"] = [a == i for a in range(3)]
        truth = rc.gen_truth(rng, gs, "DiffuseDroplet", 0, resolvable=True)
        how = straddle(rng, gs, truth) if kind.startswith("periodic") or rng.random() < 0.4 else "none"
        return {"grid": gs, "image": rc.gen_image_spec(rng, truth, kind_img), "rule": rule, "opt": opt, "straddles": how, "dim": "grid:" + kind}
    fam = rc.FAMILIES[(j // 3) % 6]
    gs = gen_grid_c05(rng, fam)
    truth = rc.gen_truth(rng, gs, "DiffuseDroplet", 0, resolvable=True)
    how = "none"
    hs = rc.spacing(gs)
    hm = sum(hs) / len(hs)
    if group == "boundary":
        kind = BOUNDARY_KINDS[j % len(BOUNDARY_KINDS)]
        if kind in ("on_periodic_face", "on_periodic_corner"):
            # the box holds the droplet, its interface and the thresholded region of every rule without self-overlap across
            # the periodic faces: every periodic extent >= 2 (radius + 2 widths + 2 cells) = 16 cells
            famb = (["cart2", "cart3", "cart1", "cylindrical"][(j // len(BOUNDARY_KINDS)) % 4] if kind.endswith("face") else
                    ["cart2", "cart3"][(j // len(BOUNDARY_KINDS)) % 2])
            h = rng.choice([0.5, 1.0, 0.75, 1.25])
            if famb == "cylindrical":
                z0 = rc.dy(rng, -4, 4)
                nr, nz = rng.randint(10, 12), rng.randint(18, 26)
                gs = {"family": "cylindrical", "radius": nr * h, "bounds_z": [z0, z0 + nz * h], "shape": [nr, nz], "periodic_z": True}
            else:
                d = int(famb[4])
                ns = {1: [rng.randint(18, 30)], 2: [rng.randint(18, 22), rng.randint(30, 40)], 3: [rng.randint(16, 18), rng.randint(16, 18), rng.randint(22, 26)]}[d]
                rng.shuffle(ns)
                bounds = []
                for n in ns:
                    lo = rc.dy(rng, -4, 4)
                    bounds.append([lo, lo + n * h])
                gs = {"family": "cartesian", "bounds": bounds, "shape": ns, "periodic": [True] * d}
            truth = {"cls": "DiffuseDroplet", "position": [0.0] * (3 if famb == "cylindrical" else d), "radius": rng.uniform(3.0, 3.5) * h,
                     "width": rng.uniform(1.0, 1.25) * h}
            for i, (lo, hi, n, per) in enumerate(rc.grid_axes(gs) if famb != "cylindrical" else []):
                truth["position"][i] = rng.uniform(lo, hi)
            if famb == "cylindrical":
                truth["position"][2] = rng.uniform(*gs["bounds_z"])
            axes = rc.grid_axes(gs)
            idx = {i: i for i in range(len(axes))} if gs["family"] == "cartesian" else {1: 2}
            for i in (list(idx) if kind.endswith("corner") else [rng.choice(list(idx))]):
                truth["position"][idx[i]] = axes[i][0]           # exactly on the (lower = upper) periodic face
            how = "exactly on corner" if kind.endswith("corner") else "exactly on face"
        else:
            if "radius_3" in kind:
                truth["radius"] = 3.0 * max(hs)
            if kind == "width_1_cell":
                truth["width"] = 1.0 * hm
            if kind in ("width_2_cells", "radius_3_width_2"):
                truth["width"] = 2.0 * hm
            if kind == "touching_nonperiodic_margin":
                # the centre as close to a non-periodic face as the resolvability assumption allows (radius + 2 w + 2 cells)
                axes = rc.grid_axes(gs)
                pairs = ([(i, i) for i, a in enumerate(axes) if not a[3]] if gs["family"] == "cartesian" else
                         ([(1, 2)] if gs["family"] == "cylindrical" and not axes[1][3] else []))
                for i, ip in pairs[:1] if pairs else []:
                    pad = truth["radius"] + 2 * truth["width"] + 2 * hs[i]
                    if axes[i][0] + pad < axes[i][1] - pad:
                        truth["position"][ip] = axes[i][0] + pad if rng.random() < 0.5 else axes[i][1] - pad
        return {"grid": gs, "image": rc.gen_image_spec(rng, truth, kind_img), "rule": rule, "opt": opt, "straddles": how, "dim": "boundary:" + kind}
    isp = rc.gen_image_spec(rng, truth, kind_img)
    if group == "image":
        kind = IMAGE_KINDS[j % len(IMAGE_KINDS)]
        if kind == "float32":
            isp["dtype"] = "float32"
        elif kind == "field_copy":
            isp["field"] = "copy"
        elif kind == "field_pickle":
            isp["field"] = "pickle"
        elif kind == "negative_contrast_offset":       # all intensities negative
            isp["kind"], isp["a"], isp["b"] = "affine", rng.choice([0.5, 2.0]), rng.choice([-8.0, -3.0])
        elif kind in ("large_scale", "small_scale"):
            # contrasts 2^-20 ... 2^40 with offsets up to 1000 contrasts, every level option (defect F34, repaired)
            isp["kind"] = "affine"
            isp["a"] = 2.0 ** rng.choice([10, 16, 20, 30, 40] if kind == "large_scale" else [-4, -6, -8, -10, -14, -20])
            isp["b"] = isp["a"] * rng.choice([0.0, 0.25, -1.0, 4.0, 1000.0, -1000.0])
            opt = OPTS[(j // len(IMAGE_KINDS)) % 3]
        return {"grid": gs, "image": isp, "rule": rule, "opt": opt, "straddles": how, "dim": "image:" + kind}
    kind = OPTION_KINDS[j % len(OPTION_KINDS)]
    if kind.startswith("threshold_"):
        if kind == "threshold_auto":
            rule = "auto"
        else:
            rule, extra["thr_type"] = "numeric", kind.split("_", 1)[1]
            if extra["thr_type"] == "int":
                isp["kind"], isp["a"], isp["b"] = "affine", rng.choice([2.0, 4.0]), rng.choice([-1.0, 5.0, 0.0])
    elif kind.startswith("levels_"):
        extra["vtype"] = kind.split("_", 1)[1]
        opt = OPTS[j % 2]          # levels supplied
        if extra["vtype"] == "int":
            isp["kind"], isp["a"], isp["b"] = "affine", rng.choice([2.0, 3.0]), rng.choice([-1.0, 5.0, 0.0])
    elif kind == "tolerance":
        extra["tolerance"] = rng.choice([1e-10, 1e-12, 1e-9])
    elif kind == "lsq_params":
        extra["lsq_params"] = rng.choice([{}, {"method": "trf"}, {"method": "dogbox"}, {"x_scale": "jac"}, {"jac": "3-point"}, {"max_nfev": 200}])
    elif kind == "tolerance+lsq_params":
        extra["tolerance"] = 1e-10
        extra["lsq_params"] = rng.choice([{"ftol": 1e-9}, {"xtol": 1e-11, "gtol": 1e-11}, {"method": "trf", "max_nfev": 300}])
    elif kind.startswith("minimal_radius"):
        extra["minimal_radius"] = {"0": 0, "negative": -1.0, "-inf": -math.inf, "small": 0.5 * truth["radius"]}[kind.split("_", 2)[2]]
    elif kind == "interface_width_start":
        extra["interface_width_cells"] = rng.choice([1.0, 1.5, 2.0])
    elif kind.startswith("modes_"):
        extra["modes"] = int(kind[-1])
        if fam in ("cart1", "polar", "spherical"):
            # perturbed classes need dimension >= 2; on polar / spherical grids the image depends on the distance only, so the
            # amplitudes are degenerate with the radius (the fit may return radius (1 + a) with amplitude a): not part of the claim
            gs = gen_grid_c05(rng, ["cart2", "cart3", "cylindrical"][j % 3])
            truth = rc.gen_truth(rng, gs, "DiffuseDroplet", 0, resolvable=True)
            isp = rc.gen_image_spec(rng, truth, kind_img)
    elif kind == "num_processes_2":
        extra["num_processes"] = 2
    elif kind == "repeated_call":
        extra["repeat"] = True
    return {"grid": gs, "image": isp, "rule": rule, "opt": opt, "straddles": how, "dim": "options:" + kind, "extra": extra}


ANNULAR_CORES = [1, 4, 8, 16]


def gen_annular(rng: random.Random, k: int) -> dict:
    """annular polar / spherical grids (inner radius = a core of 1, 4, 8, 16 cells removed around the origin): the full product
    grid family x core width x threshold rule x level option in 96 consecutive cases; the droplet covers the core, its interface
    lies at least 2 widths + 3 cells outside the core and 2 widths + 2 cells inside the outer wall (seeded change C05-4 computed
    the candidate radius without the inner radius: too small by the core, invisible for thin cores)"""
    fam = ["polar", "spherical"][k % 2]
    core = ANNULAR_CORES[(k // 2) % 4]
    rule = RULES[(k // 8) % 4]
    opt = OPTS[(k // 32) % 3]
    h = rng.choice([0.5, 1.0, 0.75, 1.25, 0.625])
    n = rng.randint(24, 36)
    r_in = core * h
    gs = {"family": fam, "radius": [r_in, r_in + n * h], "shape": n}
    width = rng.uniform(1.0, 2.0) * h
    lo, hi = r_in + 2 * width + 3 * h, r_in + n * h - 2 * width - 2 * h
    truth = {"cls": "DiffuseDroplet", "position": [0.0] * (2 if fam == "polar" else 3), "radius": rng.uniform(lo, hi), "width": width}
    isp = rc.gen_image_spec(rng, truth, ["clean", "affine"][(k // 96 + k) % 2])
    return {"grid": gs, "image": isp, "rule": rule, "opt": opt, "straddles": "none", "dim": f"grid:annular_core_{core}"}


def candidate_report(case: dict) -> str:
    """what the located candidates (before refinement) look like next to the originals -- appended to failure messages so that a
    wrong start (position, radius) is told apart from a fit that does not converge"""
    try:
        from droplets.image_analysis import locate_droplets
        grid = rc.make_grid(case["grid"])
        img = rc.make_image(case["image"], grid)
        kw = locate_kwargs(case, grid)
        cands = [rc.droplet_spec(d) for d in locate_droplets(img, threshold=threshold_of(case), **{**{k_: v for k_, v in kw.items() if k_ != "refine_args"}, "refine": False})]
        h = float(grid.typical_discretization)
        parts = []
        for t in case["image"]["truth"]:
            if not cands:
                break
            c = min(cands, key=lambda c_: abs(c_["radius"] - t["radius"]) + float(np.linalg.norm(np.array(c_["position"]) - np.array(t["position"]))))
            parts.append(f"candidate before refinement: position {c['position']}, radius {c['radius']!r} = original radius "
                         f"{(c['radius'] - t['radius']) / h:+.2f} cells")
        return "; ".join(parts) or "no candidate was located before refinement"
    except Exception as e:  # noqa
        return f"candidates before refinement could not be determined: {type(e).__name__}: {e}"[:200]


def candidate_radius_error(case: dict) -> float | None:
    """|candidate radius - original radius| in cells for a single-droplet case (None when there is not exactly one candidate)"""
    from droplets.image_analysis import locate_droplets
    grid = rc.make_grid(case["grid"])
    img = rc.make_image(case["image"], grid)
    kw = locate_kwargs(case, grid)
    cands = list(locate_droplets(img, threshold=threshold_of(case), **{**{k_: v for k_, v in kw.items() if k_ != "refine_args"}, "refine": False}))
    if len(cands) != 1 or len(case["image"]["truth"]) != 1:
        return None
    return abs(float(cands[0].radius) - case["image"]["truth"][0]["radius"]) / float(grid.typical_discretization)


def gen_emulsion(rng: random.Random, k: int) -> dict:
    """two well-separated droplets (interface gap >= 10 widths) side by side along the long axis: Cartesian 2-d (most), 1-d,
    3-d, and along the axis of a cylinder; the box starts at a random (also negative) origin"""
    h = rng.choice([0.5, 1.0, 1.25])
    fam = ["cart2", "cart2", "cart1", "cart2", "cylindrical", "cart2", "cart2", "cart3"][k % 8]
    nx, ny = rng.randint(44, 52), rng.randint(22, 26)
    w = rng.uniform(1.0, 1.25) * h
    r1, r2 = rng.uniform(3.0, 4.5) * h, rng.uniform(3.0, 4.5) * h
    x0 = rc.dy(rng, -4, 4) if k % 3 else -nx * h - rc.dy(rng, 0.25, 3)      # a third of the boxes has only negative x
    x1 = x0 + rng.uniform(9.5, 11.0) * h
    gap = rng.uniform(10.0, 12.0) * w
    x2 = x1 + r1 + r2 + gap
    if fam == "cart1":
        gs = {"family": "cartesian", "bounds": [[x0, x0 + nx * h]], "shape": [nx], "periodic": [rng.random() < 0.5]}
        pos = [[x1], [x2]]
    elif fam == "cylindrical":
        nr = rng.randint(10, 13)
        gs = {"family": "cylindrical", "radius": nr * h, "bounds_z": [x0, x0 + nx * h], "shape": [nr, nx], "periodic_z": rng.random() < 0.5}
        pos = [[0.0, 0.0, x1], [0.0, 0.0, x2]]
    else:
        d = int(fam[4])
        per = [rng.random() < 0.5 for _ in range(d)]
        y0 = rc.dy(rng, -4, 4)
        Ly = ny * h * rng.choice([1.0, 1.125])
        if d == 3:
            ny = rng.randint(20, 22)
            Ly = ny * h
        bounds = [[x0, x0 + nx * h]] + [[y0, y0 + Ly] for _ in range(d - 1)]
        gs = {"family": "cartesian", "bounds": bounds, "shape": [nx] + [ny] * (d - 1), "periodic": per}
        pos = [[x] + [y0 + Ly / 2 + rng.uniform(-1, 1) * h for _ in range(d - 1)] for x in (x1, x2)]
    t = [{"cls": "DiffuseDroplet", "position": p_, "radius": r_, "width": w} for p_, r_ in zip(pos, (r1, r2))]
    isp = {"kind": ["clean", "affine"][k % 2], "truth": t, "a": 1.0, "b": 0.0, "sigma": 0.0, "nseed": 0}
    if k % 2:
        isp["a"], isp["b"] = rng.choice([0.5, 2.0]), rng.choice([-1.0, 2.0])
    return {"grid": gs, "image": isp, "rule": RULES[(k // 2) % 4], "opt": OPTS[k % 3]}


def count_dimensions(ctx, case: dict):
    """evidence: where the case lies along the dimensions of notes/input_dimensions.md"""
    gs, isp, x = case["grid"], case["image"], case.get("extra") or {}
    axes, hs = rc.grid_axes(gs), rc.spacing(gs)
    ctx.count("dimension_recipe", case.get("dim", "(single / emulsion stream)"))
    if "redrawn" in case:
        ctx.count("redrawn_until_resolvable_along_periodic_axes", case["redrawn"])
    real = axes if gs["family"] != "cylindrical" else [axes[1]]
    if gs["family"] in ("cartesian", "cylindrical"):
        ctx.count("grid_origin", "entirely negative" if all(a[1] <= 0 for a in real) else "entirely positive" if all(a[0] > 0 for a in real)
                  else "centred" if all(a[0] == -a[1] for a in real) else "contains 0")
    if len(axes) > 1:
        ctx.count("spacing_order", "first axis coarser" if hs[0] > hs[-1] else "last axis coarser" if hs[0] < hs[-1] else "equal")
    if gs["family"] == "cylindrical":
        t = isp["truth"][0]
        ctx.count("cylinder_shape", "droplet longer in z-cells than the grid has radial cells" if 2 * t["radius"] / hs[1] > axes[0][2] else
                  "flat (fewer z-cells than radial cells)" if axes[1][2] < axes[0][2] else "regular")
        ctx.count("cylinder_dz_vs_dr", "dz > dr" if hs[1] > hs[0] else "dz < dr" if hs[1] < hs[0] else "dz = dr")
    if gs["family"] in ("polar", "spherical"):
        ctx.count("inner_radius", "> 0" if axes[0][0] > 0 else "0")
        core = axes[0][0] / hs[0]
        ctx.count("annular_core_width_in_cells", "0" if core == 0 else "<= 2" if core <= 2 else str(int(round(core))) if core in (4, 8, 16) else "2 .. 4")
        if case.get("dim", "").startswith("grid:annular"):
            ctx.count("annular: family / rule / levels", f"{gs['family']} / {case['rule']} / {case['opt']}")
            try:
                e = candidate_radius_error(case)
                ctx.count("annular: |candidate radius - original| in cells", "not one candidate" if e is None else "< 1" if e < 1 else "1 .. 2" if e < 2 else ">= 2")
            except Exception as e_:  # noqa
                ctx.count("annular: |candidate radius - original| in cells", f"raised {type(e_).__name__}")
    if gs["family"] == "cartesian" and len(axes) == 3 and sum(gs["periodic"]) == 1:
        ctx.count("single_periodic_axis_of_3", ["first", "middle", "last"][gs["periodic"].index(True)])
    for t in isp["truth"]:
        hm = sum(hs) / len(hs)
        ctx.count("radius_in_cells", "exactly 3" if t["radius"] == 3.0 * max(hs) else "3-5" if t["radius"] < 5 * max(hs) else "> 5")
        ctx.count("width_in_cells", "exactly 1" if t["width"] == hm else "exactly 2" if t["width"] == 2 * hm else "between 1 and 2")
    ctx.count("image_dtype", isp.get("dtype", "float64"))
    ctx.count("image_field_provenance", isp.get("field", "fresh"))
    ctx.count("intensity_contrast", "2^30 .. 2^40" if abs(isp["a"]) >= 2.0 ** 30 else "2^10 .. 2^20" if abs(isp["a"]) >= 1024 else
              "2^-20 .. 2^-10" if abs(isp["a"]) <= 2.0 ** -10 else "2^-8 .. 2^-4" if abs(isp["a"]) < 0.25 else "0.25 .. 3")
    ctx.count("intensity_offset_in_contrasts", "|b| = 1000 a" if abs(isp["b"]) >= 999 * abs(isp["a"]) else "|b| <= 20 a")
    ctx.count("intensity_sign", "all negative" if isp["a"] + isp["b"] < 0 and isp["b"] < 0 else "min negative" if isp["b"] < 0 else "non-negative")
    ctx.count("threshold_type", x.get("thr_type", "float") if case["rule"] == "numeric" else "str")
    ctx.count("level_numeric_type", x.get("vtype", "float") if case["opt"] != "auto+fitted" else "None")
    ctx.count("tolerance", x.get("tolerance"))
    ctx.count("least_squares_params", "None" if x.get("lsq_params") is None else "{" + ",".join(sorted(x["lsq_params"])) + "}")
    ctx.count("minimal_radius", x.get("minimal_radius", "default") if not isinstance(x.get("minimal_radius"), float) or x["minimal_radius"] <= 0 else "0.5 radius")
    ctx.count("interface_width_argument", "default None" if "interface_width_cells" not in x else f"{x['interface_width_cells']} cells")
    ctx.count("modes", x.get("modes", 0))
    ctx.count("num_processes", x.get("num_processes", 1))
    ctx.count("call_repeated_on_same_objects", bool(x.get("repeat")))


def errors(gs: dict, found: dict, truth: dict, h: float) -> tuple[float, float, float]:
    axes = rc.grid_axes(gs)
    dp = []
    for i, (x, y) in enumerate(zip(found["position"], truth["position"])):
        df = x - y
        L = None
        if gs["family"] == "cartesian" and axes[i][3]:
            L = axes[i][1] - axes[i][0]
        if gs["family"] == "cylindrical" and i == 2 and axes[1][3]:
            L = axes[1][1] - axes[1][0]
        if L:
            df = (df + L / 2) % L - L / 2
        dp.append(df)
    return (float(np.linalg.norm(dp)) / h, abs(found["radius"] - truth["radius"]) / truth["radius"],
            abs(found["width"] - truth["width"]) / truth["width"])


def threshold_of(case: dict):
    a, b = case["image"]["a"], case["image"]["b"]
    if case["rule"] != "numeric":
        return case["rule"]
    thr = b + a / 2
    tt = (case.get("extra") or {}).get("thr_type", "float")
    if tt == "np.float64":
        return np.float64(thr)
    if tt == "0d":
        return np.array(thr)
    if tt == "int":
        assert float(thr).is_integer()
        return int(thr)
    return thr


def locate_kwargs(case: dict, grid) -> dict:
    """keyword arguments of locate_droplets for the case (refine=True)"""
    a, b = case["image"]["a"], case["image"]["b"]
    x = case.get("extra") or {}
    ra = refine_args(case["opt"], a, b)
    if x.get("vtype"):
        ra["vmin"], ra["vmax"] = rc.typed_level(ra["vmin"], x["vtype"]), rc.typed_level(ra["vmax"], x["vtype"])
    if x.get("tolerance") is not None:
        ra["tolerance"] = x["tolerance"]
    if x.get("lsq_params") is not None:
        ra["least_squares_params"] = json.loads(json.dumps(x["lsq_params"]))
    kw = {"refine": True, "refine_args": ra}
    for key in ("minimal_radius", "modes", "num_processes"):
        if key in x:
            kw[key] = x[key]
    if "interface_width_cells" in x:
        kw["interface_width"] = x["interface_width_cells"] * float(grid.typical_discretization)
    return kw


def run_locate(case: dict):
    """-> (list of returned droplet specs, recorded least_squares calls, threshold used, grid, image, state failures)"""
    import copy
    from droplets.image_analysis import locate_droplets
    grid = rc.make_grid(case["grid"])
    img = rc.make_image(case["image"], grid)
    before = np.array(img.data, copy=True)
    thr = threshold_of(case)
    kw = locate_kwargs(case, grid)
    kw_before = copy.deepcopy(kw)
    with rc.Instrument() as ins:
        em = locate_droplets(img, threshold=thr, **kw)
    state = []
    if not (np.array_equal(before, img.data) and img.data.dtype == before.dtype):
        state.append("the image was modified by locate_droplets")
    if repr(kw) != repr(kw_before):
        state.append(f"the caller's arguments {kw_before} became {kw}")
    found = [rc.droplet_spec(d) for d in em]
    if (case.get("extra") or {}).get("repeat"):
        # the same field and the same option objects once more: the result must be the same
        em2 = locate_droplets(img, threshold=thr, **kw)
        if [rc.droplet_spec(d) for d in em2] != found:
            state.append(f"a second identical call returned {[rc.droplet_spec(d) for d in em2]}, the first {found}")
    return found, ins.calls, thr, grid, img, state


def c05_oracle(case: dict) -> tuple[list[dict], list[tuple[float, float, float]], list]:
    """failures of the property text on one case; the measured errors; the recorded calls"""
    fails, errs = [], []
    try:
        found, calls, thr, grid, img, state = run_locate(case)
    except Exception as e:  # noqa
        return [{"what": f"locate_droplets(refine=True) raised {type(e).__name__}: {e}"[:300]}], [], []
    for s_ in state:
        fails.append({"what": s_[:400]})
    truths = case["image"]["truth"]
    h = float(grid.typical_discretization)
    want_cls = "DiffuseDroplet"
    nm = (case.get("extra") or {}).get("modes", 0)
    if nm > 0:
        want_cls = {2: "PerturbedDroplet2D", 3: "PerturbedDroplet3D"}[rc.grid_dim(case["grid"])]
        if case["grid"]["family"] == "cylindrical":
            want_cls = "PerturbedDroplet3DAxisSym"
    for f_ in found:
        vals = list(f_["position"]) + [f_["radius"]] + ([f_["width"]] if f_.get("width") is not None else []) + list(f_.get("amplitudes") or [])
        if not all(isinstance(v, float) and math.isfinite(v) for v in vals):
            fails.append({"what": f"a returned droplet has non-finite entries: {f_}"})
            return fails, errs, calls
        if f_["cls"] != want_cls:
            fails.append({"what": f"a returned droplet has class {f_['cls']}, expected {want_cls} (modes={nm})"})
    if len(found) != len(truths):
        fails.append({"what": f"{len(found)} droplet(s) returned for {len(truths)} original(s); " + candidate_report(case)})
        return fails, errs, calls
    used = set()
    for t in truths:
        best = None
        for j, f in enumerate(found):
            if j in used or f.get("width") is None:
                continue
            e = errors(case["grid"], f, t, h)
            if best is None or max(e) < max(best[1]):
                best = (j, e)
        if best is None:
            fails.append({"what": "a returned droplet has no interface width"})
            continue
        used.add(best[0])
        if nm > 0:
            # with perturbation modes the fitted centre is degenerate with the amplitudes of the first mode (a first-order
            # translation): radius and width are judged, the position error is only measured (evidence key below)
            case["_position_error_with_modes"] = best[1][0]
            best = (best[0], (0.0, best[1][1], best[1][2]))
        errs.append(best[1])
        if not max(best[1]) < TOL:
            fails.append({"what": f"relative errors (position/cell, radius, width) = {best[1]} exceed {TOL}: original {t}, returned {found[best[0]]}; "
                                  + candidate_report(case)})
    return fails, errs, calls


# -----------------------------------------------------------------------------------------
# (b) sample goals: the generated residual expression against the residual entries of the implementation
# -----------------------------------------------------------------------------------------
class SampleMismatch(Exception):
    pass


def sample_goal_list(rng: random.Random, n: int):
    from droplets.tools import spherical
    goals, info = [], []
    k = 0
    mismatch = None
    while len(goals) < n:
        k += 1
        if k > 6 * n + 30:
            # the residual built from the generated expression's ingredients does not reproduce the cost the implementation
            # reports at its start vector: the translation is no longer validated -- say so instead of searching forever
            raise SampleMismatch(mismatch or "no refinement case could be sampled")
        fam = ["cart1", "cart2", "cart3"][k % 3]
        gs = rc.gen_grid(rng, fam)
        gs["periodic"] = [False] * len(gs["shape"])
        grid = rc.make_grid(gs)
        truth = rc.gen_truth(rng, gs, "DiffuseDroplet", 0)
        isp = rc.gen_image_spec(rng, truth, "affine")
        cand = rc.gen_candidate(rng, gs, truth, "DiffuseDroplet", 0, across=False)
        cand["width"] = cand["width"] or truth["width"]
        adjust = bool(k % 2)
        case = {"grid": gs, "image": isp, "candidate": cand, "vmin": isp["b"], "vmax": isp["a"] + isp["b"], "adjust": adjust}
        rec = rc.run_refine(case)
        if rec["error"] or not rec["calls"]:
            continue
        # residual entries at the START vector, recomputed through the closure the implementation handed to the optimiser
        call = rec["calls"][0]
        region, image = rec["region"], rec["image"]
        prom = rec["promoted"]
        d = rc.make_droplet(prom)
        dist = spherical.polar_coordinates(grid, origin=np.array(prom["position"], float), ret_angle=False)[region]
        field = d._get_phase_field(grid)[region]
        vmin, vmax = rc.effective_levels(case, rec)
        sc = rc.level_scale(vmax - vmin)         # intensities in units of the intensity range (repair F34)
        vmin, vrng = vmin / sc, (vmax - vmin) / sc
        image = image / sc
        res = vmin + vrng * field - image[region]
        if not math.isclose(0.5 * float(res @ res), call["cost0"], rel_tol=1e-9, abs_tol=1e-300):
            mismatch = {"what": f"the residual vmin + vrng * profile - image over the fit region (in units of the intensity range) gives the "
                                f"cost {0.5 * float(res @ res)!r}, least_squares was started at cost {call['cost0']!r}", "input": case}
            continue
        idx = sorted(range(res.size), key=lambda i: abs(abs(field[i] - 0.5) - 0.2))[:2]   # cells inside the interface
        for i in idx:
            fn = "residual_adjust" if adjust else "residual_plain"
            expr = (f"{fn} {vlib.rlit(vmin)} {vlib.rlit(vrng)} (diffuse_profile {vlib.rlit(float(dist[i]))} "
                    f"{vlib.rlit(prom['radius'])} {vlib.rlit(prom['width'])}) {vlib.rlit(float(image[region][i]))}")
            goals.append((f"{fn} cell {i} of case {k}", expr, float(res[i]), 1e-12 * (abs(vmin) + abs(vrng) + abs(float(image[region][i])) + 1)))
            info.append({"case": k, "dist": float(dist[i]), "residual": float(res[i])})
    return goals[:n], info[:n]


def check(ctx: vlib.Ctx) -> int:
    import droplets
    ctx.extra["implementation"] = str(droplets.__file__)
    rng = random.Random(ctx.seed)
    ok, fresh = rc.prove_with_fallback(ctx, ["Proofs/C05.vo", "Proofs/C05Metric.vo", "Proofs/RefineCand.vo", "Model/Samples.vo"],
                                       ["Gen_refine", "Gen_refine_R", "Gen_shapes"])
    # (b) sample goals
    sample_violation = None
    if ok:
        try:
            goals, info = sample_goal_list(random.Random(ctx.seed + 1), ctx.scale(16, 48))
        except SampleMismatch as e:
            goals, info = [], []
            mm = e.args[0] if isinstance(e.args[0], dict) else {"what": str(e.args[0]), "input": None}
            ctx.broken.append("sample goals: " + mm["what"][:300])
            sample_violation = {"what": "translator validation: " + mm["what"], "stream": "sample goals",
                                "input": json.loads(json.dumps(mm["input"])), "found": True}
    if ok and goals:
        ctx.sample({"sample_goal": goals[0][1][:300], "impl_value": goals[0][2]})
        req = "From Coq Require Import Reals.\nFrom PD Require Import Gen.Gen_shapes Gen.Gen_refine_R."
        from concurrent.futures import ThreadPoolExecutor
        shards = [goals[i::4] for i in range(4)]
        with ThreadPoolExecutor(4) as ex:
            list(ex.map(lambda a: vlib.sample_goals(ctx, f"c05_{a[0]}", req, a[1],
                                                    ["residual_adjust", "residual_plain", "diffuse_profile"]), enumerate(shards)))
    # input dimension 8 (state kept between calls): sessions on shared objects against two fresh reference interpreters
    rng_s = random.Random(ctx.seed + 4)
    sessions = [rs.gen_locate_session(rng_s, k) for k in range(ctx.scale(16, 96) if not ctx.broken else ctx.scale(32, 160))]
    session_tasks = [rs.locate_tasks(s_) for s_ in sessions]
    ref_procs = rs.start_references(session_tasks)
    # (d) property oracle + measurement
    n_single = ctx.scale(720, 4800) if not ctx.broken else ctx.scale(1080, 6000)
    n_em = ctx.scale(48, 240)
    cases = [("single", gen_single(rng, k)) for k in range(n_single)] + [("emulsion", gen_emulsion(rng, k)) for k in range(n_em)]
    # the dimension stream (notes/input_dimensions.md), its own PRNG so that the two streams above are unchanged
    rng_d = random.Random(ctx.seed + 2)
    n_dim = ctx.scale(240, 1600) if not ctx.broken else ctx.scale(360, 2400)
    cases += [("dimensions", gen_dim_single(rng_d, k)) for k in range(n_dim)]
    # annular polar / spherical grids: core width x family x threshold rule x level option (full product = 96 cases), own PRNG
    rng_a = random.Random(ctx.seed + 3)
    cases += [("annular", gen_annular(rng_a, k)) for k in range(ctx.scale(96, 576) if not ctx.broken else ctx.scale(192, 960))]
    all_err, fails, spec, fits = [], [], [], 0
    worst = []
    lits, lit_cases = [], []
    suspected_seen: dict = {}
    for k, (tag, case) in enumerate(cases):
        f, errs, calls = c05_oracle(case)
        gs = case["grid"]
        ctx.case([tag, case], nontrivial=True)
        ctx.count("family", rc.family_name(gs))
        ctx.count("periodic_axes", sum(1 for a in rc.grid_axes(gs) if a[3]))
        if gs["family"] == "cartesian" and len(gs["shape"]) > 1:
            ctx.count("cartesian_cell_count_ratio", "square" if len(set(gs["shape"])) == 1 else
                      ("first axis longest" if gs["shape"][0] == max(gs["shape"]) else "first axis not longest"))
            ctx.count("cartesian_periodic_mask", "".join("p" if p else "-" for p in gs["periodic"]))
        ctx.count("centre_straddles_periodic_face", case.get("straddles", "none"))
        ctx.count("image", case["image"]["kind"])
        ctx.count("threshold_rule", case["rule"])
        ctx.count("intensities", case["opt"])
        ctx.count("droplets", len(case["image"]["truth"]))
        count_dimensions(ctx, case)
        if "_position_error_with_modes" in case:
            pe = case.pop("_position_error_with_modes")
            ctx.count("position_error_per_cell_with_modes>0 (measured, not judged)", "< 1e-4" if pe < 1e-4 else "< 1e-2" if pe < 1e-2 else ">= 1e-2")
        sus = suspected(case)
        if sus is not None:
            ctx.count("suspected_not_judged", f"{sus['id']}: {'fails' if f else 'holds'}")
            if f and sus["id"] not in suspected_seen:
                suspected_seen[sus["id"]] = (sus, f[0], json.loads(json.dumps(case)))
            errs, f = [], []
        fits += len(calls)
        for c in calls:
            for s in rc.lsq_spec_failures(c):
                spec.append({"what": "oracle-spec:least_squares " + s, "input": case})
        for e in errs:
            all_err.append(e)
            worst.append((max(e), e, tag, case))
        for x in f:
            fails.append({"what": x["what"], "stream": tag, "input": json.loads(json.dumps(case))})
        # (c) per-candidate correspondence on a third of the single-droplet cases
        if ok and tag in ("single", "dimensions", "annular") and k % 3 == 0 and not f and (case.get("extra") or {}).get("num_processes", 1) == 1:
            from droplets.image_analysis import locate_droplets
            grid = rc.make_grid(gs)
            img = rc.make_image(case["image"], grid)
            a, b = case["image"]["a"], case["image"]["b"]
            thr = threshold_of(case)
            kw = locate_kwargs(case, grid)
            cands = [rc.droplet_spec(d) for d in locate_droplets(img, threshold=thr, **{**{k_: v for k_, v in kw.items() if k_ != "refine_args"}, "refine": False})]
            ra = refine_args(case["opt"], a, b)
            x = case.get("extra") or {}
            outs = []
            for cs in cands:
                # hypotheses of C05_candidate_feasible (`located`)
                if not (cs["radius"] > 0 and float(grid.typical_discretization) > 0):
                    fails.append({"what": f"candidate {cs} is not a located candidate (radius > 0, spacing > 0)", "stream": tag, "input": case})
                rcase = {"grid": gs, "image": case["image"], "candidate": cs, "vmin": ra["vmin"], "vmax": ra["vmax"],
                         "adjust": bool(ra.get("adjust_values")), "tolerance": x.get("tolerance"), "lsq_params": x.get("lsq_params"),
                         "vtype": x.get("vtype")}
                rec = rc.run_refine(rcase)
                fits += len(rec["calls"])
                for c in rec["calls"]:
                    if "x" in c and not (np.all(c["lo"] <= c["x0"]) and np.all(c["x0"] <= c["hi"]) and np.all(c["lo"] < c["hi"])):
                        fails.append({"what": "start vector of a located candidate is not feasible", "stream": tag, "input": rcase})
                lit = rc.case_lit(rcase, rec)
                if lit is not None:
                    lits.append(lit)
                    lit_cases.append(rcase)
                outs.append(rec["out"])
            found = run_locate(case)[0]
            if sorted(json.dumps(o, sort_keys=True) for o in outs) != sorted(json.dumps(o, sort_keys=True) for o in found):
                fails.append({"what": f"locate_droplets(refine=True) returned {found}, refining its candidates one by one gives {outs}",
                              "stream": tag, "input": case})
            ctx.count("candidates_per_image", len(cands))
    for f_ in rs.judge_sessions(ctx, "locate", sessions, session_tasks, ref_procs):
        fails.append(f_)
    ctx.extra["fits"] = fits
    if ok and lits:
        bad = vlib.run_cases(ctx, "locate_refine", rc.CASE_HEADER, lits, "agree", shard=40)
        for b in bad[:3]:
            ctx.broken.append(f"correspondence refine_droplet on a located candidate: model and implementation differ on {json.dumps(lit_cases[b])[:500]}")
        ctx.extra["correspondence_cases"] = len(lits)
    for s in spec[:3]:
        ctx.broken.append(s["what"][:300])
    # measured error distribution (evidence for the monitored convergence assumption)
    if all_err:
        arr = np.array(all_err)
        mx = arr.max(axis=1)
        qs = [0.5, 0.9, 0.99, 1.0]
        ctx.extra["measured_relative_errors"] = {
            "n_droplets": int(len(mx)),
            "quantiles_50_90_99_max": {"max_of_three": [float(v) for v in np.quantile(mx, qs)],
                                        "position_per_cell": [float(v) for v in np.quantile(arr[:, 0], qs)],
                                        "radius": [float(v) for v in np.quantile(arr[:, 1], qs)],
                                        "width": [float(v) for v in np.quantile(arr[:, 2], qs)]},
            "above_tolerance": int((mx >= TOL).sum()), "tolerance": TOL,
        }
        worst.sort(key=lambda t: -t[0])
        ctx.extra["worst_inputs"] = [{"errors": w[1], "stream": w[2], "input": json.loads(json.dumps(w[3]))} for w in worst[:3]]
        ctx.sample({"worst_case_errors": worst[0][1], "input": json.loads(json.dumps(worst[0][3]))})
    seen: dict = {}
    for f in fails:
        key = f.get("failure") or f["what"].split(":")[0][:40]
        seen[key] = seen.get(key, 0) + 1
        ent = rc.known_entry("C05", "relative error", grid=rc.grid_name(f["input"]["grid"])) if "grid" in f["input"] else None
        if ent is not None:
            if not any(k.startswith(ent["id"]) for k in ctx.known_printed):
                ctx.known_printed.append(f"{ent['id']}: {ent['what'][:160]} -- e.g. {f['what'][:200]} on input {json.dumps(f['input'])[:500]}")
            continue
        if seen[key] <= 2 and len(ctx.violations) < 10:
            ctx.violations.append({**f, "found": True, "broken": ctx.broken[:3]})
    for s in spec[:1]:
        ctx.violations.append({"what": s["what"], "input": s["input"], "found": True, "broken": ctx.broken[:3]})
    if sample_violation is not None and len(ctx.violations) < 10:
        ctx.violations.append({**sample_violation, "broken": ctx.broken[:3]})
    ctx.extra["oracle_failures_total"] = len(fails)
    for sid in sorted(suspected_seen):
        sus, f0, case = suspected_seen[sid]
        ctx.notes.append(f"SUSPECTED {sid} (reported, not judged; {ctx.hist.get('suspected_not_judged', {})}): {sus['what']} -- e.g. "
                         f"{f0['what'][:200]} on input {json.dumps(case)[:600]}")
    ctx.extra["suspected"] = [{"id": e["id"], "condition": e["condition"]} for e in SUSPECTED]
    return vlib.finish(ctx, "", TRUSTED, ASSUME, RULE)


def replay(path: str) -> int:
    obj = json.load(open(path))
    print(json.dumps(obj, indent=1)[:3000])
    case = obj.get("input")
    if isinstance(case, dict) and "rule2" in case:
        fl = rs.replay_session(case)
        for x in fl:
            print("  failure:", x["class"], "--", x["what"][:400])
        print("property oracle on the current tree:", "fails" if fl else "holds")
        return 1 if fl else 0
    if isinstance(case, dict) and "rule" in case:
        f, errs, _ = c05_oracle(case)
        print("measured errors (position/cell, radius, width):", errs)
        for x in f:
            print("  failure:", x["what"][:300])
        print("property oracle on the current tree:", "fails" if f else "holds")
        return 1 if f else 0
    if isinstance(case, dict) and "candidate" in case:
        rec = rc.run_refine(case)
        print("returned:", rec["out"], "error:", rec.get("error_message"))
        return 0
    print("no stored input (an obligation or the correspondence stopped checking); see `no_longer_checks`")
    return 0
