"""C05 -- refined localisation recovers position, radius and interface width (partial: convergence is measured).

(a) proofs: Properties/C05.v (R-layer over Gen_refine_R + Gen_shapes: truth gives zero residual, identifiability in 1-d;
    D-layer over Model/Refine.v + Gen_refine: located candidates are feasible starts), golden fallback
(b) translator validation: interval sample goals -- the generated residual / profile expressions evaluated at the
    implementation's own (distance, parameters, image value) reproduce the residual entries that `_image_deviation` returned
(c) correspondence inside Coq (shared with C04): the candidates that locate_droplets builds, refined one by one with the
    recorded optimiser answers; the pipeline result must be exactly these per-candidate results
(d) property oracle: locate_droplets(refine=True) on resolvable droplets / well-separated emulsions, every threshold rule,
    intensities supplied or fitted: one droplet per original, relative errors < 1e-4 -- measured distribution in the evidence
"""
from __future__ import annotations

import json
import math
import random

import numpy as np

import refine_common as rc
import vlib

TOL = 1e-4
TRUSTED = [
    "Coq 8.16.1 kernel + vm_compute; Interval tactic (sample goals only)",
    "harness/gen_refine.py, harness/gen_shapes.py (fail-closed translators; validated by the sample goals of this run)",
    "real-number model of the residual / profile; floating-point evaluation differs by rounding (bounded per sample goal)",
    "oracle scipy.optimize.least_squares: premise lsq_spec checked on every recorded call; CONVERGENCE to the zero-residual "
    "point within 1e-4 is NOT a theorem: it is measured on every run (error distribution in this file)",
    "locate_droplets_in_mask / thresholding (C01, C18) produce one candidate per droplet: checked per sample",
    "correspondence harness harness/refine_common.py (proxy on droplets.image_analysis.optimize / .ndimage)",
]
ASSUME = [
    "resolvable droplet: radius >= 3 cells, width 1-2 cells (of the mean spacing), spacing anisotropy <= 1.25, centre at least "
    "radius + 2 widths + 2 cells away from non-periodic faces; well-separated: interface gap >= 10 widths",
    "position error is measured in units of the mean cell size (stricter than relative to the radius), modulo the period on periodic axes",
    "identifiability is proved for known levels (1-d from three cells; every dimension / metric from the two centres and one further point); fitted levels and identifiability from grid cells alone in d >= 2 are covered by measurement",
]
RULE = ("one evaluation = one locate_droplets(refine=True) call on a rendered image; grid families cart1/cart2/cart3 (random "
        "periodicity mask, mildly anisotropic, NON-SQUARE: cell counts 16-20 vs 36-48 in 2-d, 12-14 vs 24-30 in 3-d, random axis order), "
        "polar, spherical, cylindrical (periodic_z or not); 60 % of the centres forced within one radius of a periodic face of one "
        "axis or of all periodic axes (corners); image clean or "
        "affine (a in {0.25..3}, b in {-1..5}); threshold rules extrema/mean/otsu/numeric mid-level; intensities supplied, supplied+fitted, "
        "automatic+fitted; emulsions of two droplets on 2-d grids; all non-trivial (the candidate differs from the truth); distinct by the full case")

RULES = ["extrema", "mean", "otsu", "numeric"]
OPTS = ["supplied", "supplied+fitted", "auto+fitted"]


def refine_args(opt: str, a: float, b: float) -> dict:
    if opt == "supplied":
        return {"vmin": b, "vmax": a + b}
    if opt == "supplied+fitted":
        return {"vmin": b, "vmax": a + b, "adjust_values": True}
    return {"vmin": None, "vmax": None, "adjust_values": True}


def gen_grid_c05(rng: random.Random, fam: str) -> dict:
    """grids for the recovery claim: Cartesian grids are NON-SQUARE (cell counts differ by a factor >= 1.8 between axes,
    in random axis order), with every periodicity mask and mildly anisotropic spacing"""
    if fam == "cylindrical" and rng.random() < 0.4:
        # narrow, finely sliced cylinders: a droplet is then LONGER in z-cells than the grid has radial cells
        # (seeded change C05-3 compared the z-extent of a cluster with the number of radial cells)
        nr, nz = rng.randint(9, 11), rng.randint(36, 48)
        h = rng.choice([0.5, 1.0, 0.75, 1.25])
        hz = h * rng.choice([0.5, 0.625, 0.75])
        z0 = rc.dy(rng, -4, 4)
        return {"family": "cylindrical", "radius": nr * h, "bounds_z": [z0, z0 + nz * hz], "shape": [nr, nz],
                "periodic_z": rng.random() < 0.7}
    if not fam.startswith("cart") or fam == "cart1":
        return rc.gen_grid(rng, fam, big=True)
    d = int(fam[4])
    small, large = ((16, 20), (36, 48)) if d == 2 else ((12, 14), (24, 30))
    counts = [rng.randint(*large)] + [rng.randint(*small) for _ in range(d - 1)]
    if rng.random() < 0.15:
        counts = [counts[1]] * d          # a share of square / cubic grids stays in the stream
    rng.shuffle(counts)
    h0 = rng.choice([0.5, 1.0, 1.0, 0.75, 1.25, 2.0])
    bounds = []
    for n in counts:
        h = h0 * rng.choice([1.0, 1.0, 1.0, 1.125, 0.875, 1.25])
        lo = rc.dy(rng, -4, 4)
        bounds.append([lo, lo + n * h])
    mask = [rng.random() < 0.6 for _ in range(d)]
    return {"family": "cartesian", "bounds": bounds, "shape": counts, "periodic": mask}


def straddle(rng: random.Random, gs: dict, truth: dict) -> str:
    """move the centre to within one radius of a periodic face: of one randomly chosen periodic axis, or (a third of the
    cases) of every periodic axis (edges / corners); returns what was done"""
    axes = rc.grid_axes(gs)
    fam = gs["family"]
    if fam == "cartesian":
        per = [i for i, a in enumerate(axes) if a[3]]
        idx = {i: i for i in per}
    elif fam == "cylindrical" and axes[1][3]:
        per, idx = [1], {1: 2}
    else:
        return "none"
    if not per:
        return "none"
    chosen = per if rng.random() < 0.34 else [rng.choice(per)]
    for i in chosen:
        lo, hi, n, _ = axes[i]
        face = lo if rng.random() < 0.5 else hi
        x = face + rng.uniform(-1, 1) * truth["radius"]
        truth["position"][idx[i]] = lo + (x - lo) % (hi - lo)
    return "corner" if len(chosen) > 1 else f"axis{chosen[0]}"


def gen_single(rng: random.Random, k: int) -> dict:
    fam = rc.FAMILIES[k % 6]
    gs = gen_grid_c05(rng, fam)
    truth = rc.gen_truth(rng, gs, "DiffuseDroplet", 0, resolvable=True)
    how = straddle(rng, gs, truth) if rng.random() < 0.6 else "none"
    isp = rc.gen_image_spec(rng, truth, ["clean", "affine"][(k // 6) % 2])
    return {"grid": gs, "image": isp, "rule": RULES[(k // 12) % 4], "opt": OPTS[(k // 3) % 3], "straddles": how}


def gen_emulsion(rng: random.Random, k: int) -> dict:
    h = rng.choice([0.5, 1.0, 1.25])
    nx, ny = rng.randint(44, 52), rng.randint(22, 26)
    per = [rng.random() < 0.5, rng.random() < 0.5]
    gs = {"family": "cartesian", "bounds": [[0.0, nx * h], [0.0, ny * h * rng.choice([1.0, 1.125])]], "shape": [nx, ny], "periodic": per}
    w = rng.uniform(1.0, 1.25) * h
    r1, r2 = rng.uniform(3.0, 4.5) * h, rng.uniform(3.0, 4.5) * h
    Ly = gs["bounds"][1][1]
    x1 = rng.uniform(9.5, 11.0) * h
    gap = rng.uniform(10.0, 12.0) * w
    x2 = x1 + r1 + r2 + gap
    t = [{"cls": "DiffuseDroplet", "position": [x1, Ly / 2 + rng.uniform(-1, 1) * h], "radius": r1, "width": w},
         {"cls": "DiffuseDroplet", "position": [x2, Ly / 2 + rng.uniform(-1, 1) * h], "radius": r2, "width": w}]
    isp = {"kind": ["clean", "affine"][k % 2], "truth": t, "a": 1.0, "b": 0.0, "sigma": 0.0, "nseed": 0}
    if k % 2:
        isp["a"], isp["b"] = rng.choice([0.5, 2.0]), rng.choice([-1.0, 2.0])
    return {"grid": gs, "image": isp, "rule": RULES[(k // 2) % 4], "opt": OPTS[k % 3]}


def errors(gs: dict, found: dict, truth: dict, h: float) -> tuple[float, float, float]:
    axes = rc.grid_axes(gs)
    dp = []
    for i, (x, y) in enumerate(zip(found["position"], truth["position"])):
        df = x - y
        L = None
        if gs["family"] == "cartesian" and axes[i][3]:
            L = axes[i][1] - axes[i][0]
        if gs["family"] == "cylindrical" and i == 2 and axes[1][3]:
            L = axes[1][1] - axes[1][0]
        if L:
            df = (df + L / 2) % L - L / 2
        dp.append(df)
    return (float(np.linalg.norm(dp)) / h, abs(found["radius"] - truth["radius"]) / truth["radius"],
            abs(found["width"] - truth["width"]) / truth["width"])


def run_locate(case: dict):
    """-> (list of returned droplet specs, recorded least_squares calls, threshold used)"""
    from droplets.image_analysis import locate_droplets
    grid = rc.make_grid(case["grid"])
    img = rc.make_image(case["image"], grid)
    a, b = case["image"]["a"], case["image"]["b"]
    thr = case["rule"] if case["rule"] != "numeric" else b + a / 2
    with rc.Instrument() as ins:
        em = locate_droplets(img, threshold=thr, refine=True, refine_args=refine_args(case["opt"], a, b))
    return [rc.droplet_spec(d) for d in em], ins.calls, thr, grid, img


def c05_oracle(case: dict) -> tuple[list[dict], list[tuple[float, float, float]], list]:
    """failures of the property text on one case; the measured errors; the recorded calls"""
    fails, errs = [], []
    try:
        found, calls, thr, grid, img = run_locate(case)
    except Exception as e:  # noqa
        return [{"what": f"locate_droplets(refine=True) raised {type(e).__name__}: {e}"[:300]}], [], []
    truths = case["image"]["truth"]
    h = float(grid.typical_discretization)
    if len(found) != len(truths):
        fails.append({"what": f"{len(found)} droplet(s) returned for {len(truths)} original(s)"})
        return fails, errs, calls
    used = set()
    for t in truths:
        best = None
        for j, f in enumerate(found):
            if j in used or f.get("width") is None:
                continue
            e = errors(case["grid"], f, t, h)
            if best is None or max(e) < max(best[1]):
                best = (j, e)
        if best is None:
            fails.append({"what": "a returned droplet has no interface width"})
            continue
        used.add(best[0])
        errs.append(best[1])
        if not max(best[1]) < TOL:
            fails.append({"what": f"relative errors (position/cell, radius, width) = {best[1]} exceed {TOL}: original {t}, returned {found[best[0]]}"})
    return fails, errs, calls


# -----------------------------------------------------------------------------------------
# (b) sample goals: the generated residual expression against the residual entries of the implementation
# -----------------------------------------------------------------------------------------
def sample_goal_list(rng: random.Random, n: int):
    from droplets.tools import spherical
    goals, info = [], []
    k = 0
    while len(goals) < n:
        k += 1
        fam = ["cart1", "cart2", "cart3"][k % 3]
        gs = rc.gen_grid(rng, fam)
        gs["periodic"] = [False] * len(gs["shape"])
        grid = rc.make_grid(gs)
        truth = rc.gen_truth(rng, gs, "DiffuseDroplet", 0)
        isp = rc.gen_image_spec(rng, truth, "affine")
        cand = rc.gen_candidate(rng, gs, truth, "DiffuseDroplet", 0, across=False)
        cand["width"] = cand["width"] or truth["width"]
        adjust = bool(k % 2)
        case = {"grid": gs, "image": isp, "candidate": cand, "vmin": isp["b"], "vmax": isp["a"] + isp["b"], "adjust": adjust}
        rec = rc.run_refine(case)
        if rec["error"] or not rec["calls"]:
            continue
        # residual entries at the START vector, recomputed through the closure the implementation handed to the optimiser
        call = rec["calls"][0]
        region, image = rec["region"], rec["image"]
        prom = rec["promoted"]
        d = rc.make_droplet(prom)
        dist = spherical.polar_coordinates(grid, origin=np.array(prom["position"], float), ret_angle=False)[region]
        field = d._get_phase_field(grid)[region]
        vmin, vmax = rc.effective_levels(case, rec)
        vrng = vmax - vmin
        res = vmin + vrng * field - image[region]
        if not math.isclose(0.5 * float(res @ res), call["cost0"], rel_tol=1e-9, abs_tol=1e-300):
            continue
        idx = sorted(range(res.size), key=lambda i: abs(abs(field[i] - 0.5) - 0.2))[:2]   # cells inside the interface
        for i in idx:
            fn = "residual_adjust" if adjust else "residual_plain"
            expr = (f"{fn} {vlib.rlit(vmin)} {vlib.rlit(vrng)} (diffuse_profile {vlib.rlit(float(dist[i]))} "
                    f"{vlib.rlit(prom['radius'])} {vlib.rlit(prom['width'])}) {vlib.rlit(float(image[region][i]))}")
            goals.append((f"{fn} cell {i} of case {k}", expr, float(res[i]), 1e-12 * (abs(vmin) + abs(vrng) + abs(float(image[region][i])) + 1)))
            info.append({"case": k, "dist": float(dist[i]), "residual": float(res[i])})
    return goals[:n], info[:n]


def check(ctx: vlib.Ctx) -> int:
    import droplets
    ctx.extra["implementation"] = str(droplets.__file__)
    rng = random.Random(ctx.seed)
    ok, fresh = rc.prove_with_fallback(ctx, ["Proofs/C05.vo", "Proofs/C05Metric.vo", "Proofs/RefineCand.vo", "Model/Samples.vo"],
                                       ["Gen_refine", "Gen_refine_R", "Gen_shapes"])
    # (b) sample goals
    if ok:
        goals, info = sample_goal_list(random.Random(ctx.seed + 1), ctx.scale(16, 48))
        ctx.sample({"sample_goal": goals[0][1][:300], "impl_value": goals[0][2]})
        req = "From Coq Require Import Reals.\nFrom PD Require Import Gen.Gen_shapes Gen.Gen_refine_R."
        from concurrent.futures import ThreadPoolExecutor
        shards = [goals[i::4] for i in range(4)]
        with ThreadPoolExecutor(4) as ex:
            list(ex.map(lambda a: vlib.sample_goals(ctx, f"c05_{a[0]}", req, a[1],
                                                    ["residual_adjust", "residual_plain", "diffuse_profile"]), enumerate(shards)))
    # (d) property oracle + measurement
    n_single = ctx.scale(720, 4800) if not ctx.broken else ctx.scale(1080, 6000)
    n_em = ctx.scale(48, 240)
    cases = [("single", gen_single(rng, k)) for k in range(n_single)] + [("emulsion", gen_emulsion(rng, k)) for k in range(n_em)]
    all_err, fails, spec, fits = [], [], [], 0
    worst = []
    lits, lit_cases = [], []
    for k, (tag, case) in enumerate(cases):
        f, errs, calls = c05_oracle(case)
        gs = case["grid"]
        ctx.case([tag, case], nontrivial=True)
        ctx.count("family", rc.family_name(gs))
        ctx.count("periodic_axes", sum(1 for a in rc.grid_axes(gs) if a[3]))
        if gs["family"] == "cartesian" and len(gs["shape"]) > 1:
            ctx.count("cartesian_cell_count_ratio", "square" if len(set(gs["shape"])) == 1 else
                      ("first axis longest" if gs["shape"][0] == max(gs["shape"]) else "first axis not longest"))
            ctx.count("cartesian_periodic_mask", "".join("p" if p else "-" for p in gs["periodic"]))
        ctx.count("centre_straddles_periodic_face", case.get("straddles", "none"))
        ctx.count("image", case["image"]["kind"])
        ctx.count("threshold_rule", case["rule"])
        ctx.count("intensities", case["opt"])
        ctx.count("droplets", len(case["image"]["truth"]))
        fits += len(calls)
        for c in calls:
            for s in rc.lsq_spec_failures(c):
                spec.append({"what": "oracle-spec:least_squares " + s, "input": case})
        for e in errs:
            all_err.append(e)
            worst.append((max(e), e, tag, case))
        for x in f:
            fails.append({"what": x["what"], "stream": tag, "input": json.loads(json.dumps(case))})
        # (c) per-candidate correspondence on a third of the single-droplet cases
        if ok and tag == "single" and k % 3 == 0 and not f:
            from droplets.image_analysis import locate_droplets
            grid = rc.make_grid(gs)
            img = rc.make_image(case["image"], grid)
            a, b = case["image"]["a"], case["image"]["b"]
            thr = case["rule"] if case["rule"] != "numeric" else b + a / 2
            cands = [rc.droplet_spec(d) for d in locate_droplets(img, threshold=thr, refine=False)]
            ra = refine_args(case["opt"], a, b)
            outs = []
            for cs in cands:
                # hypotheses of C05_candidate_feasible (`located`)
                if not (cs["radius"] > 0 and float(grid.typical_discretization) > 0):
                    fails.append({"what": f"candidate {cs} is not a located candidate (radius > 0, spacing > 0)", "stream": tag, "input": case})
                rcase = {"grid": gs, "image": case["image"], "candidate": cs, "vmin": ra["vmin"], "vmax": ra["vmax"],
                         "adjust": bool(ra.get("adjust_values"))}
                rec = rc.run_refine(rcase)
                fits += len(rec["calls"])
                for c in rec["calls"]:
                    if "x" in c and not (np.all(c["lo"] <= c["x0"]) and np.all(c["x0"] <= c["hi"]) and np.all(c["lo"] < c["hi"])):
                        fails.append({"what": "start vector of a located candidate is not feasible", "stream": tag, "input": rcase})
                lit = rc.case_lit(rcase, rec)
                if lit is not None:
                    lits.append(lit)
                    lit_cases.append(rcase)
                outs.append(rec["out"])
            found, _, _, _, _ = run_locate(case)
            if sorted(json.dumps(o, sort_keys=True) for o in outs) != sorted(json.dumps(o, sort_keys=True) for o in found):
                fails.append({"what": f"locate_droplets(refine=True) returned {found}, refining its candidates one by one gives {outs}",
                              "stream": tag, "input": case})
            ctx.count("candidates_per_image", len(cands))
    ctx.extra["fits"] = fits
    if ok and lits:
        bad = vlib.run_cases(ctx, "locate_refine", rc.CASE_HEADER, lits, "agree", shard=40)
        for b in bad[:3]:
            ctx.broken.append(f"correspondence refine_droplet on a located candidate: model and implementation differ on {json.dumps(lit_cases[b])[:500]}")
        ctx.extra["correspondence_cases"] = len(lits)
    for s in spec[:3]:
        ctx.broken.append(s["what"][:300])
    # measured error distribution (evidence for the monitored convergence assumption)
    if all_err:
        arr = np.array(all_err)
        mx = arr.max(axis=1)
        qs = [0.5, 0.9, 0.99, 1.0]
        ctx.extra["measured_relative_errors"] = {
            "n_droplets": int(len(mx)),
            "quantiles_50_90_99_max": {"max_of_three": [float(v) for v in np.quantile(mx, qs)],
                                        "position_per_cell": [float(v) for v in np.quantile(arr[:, 0], qs)],
                                        "radius": [float(v) for v in np.quantile(arr[:, 1], qs)],
                                        "width": [float(v) for v in np.quantile(arr[:, 2], qs)]},
            "above_tolerance": int((mx >= TOL).sum()), "tolerance": TOL,
        }
        worst.sort(key=lambda t: -t[0])
        ctx.extra["worst_inputs"] = [{"errors": w[1], "stream": w[2], "input": json.loads(json.dumps(w[3]))} for w in worst[:3]]
        ctx.sample({"worst_case_errors": worst[0][1], "input": json.loads(json.dumps(worst[0][3]))})
    seen: dict = {}
    for f in fails:
        key = f["what"].split(":")[0][:40]
        seen[key] = seen.get(key, 0) + 1
        ent = rc.known_entry("C05", "relative error", grid=rc.grid_name(f["input"]["grid"])) if "grid" in f["input"] else None
        if ent is not None:
            if not any(k.startswith(ent["id"]) for k in ctx.known_printed):
                ctx.known_printed.append(f"{ent['id']}: {ent['what'][:160]} -- e.g. {f['what'][:200]} on input {json.dumps(f['input'])[:500]}")
            continue
        if seen[key] <= 2 and len(ctx.violations) < 10:
            ctx.violations.append({**f, "found": True, "broken": ctx.broken[:3]})
    for s in spec[:1]:
        ctx.violations.append({"what": s["what"], "input": s["input"], "found": True, "broken": ctx.broken[:3]})
    ctx.extra["oracle_failures_total"] = len(fails)
    return vlib.finish(ctx, "", TRUSTED, ASSUME, RULE)


def replay(path: str) -> int:
    obj = json.load(open(path))
    print(json.dumps(obj, indent=1)[:3000])
    case = obj.get("input")
    if isinstance(case, dict) and "rule" in case:
        f, errs, _ = c05_oracle(case)
        print("measured errors (position/cell, radius, width):", errs)
        for x in f:
            print("  failure:", x["what"][:300])
        print("property oracle on the current tree:", "fails" if f else "holds")
        return 1 if f else 0
    if isinstance(case, dict) and "candidate" in case:
        rec = rc.run_refine(case)
        print("returned:", rec["out"], "error:", rec.get("error_message"))
        return 0
    print("no stored input (an obligation or the correspondence stopped checking); see `no_longer_checks`")
    return 0
