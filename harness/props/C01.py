"""C01 -- locating a rendered emulsion returns each droplet once, with exact volume and half-cell centre.

Cylindrical grids: besides one on-axis droplet (Proofs/C01Cyl.v, C01CylPer.v) the theorems cover an emulsion of on-axis
droplets separated along z on non-periodic and periodic cylinders, with the oracle labelling and end to end
(Proofs/C01CylMulti.v: C01_cylindrical_emulsion, C01_cylindrical_periodic_emulsion and their _end_to_end variants).
"""
from __future__ import annotations

import itertools
import json
import math
import random

import numpy as np

import vlib
import locate_common as lc
from props import C02 as c02

TRUSTED = [
    "Coq 8.16.1 kernel + vm_compute",
    "scipy.ndimage.label as specified oracle (LabelSpec; checked per sample in C02), center_of_mass/sum as modelled",
    "correspondence harness: rendered mask, candidates and distance matrix recorded from the implementation",
    "py-pde grid geometry as modelled in Model/Grid.v (cell centres, periodic difference vector, normalize_point)",
]
ASSUME = [
    "coarse-dyadic spacings, origins, centres and radii: squared distances are exact in binary64, so the float image equals the exact image; "
    "the centre of mass is exact up to the final quotient (relative tolerance 1e-12)",
    "preconditions of the property (resolvable, inside non-periodic bounds, separated by rho(r_j)+rho(r_k)+2|h|) are enforced by the generator for "
    "the property stream; a second stream violates them on purpose and only requires model = implementation",
    "cylindrical grids: droplets straddling the periodic z boundary are excluded (known finding F19: py-pde never wraps z)",
]
RULE = ("property stream: emulsions of 1..4 sharp spheres with dyadic centres/radii on Cartesian grids d=1..3 (shapes 3..14, 3-d <= 8, all periodicity "
        "masks, dyadic spacings/origins, centres also outside the box on periodic axes, droplets across boundaries and corners), centred droplets on "
        "polar/spherical grids, on-axis droplets on cylindrical grids; non-trivial = at least one droplet crosses a periodic boundary or >= 2 droplets; "
        "plus all single-droplet placements on a 1/4-cell sub-lattice of a 5x6 periodic grid (thorough) and a precondition-violating stream")


def dy(rng, lo, hi, k=4):
    """random multiple of 2^-k in [lo, hi]"""
    s = 1 << k
    return rng.randrange(int(math.floor(lo * s)), int(math.ceil(hi * s)) + 1) / s


def rho(r, h):
    return lc.sphere_radius(float(np.prod([2 * r + hi for hi in h])), len(h))


def gen_cart(rng, want_valid=True):
    from pde import CartesianGrid
    dim = rng.choice([1, 2, 2, 3])
    nmax = {1: 14, 2: 12, 3: 7}[dim]
    shape = [rng.randrange(3, nmax + 1) for _ in range(dim)]
    hs = [rng.choice([0.5, 1.0, 1.0, 1.5, 2.0]) if rng.random() < 0.5 else 1.0 for _ in range(dim)]
    los = [dy(rng, -4, 4, 2) for _ in range(dim)]
    per = [rng.random() < 0.6 for _ in range(dim)]
    grid = CartesianGrid([(lo, lo + n * h) for lo, n, h in zip(los, shape, hs)], shape, periodic=per)
    L = [n * h for n, h in zip(shape, hs)]
    nd = rng.choice([1, 1, 2, 2, 3, 4])
    drops = []
    for _try in range(200):
        if len(drops) == nd:
            break
        rmax = min([(Li - 2 * hi) / 2 if p else Li / 2 for Li, hi, p in zip(L, hs, per)])
        if rmax <= 0.25:
            break
        r = dy(rng, 0.25, min(rmax, 3.5), 3)
        c = []
        for lo, Li, p in zip(los, L, per):
            if p:
                c.append(dy(rng, lo - Li, lo + 2 * Li, 4))  # also outside the box
            else:
                if lo + r > lo + Li - r:
                    c = None
                    break
                c.append(dy(rng, lo + r, lo + Li - r, 4))
        if c is None:
            continue
        if want_valid:
            okk = True
            for c2, r2 in drops:
                d = float(grid.distance(np.array(c), np.array(c2), coords="cartesian"))
                if d < rho(r, hs) + rho(r2, hs) + 2 * math.sqrt(sum(h * h for h in hs)):
                    okk = False
            if not okk:
                continue
        drops.append((c, r))
    return grid, drops


def covered_cells(grid, c, r):
    cc = grid.cell_coords
    diff = grid.difference_vector(np.array(c, float), cc, coords="cartesian")
    return np.sum(diff * diff, axis=-1) < r * r


def run_cart(grid, drops):
    from droplets import SphericalDroplet, Emulsion
    from droplets.image_analysis import locate_droplets
    from scipy import ndimage
    em0 = Emulsion([SphericalDroplet(np.array(c, float), r) for c, r in drops])
    field = em0.get_phasefield(grid)
    with lc.Recorder() as rec:
        em = locate_droplets(field)
    mask = field.data > 0.5
    labels, n = ndimage.label(mask)
    return field, mask, labels, em, (rec.log[0] if rec.log else None)


def oracle_cart(grid, drops, em):
    """C01 for Cartesian grids from the property text; returns failure description or None."""
    h = np.array(grid.discretization)
    cellvol = float(np.prod(h))
    per = list(map(bool, grid.periodic))
    if len(em) != len(drops):
        return f"{len(em)} droplet(s) returned for {len(drops)} original(s)"
    unused = list(range(len(em)))
    for c, r in drops:
        vol = float(covered_cells(grid, c, r).sum()) * cellvol
        found = None
        for k in unused:
            d = em[k]
            if abs(d.volume - vol) > 1e-9 * max(vol, 1e-300):
                continue
            diff = grid.difference_vector(np.array(c, float), np.array(d.position), coords="cartesian")
            if np.all(np.abs(diff) <= h / 2 + 1e-9 * (1 + h)):
                found = k
                break
        if found is None:
            return (f"no returned droplet with the volume {vol} of the covered cells and a centre within half a cell of {c} (r={r}); "
                    f"returned {[(list(np.round(d.position, 6)), d.volume) for d in em]}")
        unused.remove(found)
        pos = em[found].position
        for ax, (lo, hi) in enumerate(grid.axes_bounds):
            if per[ax] and not (lo - 1e-12 <= pos[ax] <= hi + 1e-12):
                return f"reported position {list(pos)} outside the grid bounds along periodic axis {ax}"
    return None


def cart_lit(grid, drops, labels, rec):
    ds = vlib.listlit([f"({vlib.listlit(c, vlib.qlit)}, {vlib.qlit(r)})" for c, r in drops])
    return f"({ds}, {lc.loc_case_lit(grid, labels, rec)})"


# ---- symmetric grids -----------------------------------------------------------------------------
def gen_radial(rng):
    from pde import PolarSymGrid, SphericalSymGrid
    cls = rng.choice((PolarSymGrid, SphericalSymGrid))
    n = rng.randrange(2, 20)
    dr = rng.choice([0.25, 0.5, 1.0, 2.0])
    grid = cls(n * dr, n)
    R = dy(rng, dr / 2 + 1 / 16, n * dr, 4)
    return grid, R


def run_radial(grid, R):
    from droplets import SphericalDroplet
    from droplets.image_analysis import locate_droplets
    field = SphericalDroplet(np.zeros(grid.dim), R).get_phase_field(grid)
    em = locate_droplets(field)
    return field.data > 0.5, em


def oracle_radial(grid, R, mask, em):
    rlo, rhi = grid.axes_bounds[0]
    dr = (rhi - rlo) / grid.shape[0]
    if len(em) != 1:
        return f"{len(em)} droplets for one centred original"
    d = em[0]
    if np.any(d.position != 0):
        return "located droplet is not centred"
    if abs(d.radius - R) > dr / 2 + 1e-12:
        return f"radius {d.radius} not within half a radial spacing of {R}"
    vol = float((grid.cell_volumes * mask).sum())
    if abs(d.volume - vol) > 1e-9 * vol:
        return f"volume {d.volume} is not the total volume {vol} of the covered cells"
    return None


def gen_cyl(rng):
    from pde import CylindricalSymGrid
    nr, nz = rng.randrange(2, 9), rng.randrange(4, 15)
    dr, dz = rng.choice([0.5, 1.0, 1.0]), rng.choice([0.5, 1.0, 1.0, 2.0])
    zlo = dy(rng, -6, 6, 1)
    per = rng.random() < 0.5
    grid = CylindricalSymGrid(nr * dr, (zlo, zlo + nz * dz), (nr, nz), periodic_z=per)
    drops = []
    for _ in range(30):
        if len(drops) == rng.choice([1, 1, 2]):
            break
        Rmax = min(nr * dr, nz * dz / 2)
        if Rmax <= 0.75:
            break
        R = dy(rng, 0.75, min(Rmax, 4.0), 3)
        if zlo + R > zlo + nz * dz - R:
            continue
        c = dy(rng, zlo + R, zlo + nz * dz - R, 4)
        hs = [dr, dr, dz]
        Lz = nz * dz

        def zdist(a, b):
            d = abs(a - b)
            return min(d, Lz - d) if per else d
        if all(zdist(c, c2) >= rho(R, hs) + rho(R2, hs) + 2 * math.sqrt(sum(h * h for h in hs)) for c2, R2 in drops):
            drops.append((c, R))
    return grid, drops


def run_cyl(grid, drops):
    from droplets import SphericalDroplet, Emulsion
    field = Emulsion([SphericalDroplet(np.array([0, 0, c]), R) for c, R in drops]).get_phasefield(grid)
    mask = field.data > 0.5
    return (mask,) + c02.run_cyl(grid, mask)


def oracle_cyl(grid, drops, mask, em):
    (rlo, R_out), (zlo, zhi) = grid.axes_bounds
    nr, nz = grid.shape
    dr, dz = R_out / nr, (zhi - zlo) / nz
    if len(em) != len(drops):
        return f"{len(em)} droplet(s) returned for {len(drops)} on-axis original(s)"
    rr = (np.arange(nr) + 0.5) * dr
    zz = zlo + (np.arange(nz) + 0.5) * dz
    for c, R in drops:
        cov = (rr[:, None] ** 2 + (zz[None, :] - c) ** 2) < R * R
        vol = float((grid.cell_volumes * cov).sum())
        ok = [d for d in em if abs(d.volume - vol) <= 1e-9 * vol and abs(d.position[2] - c) <= dz / 2 + 1e-9
              and d.position[0] == 0 and d.position[1] == 0]
        if not ok:
            return (f"no on-axis droplet with the volume {vol} of the covered cells and z within half a cell of {c}; "
                    f"returned {[(float(d.position[2]), d.volume) for d in em]}")
    return None


def check(ctx: vlib.Ctx) -> int:
    rng = random.Random(ctx.seed)
    ok = vlib.prove(ctx, ["Proofs/C01.vo", "Proofs/LabelClients.vo", "Proofs/C01Cyl.vo", "Proofs/C01CylPer.vo", "Proofs/C01Multi.vo", "Proofs/C01CylMulti.vo", "Proofs/BallCount.vo",
                          "Model/LocateCases.vo"], gens=[])
    # R-layer part (separation => located spheres do not overlap), over the generated radius_from_volume
    ok = vlib.prove(ctx, ["Proofs/C01Sep.vo"], prop_file="Properties/C01R.v", gens=["Gen_spherical"]) and ok
    ctx.tie.append("hand-written models (Render, RenderSym, Locate, LocateSym, Overlap) + in-Coq correspondence of image, candidates and result")
    fails = []
    header = ("From Coq Require Import QArith ZArith List.\nImport ListNotations.\n"
              "From PD Require Import Model.Grid Model.Render Model.RenderSym Model.Locate Model.LocateSym Model.LocateCases.\n"
              "Local Open Scope Q_scope.\n")
    # ---- Cartesian
    lits, meta = [], []
    specs = []
    for _ in range(ctx.scale(1500, 8000)):
        specs.append(gen_cart(rng, True) + ("property",))
    for _ in range(ctx.scale(150, 1500)):
        specs.append(gen_cart(rng, False) + ("preconditions violated",))
    if not ctx.quick:
        from pde import CartesianGrid
        g56 = CartesianGrid([(0, 5), (0, 6)], [5, 6], periodic=True)
        for ix, iy, r in itertools.product(range(20), range(24), [0.75, 1.25, 1.75]):
            specs.append((g56, [([ix / 4, iy / 4], r)], "property"))
    for grid, drops, stream in specs:
        if not drops:
            continue
        field, mask, labels, em, rec = run_cart(grid, drops)
        h = np.array(grid.discretization)
        crossing = any(np.any((np.array(c) - r < [b[0] for b in grid.axes_bounds]) | (np.array(c) + r > [b[1] for b in grid.axes_bounds]))
                       for c, r in drops)
        inp = {"family": "cartesian", "shape": list(grid.shape), "bounds": [list(map(float, b)) for b in grid.axes_bounds],
               "periodic": list(map(bool, grid.periodic)), "droplets": [[list(c), r] for c, r in drops], "stream": stream}
        ctx.case(inp, nontrivial=crossing or len(drops) >= 2)
        ctx.count("stream", stream)
        ctx.count("dim", grid.dim)
        ctx.count("droplets", len(drops))
        ctx.count("crosses_boundary", crossing)
        ctx.count("periodic_axes", int(sum(grid.periodic)))
        if stream == "property":
            if any(covered_cells(grid, c, r).sum() == 0 for c, r in drops):
                ctx.count("skipped", "droplet covers no cell centre (not resolvable)")
            else:
                f = oracle_cart(grid, drops, em)
                if f:
                    fails.append({"what": f, "input": inp})
        if rec is not None:
            lits.append(cart_lit(grid, drops, labels, rec))
            meta.append(inp)
    ctx.sample(meta[1] if len(meta) > 1 else {})
    if ok:
        bad = vlib.run_cases(ctx, "cart", header, lits, "c01_cart_agree", shard=120)
        for b in bad[:3]:
            ctx.broken.append(f"correspondence render+locate (Cartesian): model and implementation differ on {meta[b]}")
    # ---- radial
    lits, meta = [], []
    for _ in range(ctx.scale(150, 1500)):
        grid, R = gen_radial(rng)
        mask, em = run_radial(grid, R)
        inp = {"family": type(grid).__name__, "n": int(grid.shape[0]), "bounds": list(map(float, grid.axes_bounds[0])), "radius": R}
        ctx.case(inp)
        ctx.count("radial_family", type(grid).__name__)
        f = oracle_radial(grid, R, mask, em)
        if f:
            fails.append({"what": f, "input": inp})
        rlo, rhi = grid.axes_bounds[0]
        out = f"(Some {vlib.qlit(em[0].radius)})" if len(em) else "None"
        lits.append("(%s, {| rd_lo := %s; rd_dr := %s; rd_mask := %s; rd_out := %s |})"
                    % (vlib.qlit(R), vlib.qlit(rlo), vlib.qlit((rhi - rlo) / grid.shape[0]), vlib.listlit(mask.tolist(), vlib.blit), out))
        meta.append(inp)
    if ok:
        bad = vlib.run_cases(ctx, "radial", header, lits, "c01_rad_agree", shard=400)
        for b in bad[:3]:
            ctx.broken.append(f"correspondence render+locate (radial): model and implementation differ on {meta[b]}")
    # ---- cylindrical
    lits, meta = [], []
    for _ in range(ctx.scale(200, 2000)):
        grid, drops = gen_cyl(rng)
        if not drops:
            continue
        mask, em, exc, lab_pad, lab, cands, out, M = run_cyl(grid, drops)
        inp = {"family": "cylindrical", "shape": list(grid.shape), "bounds": [list(map(float, b)) for b in grid.axes_bounds],
               "periodic_z": bool(grid.periodic[1]), "droplets": [[c, R] for c, R in drops]}
        ctx.case(inp, nontrivial=len(drops) >= 2)
        ctx.count("cyl_periodic", bool(grid.periodic[1]))
        if exc:
            fails.append({"what": f"raised {exc}", "input": inp})
            continue
        (_, R_out), (zlo, zhi) = grid.axes_bounds
        rr = (np.arange(grid.shape[0]) + 0.5) * R_out / grid.shape[0]
        zz = zlo + (np.arange(grid.shape[1]) + 0.5) * (zhi - zlo) / grid.shape[1]
        if any(not np.any((rr[:, None] ** 2 + (zz[None, :] - c) ** 2) < R * R) for c, R in drops):
            ctx.count("skipped", "droplet covers no cell centre (not resolvable)")
        else:
            f = oracle_cyl(grid, drops, mask, em)
            if f:
                fails.append({"what": f, "input": inp})
        ds = vlib.listlit([f"({vlib.qlit(c)}, {vlib.qlit(R)})" for c, R in drops])
        lits.append(f"({ds}, {c02.cyl_case_lit(grid, lab_pad, lab, cands, out, M)})")
        meta.append(inp)
    ctx.sample(meta[0] if meta else {})
    if ok:
        bad = vlib.run_cases(ctx, "cyl", header, lits, "c01_cyl_agree", shard=150)
        for b in bad[:3]:
            ctx.broken.append(f"correspondence render+locate (cylindrical): model and implementation differ on {meta[b]}")
    for f in fails[:3]:
        ctx.violations.append({**f, "found": True, "broken": ctx.broken[:3]})
    return vlib.finish(ctx, "", TRUSTED, ASSUME, RULE)


def replay(path: str) -> int:
    obj = json.load(open(path))
    print(json.dumps(obj, indent=1)[:1500])
    inp = obj.get("input", {})
    fam = inp.get("family")
    f = None
    if fam == "cartesian":
        from pde import CartesianGrid
        grid = CartesianGrid([tuple(b) for b in inp["bounds"]], inp["shape"], periodic=inp["periodic"])
        drops = [(c, r) for c, r in inp["droplets"]]
        field, mask, labels, em, rec = run_cart(grid, drops)
        f = oracle_cart(grid, drops, em)
    elif fam == "cylindrical":
        from pde import CylindricalSymGrid
        grid = CylindricalSymGrid(inp["bounds"][0][1], tuple(inp["bounds"][1]), inp["shape"], periodic_z=inp["periodic_z"])
        drops = [(c, R) for c, R in inp["droplets"]]
        mask, em, exc, *_ = run_cyl(grid, drops)
        f = f"raised {exc}" if exc else oracle_cyl(grid, drops, mask, em)
    elif fam in ("PolarSymGrid", "SphericalSymGrid"):
        import pde
        grid = getattr(pde, fam)(tuple(inp["bounds"]), inp["n"])
        mask, em = run_radial(grid, inp["radius"])
        f = oracle_radial(grid, inp["radius"], mask, em)
    print("property oracle on the current tree:", f or "holds")
    return 1 if f else 0
