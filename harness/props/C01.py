"""C01 -- locating a rendered emulsion returns each droplet once, with exact volume and half-cell centre.

Cylindrical grids: besides one on-axis droplet (Proofs/C01Cyl.v, C01CylPer.v) the theorems cover an emulsion of on-axis
droplets separated along z on non-periodic and periodic cylinders, with the oracle labelling and end to end
(Proofs/C01CylMulti.v: C01_cylindrical_emulsion, C01_cylindrical_periodic_emulsion and their _end_to_end variants).
"""
from __future__ import annotations

import itertools
import json
import math
import random

import numpy as np

import vlib
import locate_common as lc
from props import C02 as c02

TRUSTED = [
    "Coq 8.16.1 kernel + vm_compute",
    "scipy.ndimage.label as specified oracle (LabelSpec; checked per sample in C02), center_of_mass/sum as modelled",
    "correspondence harness: rendered mask, candidates and distance matrix recorded from the implementation",
    "py-pde grid geometry as modelled in Model/Grid.v (cell centres, periodic difference vector, normalize_point)",
]
ASSUME = [
    "coarse-dyadic spacings, origins, centres and radii: squared distances are exact in binary64, so the float image equals the exact image; "
    "the centre of mass is exact up to the final quotient (relative tolerance 1e-12)",
    "preconditions of the property (resolvable, inside non-periodic bounds, separated by rho(r_j)+rho(r_k)+2|h|) are enforced by the generator for "
    "the property stream; a second stream violates them on purpose and only requires model = implementation",
    "cylindrical grids: droplets straddling the periodic z boundary are excluded (known finding F19: py-pde never wraps z)",
]
RULE = ("property stream: emulsions of 1..4 sharp spheres with dyadic centres/radii on Cartesian grids d=1..3 (shapes 3..14, 3-d <= 8, non-periodic axes "
        "also with 1 or 2 thick cells, all periodicity masks, dyadic spacings, origins of every kind (zero, centred, positive, entirely negative), centres "
        "also outside the box on periodic axes, droplets forced across periodic faces and corners and touching (not crossing) non-periodic faces), centred "
        "droplets on polar/spherical grids (1..19 cells; inner radius > 0: count / centre / radius clauses only, see SUSPECTED), on-axis droplets on "
        "cylindrical grids (regular, narrow and finely sliced, flat and wide, tiny; droplets touching the z faces); every image is located a second time "
        "as float32 / int64 / uint8 / bool data and with a minimal_radius boundary value (must reproduce the reference call resp. the documented filter); "
        "non-trivial = at least one droplet crosses a periodic boundary or >= 2 droplets; "
        "plus all single-droplet placements on a 1/4-cell sub-lattice of a 5x6 periodic grid (thorough) and a precondition-violating stream; "
        "sequences (state kept between calls): per grid family groups of emulsions that share shape, droplet count, radii and total volume but differ in "
        "the centres or the grid, rendered and located with both locators on REUSED grid / emulsion / field objects (same call twice, interleaved, after "
        "calls that raise, series of up to 14 images on one grid object), compared bitwise with fresh objects evaluated first in a fresh interpreter and "
        "judged by the property oracle; arguments and the grid's cached arrays compared with a fresh equal grid after every call; all outputs kept alive, "
        "checked for shared memory, one of them modified in place")

# Inputs on which the unchanged /repo does not satisfy the property text as written and that wait for a decision of the
# lead: executed and reported in the evidence notes, NOT judged (notes/audit_task.md).
SUSPECTED = [
    {"id": "S-C01-1", "class": "polar / spherical grid with inner radius > 0: volume clause",
     "what": "on PolarSymGrid / SphericalSymGrid with inner radius r_in > 0 the located SphericalDroplet sits at the origin with radius = outer radius of "
             "the innermost cluster, i.e. its volume is that of the FULL ball, not the total volume of the covered (shell) cells, which is smaller by the "
             "volume of the hole; count, centre and the half-spacing radius clause hold and are judged"},
]

# minimal_radius values handed to the second call (documented: droplets with radius <= minimal_radius are dropped)
MIN_RADIUS_KINDS = ["int 0", "float 0.0", "-0.0", "-1", "-inf", "numpy float64 0", "numpy 0-d array 0", "5e-324",
                    "just below the smallest radius", "exactly the smallest radius", "exactly the largest radius"]


def min_radius_value(kind, radii):
    return {"int 0": 0, "float 0.0": 0.0, "-0.0": -0.0, "-1": -1, "-inf": -math.inf, "numpy float64 0": np.float64(0),
            "numpy 0-d array 0": np.array(0.0), "5e-324": 5e-324,
            "just below the smallest radius": float(np.nextafter(min(radii), 0)) if radii else 0.0,
            "exactly the smallest radius": float(min(radii)) if radii else 0.0,
            "exactly the largest radius": float(max(radii)) if radii else 0.0}[kind]


MINR_LITS: list = []   # in-Coq correspondence of the minimal_radius filter (Model/Overlap.v remove_small), filled by second_call_failure
MINR_META: list = []


def second_call_failure(field, em_ref, dtype, mr_kind):
    """The same image as `dtype` data and with a minimal_radius boundary value: must return the droplets of the
    reference call whose radius exceeds minimal_radius (bitwise), must not raise and must not modify the field."""
    from pde import ScalarField
    from droplets.image_analysis import locate_droplets
    from droplets import Emulsion
    radii = [float(d.radius) for d in em_ref]
    mr = min_radius_value(mr_kind, radii)
    f2 = ScalarField(field.grid, field.data.astype(dtype), dtype=dtype)
    before = f2.data.copy()
    what = f"image as {dtype} data, minimal_radius={mr!r} ({mr_kind})"
    try:
        em2 = locate_droplets(f2, minimal_radius=mr)
    except Exception as e:  # noqa
        return f"{what}: raised {type(e).__name__}: {e}"
    if f2.data.dtype != before.dtype or not np.array_equal(f2.data, before):
        return f"{what}: the data of the field was modified"
    keys_ref, keys2 = lc.emulsion_key(em_ref), lc.emulsion_key(em2)
    if math.isfinite(float(mr)) and radii and isinstance(keys2, list):
        # which droplets of the reference call came back (in order); the filter itself is compared with the model inside Coq
        out, start = [], 0
        for k in keys2:
            if k in keys_ref[start:]:
                start = keys_ref.index(k, start) + 1
                out.append(start - 1)
            else:
                out = None
                break
        if out is not None:
            MINR_LITS.append("{| rs_mn := %s; rs_rad := %s; rs_out := %s |}"
                             % (vlib.qlit(float(mr)), vlib.listlit(radii, vlib.qlit), vlib.listlit(out, lambda i: f"{i}%nat")))
            MINR_META.append({"radii": radii, "minimal_radius": float(mr), "kind": mr_kind, "returned": out})
    want = Emulsion([d for d in em_ref if not d.radius <= float(mr)])
    return lc.same_result(want, em2, what)


def dy(rng, lo, hi, k=4):
    """random multiple of 2^-k in [lo, hi]"""
    s = 1 << k
    return rng.randrange(int(math.floor(lo * s)), int(math.ceil(hi * s)) + 1) / s


def rho(r, h):
    return lc.sphere_radius(float(np.prod([2 * r + hi for hi in h])), len(h))


def gen_cart(rng, want_valid=True):
    """returns (grid, droplets, info) with info = origin kinds per axis and how centres were placed"""
    from pde import CartesianGrid
    dim = rng.choice([1, 2, 2, 3])
    nmax = {1: 14, 2: 12, 3: 7}[dim]
    per = [rng.random() < 0.6 for _ in range(dim)]
    shape, hs = [], []
    for p in per:
        if not p and dim > 1 and rng.random() < 0.15:
            # a slab: 1 or 2 thick cells along a non-periodic axis (a periodic axis needs 2 r + 2 h <= L, i.e. >= 3 cells)
            shape.append(rng.choice([1, 2]))
            hs.append(rng.choice([1.0, 2.0, 4.0]))
        else:
            shape.append(rng.randrange(3, nmax + 1))
            hs.append(rng.choice([0.5, 1.0, 1.0, 1.5, 2.0]) if rng.random() < 0.5 else 1.0)
    los, okinds = [], []
    for n, h in zip(shape, hs):
        lo, kind = lc.axis_origin(rng, n, h)
        los.append(lo)
        okinds.append(kind)
    grid = CartesianGrid([(lo, lo + n * h) for lo, n, h in zip(los, shape, hs)], shape, periodic=per)
    L = [n * h for n, h in zip(shape, hs)]
    nd = rng.choice([1, 1, 2, 2, 3, 4])
    drops = []
    for _try in range(200):
        if len(drops) == nd:
            break
        rmax = min([(Li - 2 * hi) / 2 if p else Li / 2 for Li, hi, p in zip(L, hs, per)])
        if rmax <= 0.25:
            break
        r = dy(rng, 0.25, min(rmax, 3.5), 3)
        if not want_valid and rng.random() < 0.1:
            r = 0.0  # a vanished droplet among the others (covers nothing)
        c = []
        corner = rng.random() < 0.2   # straddle every periodic face at once: an edge / a corner of the periodic box
        for lo, Li, p, hi_ in zip(los, L, per, hs):
            if p:
                if corner or rng.random() < 0.3:
                    # straddle a periodic face: centre within r of the lower / upper bound (or of their periodic images);
                    # often nearly tangent from inside, so that only a sliver of at most one cell layer lies beyond the face
                    face = lo + rng.choice([-1, 0, 0, 1, 1, 2]) * Li
                    if rng.random() < 0.4:
                        c.append(face + rng.choice([-1, 1]) * max(r - dy(rng, 0, min(hi_, r), 4), 0.0))
                    else:
                        c.append(face + dy(rng, -r, r, 4))
                else:
                    c.append(dy(rng, lo - Li, lo + 2 * Li, 4))  # also outside the box
            else:
                if lo + r > lo + Li - r:
                    c = None
                    break
                u = rng.random()
                # touching (not crossing) a non-periodic face: the sphere is tangent to it
                c.append(lo + r if u < 0.08 else lo + Li - r if u < 0.16 else dy(rng, lo + r, lo + Li - r, 4))
        if c is None:
            continue
        if want_valid:
            okk = True
            for c2, r2 in drops:
                d = float(grid.distance(np.array(c), np.array(c2), coords="cartesian"))
                if d < rho(r, hs) + rho(r2, hs) + 2 * math.sqrt(sum(h * h for h in hs)):
                    okk = False
            if not okk:
                continue
        drops.append((c, r))
    return grid, drops, {"origin_kinds": okinds}


def count_cart(ctx, grid, drops, info):
    """histogram of the geometric input dimensions of one Cartesian case; returns whether a droplet crosses a periodic face"""
    lc.count_grid(ctx, grid, info.get("origin_kinds"))
    per = [bool(p) for p in grid.periodic]
    lo = np.array([b[0] for b in grid.axes_bounds])
    hi = np.array([b[1] for b in grid.axes_bounds])
    crossed, touching, outside = set(), False, False
    for c, r in drops:
        c = np.array(c, float)
        outside = outside or bool(np.any((c < lo) | (c >= hi)))
        cw = np.array(grid.normalize_point(c))
        axes = [ax for ax in range(grid.num_axes) if per[ax] and (cw[ax] - r < lo[ax] or cw[ax] + r > hi[ax])]
        crossed.update(axes)
        ctx.count("periodic_faces_crossed_by_one_droplet", len(axes))   # 2, 3 = across an edge / a corner of the box
        touching = touching or any(not per[ax] and (c[ax] - r == lo[ax] or c[ax] + r == hi[ax]) for ax in range(grid.num_axes))
    for ax in sorted(crossed):
        if grid.num_axes > 1:
            ctx.count("crossed_axis_position", "first" if ax == 0 else "last" if ax == grid.num_axes - 1 else "middle")
        if ax > 0:
            ctx.count("crossed_later_axis_cells_vs_axis0",
                      "equal" if grid.shape[ax] == grid.shape[0] else "fewer" if grid.shape[ax] < grid.shape[0] else "more")
        if any(not per[a] for a in range(ax)):
            ctx.count("crossed_axis_after_nonperiodic_axis", True)
    ctx.count("centre_outside_box", outside)
    ctx.count("touches_nonperiodic_face", touching)
    return bool(crossed)


def covered_cells(grid, c, r):
    cc = grid.cell_coords
    diff = grid.difference_vector(np.array(c, float), cc, coords="cartesian")
    return np.sum(diff * diff, axis=-1) < r * r


def run_cart(grid, drops):
    from droplets import SphericalDroplet, Emulsion
    from droplets.image_analysis import locate_droplets
    from scipy import ndimage
    em0 = Emulsion([SphericalDroplet(np.array(c, float), r) for c, r in drops])
    field = em0.get_phasefield(grid)
    before = field.data.copy()
    with lc.Recorder() as rec:
        em = locate_droplets(field)
    if not np.array_equal(field.data, before):
        raise RuntimeError("locate_droplets modified the data of the field")
    mask = field.data > 0.5
    labels, n = ndimage.label(mask)
    return field, mask, labels, em, (rec.log[0] if rec.log else None)


def oracle_cart(grid, drops, em):
    """C01 for Cartesian grids from the property text; returns failure description or None."""
    h = np.array(grid.discretization)
    cellvol = float(np.prod(h))
    per = list(map(bool, grid.periodic))
    kind = lc.emulsion_key(em)
    if isinstance(kind, str):
        return kind
    if len(em) != len(drops):
        return f"{len(em)} droplet(s) returned for {len(drops)} original(s)"
    unused = list(range(len(em)))
    for c, r in drops:
        vol = float(covered_cells(grid, c, r).sum()) * cellvol
        found = None
        for k in unused:
            d = em[k]
            if abs(d.volume - vol) > 1e-9 * max(vol, 1e-300):
                continue
            diff = grid.difference_vector(np.array(c, float), np.array(d.position), coords="cartesian")
            if np.all(np.abs(diff) <= h / 2 + 1e-9 * (1 + h)):
                found = k
                break
        if found is None:
            return (f"no returned droplet with the volume {vol} of the covered cells and a centre within half a cell of {c} (r={r}); "
                    f"returned {[(list(np.round(d.position, 6)), d.volume) for d in em]}")
        unused.remove(found)
        pos = em[found].position
        for ax, (lo, hi) in enumerate(grid.axes_bounds):
            if per[ax] and not (lo - 1e-12 <= pos[ax] <= hi + 1e-12):
                return f"reported position {list(pos)} outside the grid bounds along periodic axis {ax}"
    return None


def cart_lit(grid, drops, labels, rec):
    ds = vlib.listlit([f"({vlib.listlit(c, vlib.qlit)}, {vlib.qlit(r)})" for c, r in drops])
    return f"({ds}, {lc.loc_case_lit(grid, labels, rec)})"


# ---- symmetric grids -----------------------------------------------------------------------------
def gen_radial(rng):
    """returns (grid, R, how R was chosen)"""
    from pde import PolarSymGrid, SphericalSymGrid
    cls = rng.choice((PolarSymGrid, SphericalSymGrid))
    n = rng.randrange(1, 20)
    dr = rng.choice([0.25, 0.5, 1.0, 2.0])
    rlo = 0.0 if rng.random() < 0.7 else rng.choice([dr / 2, dr, 2 * dr, 0.25, 3.0])
    grid = cls((rlo, rlo + n * dr), n)
    u = rng.random()
    if u < 0.1:
        R, how = rlo + n * dr, "outer radius of the grid"
    elif u < 0.25 and n >= 2:
        R, how = rlo + (rng.randrange(1, n) + 0.5) * dr, "exactly on a cell centre"  # that cell is not covered (strict <)
    else:
        R, how = dy(rng, rlo + dr / 2 + 1 / 16, rlo + n * dr, 4), "generic"
    return grid, R, how


def run_radial(grid, R):
    from droplets import SphericalDroplet
    from droplets.image_analysis import locate_droplets
    field = SphericalDroplet(np.zeros(grid.dim), R).get_phase_field(grid)
    before = field.data.copy()
    em = locate_droplets(field)
    if not np.array_equal(field.data, before):
        raise RuntimeError("locate_droplets modified the data of the field")
    return field, field.data > 0.5, em


def oracle_radial(grid, R, mask, em, judge_volume=True):
    rlo, rhi = grid.axes_bounds[0]
    dr = (rhi - rlo) / grid.shape[0]
    kind = lc.emulsion_key(em)
    if isinstance(kind, str):
        return kind
    if len(em) != 1:
        return f"{len(em)} droplets for one centred original"
    d = em[0]
    if np.any(d.position != 0):
        return "located droplet is not centred"
    if abs(d.radius - R) > dr / 2 + 1e-12:
        return f"radius {d.radius} not within half a radial spacing of {R}"
    vol = float((grid.cell_volumes * mask).sum())
    if judge_volume and abs(d.volume - vol) > 1e-9 * vol:
        return f"volume {d.volume} is not the total volume {vol} of the covered cells"
    return None


def gen_cyl(rng):
    """returns (grid, droplets, info)"""
    from pde import CylindricalSymGrid
    form = rng.choice(["regular", "regular", "regular", "narrow", "flat", "tiny", "long"])
    if form == "long":  # room for several droplets along z
        nr, nz = rng.randrange(2, 5), rng.randrange(16, 31)
        dr, dz = rng.choice([0.5, 1.0]), rng.choice([0.5, 1.0])
    elif form == "regular":
        nr, nz = rng.randrange(2, 9), rng.randrange(4, 15)
        dr, dz = rng.choice([0.5, 1.0, 1.0]), rng.choice([0.5, 1.0, 1.0, 2.0])
    elif form == "narrow":  # few radial cells, finely sliced: a droplet is longer in z-cells than the grid has radial cells
        nr, nz = rng.randrange(1, 4), rng.randrange(10, 29)
        dr, dz = rng.choice([1.0, 2.0]), rng.choice([0.25, 0.5])
    elif form == "flat":  # many radial cells, few thick z layers
        nr, nz = rng.randrange(6, 15), rng.randrange(1, 5)
        dr, dz = rng.choice([0.25, 0.5, 1.0]), rng.choice([1.0, 2.0, 4.0])
    else:
        nr, nz = rng.randrange(1, 3), rng.randrange(1, 3)
        dr, dz = rng.choice([1.0, 2.0]), rng.choice([1.0, 2.0, 4.0])
    zlo, okind = lc.axis_origin(rng, nz, dz)
    per = rng.random() < 0.5
    grid = CylindricalSymGrid(nr * dr, (zlo, zlo + nz * dz), (nr, nz), periodic_z=per)
    drops = []
    touch = False
    nd = rng.choice([2, 3, 3]) if form == "long" else rng.choice([1, 1, 2])
    for _ in range(30):
        if len(drops) == nd:
            break
        Rmax = min(nr * dr, nz * dz / 2)
        if Rmax <= 0.75:
            break
        R = dy(rng, 0.75, min(Rmax, 1.5 if form == "long" else 4.0), 3)
        if zlo + R > zlo + nz * dz - R:
            continue
        u = rng.random()
        # tangent to the lower / upper z face (inside the z-range: never straddling, see F19)
        c = zlo + R if u < 0.15 else zlo + nz * dz - R if u < 0.3 else dy(rng, zlo + R, zlo + nz * dz - R, 4)
        hs = [dr, dr, dz]
        Lz = nz * dz

        def zdist(a, b):
            d = abs(a - b)
            return min(d, Lz - d) if per else d
        if all(zdist(c, c2) >= rho(R, hs) + rho(R2, hs) + 2 * math.sqrt(sum(h * h for h in hs)) for c2, R2 in drops):
            drops.append((c, R))
            touch = touch or u < 0.3
    return grid, drops, {"form": form, "z_origin_kind": okind, "touches_z_face": touch}


def run_cyl(grid, drops):
    from droplets import SphericalDroplet, Emulsion
    field = Emulsion([SphericalDroplet(np.array([0, 0, c]), R) for c, R in drops]).get_phasefield(grid)
    mask = field.data > 0.5
    return (mask,) + c02.run_cyl(grid, mask)


def oracle_cyl(grid, drops, mask, em):
    (rlo, R_out), (zlo, zhi) = grid.axes_bounds
    nr, nz = grid.shape
    dr, dz = R_out / nr, (zhi - zlo) / nz
    kind = lc.emulsion_key(em)
    if isinstance(kind, str):
        return kind
    if len(em) != len(drops):
        return f"{len(em)} droplet(s) returned for {len(drops)} on-axis original(s)"
    rr = (np.arange(nr) + 0.5) * dr
    zz = zlo + (np.arange(nz) + 0.5) * dz
    for c, R in drops:
        cov = (rr[:, None] ** 2 + (zz[None, :] - c) ** 2) < R * R
        vol = float((grid.cell_volumes * cov).sum())
        ok = [d for d in em if abs(d.volume - vol) <= 1e-9 * vol and abs(d.position[2] - c) <= dz / 2 + 1e-9
              and d.position[0] == 0 and d.position[1] == 0]
        if not ok:
            return (f"no on-axis droplet with the volume {vol} of the covered cells and z within half a cell of {c}; "
                    f"returned {[(float(d.position[2]), d.volume) for d in em]}")
    return None


# ---- input dimension 8: state kept between calls (machinery in locate_common.py) ----------------------------------
def _cart_spec(grid, drops, valid, per=None, shift=None):
    b = [list(map(float, x)) for x in grid.axes_bounds]
    if shift is not None:
        b = [[lo + t, hi + t] for (lo, hi), t in zip(b, shift)]
    return {"family": "cartesian", "bounds": b, "shape": [int(n) for n in grid.shape],
            "periodic": [bool(p) for p in (grid.periodic if per is None else per)],
            "droplets": [[[float(x) for x in c], float(r)] for c, r in drops], "valid": bool(valid)}


def _cyl_spec(bounds, shape, per, drops, valid):
    return {"family": "cylindrical", "bounds": [list(map(float, x)) for x in bounds], "shape": [int(n) for n in shape],
            "periodic": [False, bool(per)], "droplets": [[[0.0, 0.0, float(c)], float(R)] for c, R in drops], "valid": bool(valid)}


def _rad_spec(cls, rlo, dr, n, R):
    dim = 2 if cls == "PolarSymGrid" else 3
    return {"family": cls, "bounds": [[float(rlo), float(rlo + n * dr)]], "shape": [int(n)], "periodic": [False],
            "droplets": [[[0.0] * dim, float(R)]], "valid": bool(rlo + dr / 2 < R <= rlo + n * dr)}


def seq_groups(ctx, rng):
    """collision groups of emulsions rendered on reused grids: the two leading members share shape, number of cells, number of
    droplets, radii and total droplet volume, but differ in the centres or in the grid"""
    groups = []
    n_fam = ctx.scale(8, 16)
    # ---- Cartesian
    kinds = ["same grid, mirrored centres", "same emulsion in unwrapped coordinates", "periodicity mask differs",
             "grid and emulsion translated together"]
    shapes, tries = set(), 0
    while len(groups) < n_fam and tries < 4000:
        tries += 1
        grid, drops, _info = gen_cart(rng, True)
        if not drops or tuple(grid.shape) in shapes or any(covered_cells(grid, c, r).sum() == 0 for c, r in drops):
            continue
        shapes.add(tuple(grid.shape))
        kind = kinds[len(groups) % 4]
        per = [bool(p) for p in grid.periodic]
        lo = [b[0] for b in grid.axes_bounds]
        hi = [b[1] for b in grid.axes_bounds]
        hs = [float(h) for h in grid.discretization]
        mirror = lambda axes: [([lo[a] + hi[a] - x if a in axes else x for a, x in enumerate(c)], r) for c, r in drops]
        if kind == "same emulsion in unwrapped coordinates" and not any(per):
            kind = kinds[0]
        if kind == kinds[0]:
            m1 = _cart_spec(grid, mirror(range(grid.dim)), True)
        elif kind == kinds[1]:
            m1 = _cart_spec(grid, [([x + (rng.choice([-2, -1, 1, 3]) * (hi[a] - lo[a]) if per[a] else 0.0) for a, x in enumerate(c)], r)
                                   for c, r in drops], True)
        elif kind == kinds[2]:
            per1 = list(per)
            a = rng.randrange(grid.dim)
            per1[a] = not per1[a]
            m1 = _cart_spec(grid, drops, False, per=per1)
        else:
            t = [rng.choice([-5.25, 0.375, 2.5, 11.0]) for _ in range(grid.dim)]
            m1 = _cart_spec(grid, [([x + t[a] for a, x in enumerate(c)], r) for c, r in drops], True, shift=t)
        pa = [a for a in range(grid.dim) if per[a]]
        extra1 = _cart_spec(grid, mirror([0]), True)
        extra2 = _cart_spec(grid, [([x + (rng.randrange(1, 4) * hs[a] if a in pa else 0.0) for a, x in enumerate(c)], r) for c, r in drops], True) \
            if pa else _cart_spec(grid, mirror([grid.dim - 1]), True)
        more = []
        if not any(g["family"] == "cartesian" for g in groups):   # one long series on a reused grid per family
            for k in range(1, 6):
                more.append(_cart_spec(grid, [([x + (k * hs[a] if a in pa else 0.0) for a, x in enumerate(c)], r) for c, r in drops], True))
                more.append(_cart_spec(grid, [([x + (k * hs[a] if a in pa else 0.0) for a, x in enumerate(c)], r) for c, r in mirror([0])], True))
        groups.append({"kind": kind, "family": "cartesian", "members": [_cart_spec(grid, drops, True), m1, extra1, extra2] + more})
    # ---- cylindrical (mostly dz != 1: a factor applied once more per call must show)
    kinds = ["same grid, mirrored along z", "periodic_z differs", "grid and emulsion translated together along z", "dr and dz swapped"]
    shapes, tries, n0 = set(), 0, len(groups)
    while len(groups) - n0 < n_fam and tries < 4000:
        tries += 1
        grid, drops, _info = gen_cyl(rng)
        (_, R_out), (zlo, zhi) = grid.axes_bounds
        nr, nz = grid.shape
        dr, dz = R_out / nr, (zhi - zlo) / nz
        if not drops or (nr, nz) in shapes or (dz == 1 and rng.random() < 0.8):
            continue
        rr = (np.arange(nr) + 0.5) * dr
        zz = zlo + (np.arange(nz) + 0.5) * dz
        if any(not np.any((rr[:, None] ** 2 + (zz[None, :] - c) ** 2) < R * R) for c, R in drops):
            continue
        shapes.add((nr, nz))
        kind = kinds[(len(groups) - n0) % 4]
        per = bool(grid.periodic[1])
        b = [(0.0, R_out), (zlo, zhi)]
        mirrored = [(zlo + zhi - c, R) for c, R in drops]
        if kind == kinds[0]:
            m1 = _cyl_spec(b, (nr, nz), per, mirrored, True)
        elif kind == kinds[1]:
            m1 = _cyl_spec(b, (nr, nz), not per, drops, per)   # periodic -> non-periodic keeps the separation
        elif kind == kinds[2]:
            t = rng.choice([-7.5, 0.375, 3.25])
            m1 = _cyl_spec([(0.0, R_out), (zlo + t, zhi + t)], (nr, nz), per, [(c + t, R) for c, R in drops], True)
        else:
            m1 = _cyl_spec([(0.0, nr * dz), (zlo, zlo + nz * dr)], (nr, nz), per, drops, False)
        ks = [k for k in range(-nz, nz + 1) if k != 0 and all(zlo + R <= c + k * dz <= zhi - R for c, R in drops)]
        shifted = mirrored   # whole-cell shift along z where the z-range allows one
        if ks:
            k = rng.choice(ks)
            shifted = [(c + k * dz, R) for c, R in drops]
        more = []
        if len(groups) == n0:   # one long series on a reused grid per family
            more = [_cyl_spec(b, (nr, nz), per, [(c + k * dz, R) for c, R in drops], True) for k in ks[:10]]
        groups.append({"kind": kind, "family": "cylindrical",
                       "members": [_cyl_spec(b, (nr, nz), per, drops, True), m1, _cyl_spec(b, (nr, nz), per, mirrored, True),
                                   _cyl_spec(b, (nr, nz), per, shifted, True)] + more})
    # ---- polar / spherical
    kinds = ["same grid, other radius", "PolarSymGrid vs SphericalSymGrid", "inner radius differs", "dr differs"]
    sizes, tries, n0 = set(), 0, len(groups)
    while len(groups) - n0 < n_fam and tries < 4000:
        tries += 1
        grid, R, _how = gen_radial(rng)
        n = int(grid.shape[0])
        if n in sizes:
            continue
        sizes.add(n)
        cls = type(grid).__name__
        rlo, rhi = map(float, grid.axes_bounds[0])
        dr = (rhi - rlo) / n
        kind = kinds[(len(groups) - n0) % 4]
        other_R = lambda: dy(rng, rlo + dr / 2 + 1 / 16, rhi, 4)
        if kind == kinds[0]:
            m1 = _rad_spec(cls, rlo, dr, n, other_R())
        elif kind == kinds[1]:
            m1 = _rad_spec("SphericalSymGrid" if cls == "PolarSymGrid" else "PolarSymGrid", rlo, dr, n, R)
        elif kind == kinds[2]:
            m1 = _rad_spec(cls, rlo + rng.choice([0.25, 1.0, 2.5]), dr, n, R)
        else:
            m1 = _rad_spec(cls, rlo, dr * rng.choice([0.5, 2.0]), n, R)
        groups.append({"kind": kind, "family": "radial",
                       "members": [_rad_spec(cls, rlo, dr, n, R), m1] + [_rad_spec(cls, rlo, dr, n, other_R())
                                                                             for _ in range(12 if len(groups) == n0 else 2)]})
    return groups


def seq_property_oracle(spec, grid, field, ems):
    """the property oracle (state-free reference) on the results of a step of a sequence, for inputs known to satisfy the preconditions"""
    if not spec.get("valid"):
        return None
    mask = field.data > 0.5
    for name, em in ems.items():
        if em is None:
            continue
        if spec["family"] == "cartesian":
            f = oracle_cart(grid, [(c, r) for c, r in spec["droplets"]], em)
        elif spec["family"] == "cylindrical":
            f = oracle_cyl(grid, [(c[2], r) for c, r in spec["droplets"]], mask, em)
        else:
            f = oracle_radial(grid, spec["droplets"][0][1], mask, em, judge_volume=(grid.axes_bounds[0][0] == 0))
        if f:
            return f"{name}: {f}"
    return None


def check(ctx: vlib.Ctx) -> int:
    rng = random.Random(ctx.seed)
    MINR_LITS.clear()
    MINR_META.clear()
    import time
    t_stage = [ctx.t0]
    stages = ctx.extra.setdefault("stage_wall_s", {})

    def stage(name):
        t_stage.append(time.time())
        stages[name] = round(t_stage[-1] - t_stage[-2], 2)
    seq_rng = random.Random(ctx.seed * 7919 + 1)   # own stream (derived from ctx.seed): the other streams stay as they were
    groups = seq_groups(ctx, seq_rng)
    seq_procs = lc.seq_start_references(groups)    # two fresh interpreters, running while the other streams are checked
    stage("sequence groups generated, reference interpreters started")
    ok = vlib.prove(ctx, ["Proofs/C01.vo", "Proofs/LabelClients.vo", "Proofs/C01Cyl.vo", "Proofs/C01CylPer.vo", "Proofs/C01Multi.vo", "Proofs/C01CylMulti.vo", "Proofs/BallCount.vo",
                          "Model/LocateCases.vo"], gens=[])
    # R-layer part (separation => located spheres do not overlap), over the generated radius_from_volume
    ok = vlib.prove(ctx, ["Proofs/C01Sep.vo"], prop_file="Properties/C01R.v", gens=["Gen_spherical"]) and ok
    ctx.tie.append("hand-written models (Render, RenderSym, Locate, LocateSym, Overlap) + in-Coq correspondence of image, candidates and result")
    fails = []
    header = ("From Coq Require Import QArith ZArith List.\nImport ListNotations.\n"
              "From PD Require Import Model.Grid Model.Render Model.RenderSym Model.Locate Model.LocateSym Model.LocateCases.\n"
              "Local Open Scope Q_scope.\n")
    # ---- Cartesian
    lits, meta = [], []
    specs = []
    for _ in range(ctx.scale(1500, 8000)):
        specs.append(gen_cart(rng, True) + ("property",))
    for _ in range(ctx.scale(150, 1500)):
        specs.append(gen_cart(rng, False) + ("preconditions violated",))
    if not ctx.quick:
        from pde import CartesianGrid
        g56 = CartesianGrid([(0, 5), (0, 6)], [5, 6], periodic=True)
        for ix, iy, r in itertools.product(range(20), range(24), [0.75, 1.25, 1.75]):
            specs.append((g56, [([ix / 4, iy / 4], r)], {}, "property"))
    for case_no, (grid, drops, info, stream) in enumerate(specs):
        # no admissible droplet on this grid: the empty emulsion (image without any droplet) must give an empty result
        inp = {"family": "cartesian", "shape": list(grid.shape), "bounds": [list(map(float, b)) for b in grid.axes_bounds],
               "periodic": list(map(bool, grid.periodic)), "droplets": [[list(c), r] for c, r in drops], "stream": stream}
        ctx.count("stream", stream)
        ctx.count("dim", grid.dim)
        ctx.count("droplets", len(drops))
        ctx.count("periodic_axes", int(sum(grid.periodic)))
        crossing = count_cart(ctx, grid, drops, info)
        ctx.count("crosses_boundary", crossing)
        ctx.case(inp, nontrivial=crossing or len(drops) >= 2)
        try:
            field, mask, labels, em, rec = run_cart(grid, drops)
        except Exception as e:  # noqa
            fails.append({"what": f"rendering + locate_droplets raised {type(e).__name__}: {e}", "input": inp})
            continue
        if stream == "property":
            if any(covered_cells(grid, c, r).sum() == 0 for c, r in drops):
                ctx.count("skipped", "droplet covers no cell centre (not resolvable)")
            else:
                f = oracle_cart(grid, drops, em)
                if f:
                    fails.append({"what": f, "input": inp})
        # second call: other image dtype and a minimal_radius boundary value (both cycled deterministically)
        dt = lc.FIELD_DTYPES[case_no % len(lc.FIELD_DTYPES)]
        mrk = MIN_RADIUS_KINDS[(case_no // len(lc.FIELD_DTYPES)) % len(MIN_RADIUS_KINDS)]
        ctx.count("image_dtype_second_call", dt)
        ctx.count("minimal_radius_second_call", mrk)
        if not isinstance(lc.emulsion_key(em), str):
            f = second_call_failure(field, em, dt, mrk)
            if f:
                fails.append({"what": f, "input": {**inp, "dtype": dt, "minimal_radius": mrk}})
        if rec is not None:
            lc.count_removals(ctx, rec["M"], [c[2] for c in rec["cands"]], rec["out"])
            lit = lc.safe_lit(lambda: cart_lit(grid, drops, labels, rec), fails, inp)
            if lit is not None:
                lits.append(lit)
                meta.append(inp)
    ctx.sample(meta[1] if len(meta) > 1 else {})
    if ok:
        bad = vlib.run_cases(ctx, "cart", header, lits, "c01_cart_agree", shard=120)
        for b in bad[:3]:
            ctx.broken.append(f"correspondence render+locate (Cartesian): model and implementation differ on {meta[b]}")
    stage("proofs + Cartesian stream incl. in-Coq correspondence")
    # ---- radial
    lits, meta = [], []
    sus_seen, sus_volume_off, sus_example = 0, 0, None
    for case_no in range(ctx.scale(180, 1800)):
        grid, R, how = gen_radial(rng)
        rlo, rhi = grid.axes_bounds[0]
        inp = {"family": type(grid).__name__, "n": int(grid.shape[0]), "bounds": list(map(float, grid.axes_bounds[0])), "radius": R}
        ctx.case(inp)
        ctx.count("radial_family", type(grid).__name__)
        ctx.count("radial_inner_radius", "0" if rlo == 0 else "> 0 (volume clause not judged: SUSPECTED S-C01-1)")
        ctx.count("radial_cells", int(grid.shape[0]) if grid.shape[0] < 3 else ">=3")
        ctx.count("radial_R", how)
        try:
            field, mask, em = run_radial(grid, R)
        except Exception as e:  # noqa
            fails.append({"what": f"rendering + locate_droplets raised {type(e).__name__}: {e}", "input": inp})
            continue
        f = oracle_radial(grid, R, mask, em, judge_volume=(rlo == 0))
        if f:
            fails.append({"what": f, "input": inp})
        elif rlo != 0:
            sus_seen += 1
            fv = oracle_radial(grid, R, mask, em, judge_volume=True)
            if fv:
                sus_volume_off += 1
                sus_example = sus_example or f"{type(grid).__name__}(({rlo}, {rhi}), {grid.shape[0]}), R={R}: {fv}"
        dt = lc.FIELD_DTYPES[case_no % len(lc.FIELD_DTYPES)]
        mrk = MIN_RADIUS_KINDS[(case_no // len(lc.FIELD_DTYPES)) % len(MIN_RADIUS_KINDS)]
        ctx.count("radial_image_dtype_second_call", dt)
        ctx.count("radial_minimal_radius_second_call", mrk)
        if not isinstance(lc.emulsion_key(em), str):
            f = second_call_failure(field, em, dt, mrk)
            if f:
                fails.append({"what": f, "input": {**inp, "dtype": dt, "minimal_radius": mrk}})
        lit = lc.safe_lit(lambda: "(%s, {| rd_lo := %s; rd_dr := %s; rd_mask := %s; rd_out := %s |})"
                          % (vlib.qlit(R), vlib.qlit(rlo), vlib.qlit((rhi - rlo) / grid.shape[0]), vlib.listlit(mask.tolist(), vlib.blit),
                             f"(Some {vlib.qlit(em[0].radius)})" if len(em) else "None"), fails, inp)
        if lit is not None:
            lits.append(lit)
            meta.append(inp)
    for sus in SUSPECTED:
        ctx.notes.append(f"SUSPECTED {sus['id']} (executed, NOT judged, waiting for a decision): {sus['what']}. This run: {sus_seen} inputs with inner "
                         f"radius > 0 passed the count / centre / radius clauses and the in-Coq correspondence, {sus_volume_off} of them violate the "
                         f"volume clause as written{'; e.g. ' + sus_example if sus_example else ''}")
    if ok:
        bad = vlib.run_cases(ctx, "radial", header, lits, "c01_rad_agree", shard=400)
        for b in bad[:3]:
            ctx.broken.append(f"correspondence render+locate (radial): model and implementation differ on {meta[b]}")
    # ---- cylindrical
    lits, meta = [], []
    for case_no in range(ctx.scale(240, 2400)):
        grid, drops, info = gen_cyl(rng)
        if not drops:
            ctx.count("cyl_form_without_admissible_droplet", info["form"])
            continue
        inp = {"family": "cylindrical", "shape": list(grid.shape), "bounds": [list(map(float, b)) for b in grid.axes_bounds],
               "periodic_z": bool(grid.periodic[1]), "droplets": [[c, R] for c, R in drops]}
        ctx.case(inp, nontrivial=len(drops) >= 2)
        ctx.count("cyl_periodic", bool(grid.periodic[1]))
        ctx.count("cyl_form", info["form"])
        ctx.count("cyl_droplets", len(drops))
        ctx.count("cyl_z_origin_kind", info["z_origin_kind"])
        ctx.count("cyl_droplet_tangent_to_z_face", info["touches_z_face"])
        ctx.count("cyl_dr_vs_dz", lc.order_of([float(h) for h in grid.discretization]))
        ctx.count("cyl_min_cells_per_axis", min(grid.shape) if min(grid.shape) < 4 else ">=4")
        dz = float(grid.discretization[1])
        ctx.count("cyl_droplet_longer_in_z_cells_than_nr", any(2 * R / dz > grid.shape[0] for _, R in drops))
        try:
            mask, em, exc, lab_pad, lab, cands, out, M = run_cyl(grid, drops)
        except Exception as e:  # noqa
            mask, exc = None, f"{type(e).__name__}: {e}"
        if exc:
            fails.append({"what": f"raised {exc}", "input": inp})
            continue
        ctx.count("cyl_first_z_cell_on_axis_covered", bool(mask[0, 0]))
        (_, R_out), (zlo, zhi) = grid.axes_bounds
        rr = (np.arange(grid.shape[0]) + 0.5) * R_out / grid.shape[0]
        zz = zlo + (np.arange(grid.shape[1]) + 0.5) * (zhi - zlo) / grid.shape[1]
        if any(not np.any((rr[:, None] ** 2 + (zz[None, :] - c) ** 2) < R * R) for c, R in drops):
            ctx.count("skipped", "droplet covers no cell centre (not resolvable)")
        else:
            f = oracle_cyl(grid, drops, mask, em)
            if f:
                fails.append({"what": f, "input": inp})
        dt = lc.FIELD_DTYPES[case_no % len(lc.FIELD_DTYPES)]
        mrk = MIN_RADIUS_KINDS[(case_no // len(lc.FIELD_DTYPES)) % len(MIN_RADIUS_KINDS)]
        ctx.count("cyl_image_dtype_second_call", dt)
        ctx.count("cyl_minimal_radius_second_call", mrk)
        if not isinstance(lc.emulsion_key(em), str):
            from pde import ScalarField
            f = second_call_failure(ScalarField(grid, mask.astype(float)), em, dt, mrk)
            if f:
                fails.append({"what": f, "input": {**inp, "dtype": dt, "minimal_radius": mrk}})
        ds = vlib.listlit([f"({vlib.qlit(c)}, {vlib.qlit(R)})" for c, R in drops])
        lit = lc.safe_lit(lambda: f"({ds}, {c02.cyl_case_lit(grid, lab_pad, lab, cands, out, M)})", fails, inp)
        if lit is not None:
            lits.append(lit)
            meta.append(inp)
    ctx.sample(meta[0] if meta else {})
    if ok:
        bad = vlib.run_cases(ctx, "cyl", header, lits, "c01_cyl_agree", shard=150)
        for b in bad[:3]:
            ctx.broken.append(f"correspondence render+locate (cylindrical): model and implementation differ on {meta[b]}")
    seq_fails = lc.sequence_oracle(ctx, seq_rng, groups, seq_procs, seq_property_oracle)
    stage("radial + cylindrical streams incl. in-Coq correspondence")
    ctx.count("sequence_failures", len(seq_fails))
    stage("sequence stream (collect references, schedules on reused objects)")
    fails = seq_fails[:2] + fails + seq_fails[2:]
    if ok and MINR_LITS:
        hdr = "From Coq Require Import QArith ZArith List.\nImport ListNotations.\nFrom PD Require Import Model.Overlap Model.OverlapCases.\nLocal Open Scope Q_scope.\n"
        bad = vlib.run_cases(ctx, "minr", hdr, MINR_LITS, "rs_agree", shard=700)
        for b in bad[:3]:
            ctx.broken.append(f"correspondence minimal_radius filter: model (remove_small) and implementation differ on {MINR_META[b]}")
    ctx.count("minimal_radius_filter_cases_in_coq", len(MINR_LITS))
    ctx.notes.append("sequence stream (input dimension 8): both locators on reused objects; reference = the same input with fresh objects, evaluated "
                     "first in one of two fresh interpreters (the other one evaluates it after the input sharing its aggregates; a difference between "
                     "the two is a failure as well) + the property oracle for the members known to satisfy the preconditions; Python only (no "
                     "translator covers the locators: the models are hand-written, so there is no generated code that could fail closed on module state)")
    ctx.notes.append("second calls (image handed over as float32 / int64 / uint8 / bool data, minimal_radius boundary values) are compared bitwise with "
                     "the reference call resp. with its droplets of radius > minimal_radius (documented filter of Emulsion.remove_small) in Python; "
                     "the filter for finite minimal_radius is also compared with Model/Overlap.v remove_small inside Coq (stream minr); "
                     "the reference call is the one that enters the in-Coq correspondence of image, candidates and result. All new grid kinds (1- and 2-cell axes, every origin kind, "
                     "narrow / flat / tiny / long cylinders, radial grids with inner radius > 0 and a single cell) go through the in-Coq correspondence.")
    for f in fails[:3]:
        ctx.violations.append({**f, "found": True, "broken": ctx.broken[:3]})
    return vlib.finish(ctx, "", TRUSTED, ASSUME, RULE)


def replay(path: str) -> int:
    obj = json.load(open(path))
    print(json.dumps(obj, indent=1)[:1500])
    inp = obj.get("input", {})
    if inp.get("sequence"):
        f = lc.replay_sequence(inp, seq_property_oracle)
        print("sequence oracle on the current tree:", f or "holds")
        return 1 if f else 0
    fam = inp.get("family")
    f = None
    if fam == "cartesian":
        from pde import CartesianGrid
        grid = CartesianGrid([tuple(b) for b in inp["bounds"]], inp["shape"], periodic=inp["periodic"])
        drops = [(c, r) for c, r in inp["droplets"]]
        field, mask, labels, em, rec = run_cart(grid, drops)
        f = oracle_cart(grid, drops, em) if inp.get("stream", "property") == "property" else None
        if f is None and "dtype" in inp:
            f = second_call_failure(field, em, inp["dtype"], inp["minimal_radius"])
    elif fam == "cylindrical":
        from pde import CylindricalSymGrid
        grid = CylindricalSymGrid(inp["bounds"][0][1], tuple(inp["bounds"][1]), inp["shape"], periodic_z=inp["periodic_z"])
        drops = [(c, R) for c, R in inp["droplets"]]
        mask, em, exc, *_ = run_cyl(grid, drops)
        f = f"raised {exc}" if exc else oracle_cyl(grid, drops, mask, em)
        if f is None and "dtype" in inp:
            from pde import ScalarField
            f = second_call_failure(ScalarField(grid, mask.astype(float)), em, inp["dtype"], inp["minimal_radius"])
    elif fam in ("PolarSymGrid", "SphericalSymGrid"):
        import pde
        grid = getattr(pde, fam)(tuple(inp["bounds"]), inp["n"])
        field, mask, em = run_radial(grid, inp["radius"])
        f = oracle_radial(grid, inp["radius"], mask, em, judge_volume=(inp["bounds"][0] == 0))
        if f is None and "dtype" in inp:
            f = second_call_failure(field, em, inp["dtype"], inp["minimal_radius"])
    print("property oracle on the current tree:", f or "holds")
    return 1 if f else 0
