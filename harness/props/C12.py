"""C12 -- sphere volume, surface and radius conversions are mutually consistent."""
from __future__ import annotations

import json
import math
import random

import numpy as np

import vlib

TRUSTED = [
    "Coq 8.16.1 kernel + vm_compute (no native_compute)",
    "harness/translate.py + harness/gen.py (Python-ast translator, validated by interval sample goals on every run; when it "
    "does not carry the current source the committed golden text coq_golden/Gen_*.v is the model and the same sample "
    "goals are the tie, see coverage.tie)",
    "Interval tactic (sample goals only)",
    "real-number model: floating-point evaluation differs by rounding (bounded per sample goal)",
    "numba compiles the same arithmetic as the Python source of the compiled variants (compared numerically per sample)",
]
ASSUME = [
    "theorems are over Coq's R; the implementation computes in binary64",
    "spherical_index_lm / count_optimal use a float sqrt: the Z.sqrt model agrees for k < 2^52",
    "array (numpy) evaluation is elementwise application of the scalar formula (checked per sample)",
]
RULE = ("translator sample goals: each generated real function evaluated by the implementation on magnitudes "
        "2^-50..2^50 (mantissas from VERIF_SEED) and compared inside Coq by interval arithmetic; index functions "
        "compared by vm_compute on all k below the bound; variants (scalar/array/compiled/nd) compared numerically; "
        "distinct = distinct (function, input) pairs, all non-trivial (non-zero argument)")


def _impl_table():
    from droplets.tools import spherical as sp
    from droplets.droplets import SphericalDroplet
    tbl = {}
    for d in (1, 2, 3):
        tbl[f"rfv_scalar_{d}"] = (lambda x, d=d: float(sp.radius_from_volume(x, d)))
        tbl[f"vfr_scalar_{d}"] = (lambda x, d=d: float(sp.volume_from_radius(x, d)))
        tbl[f"sfr_scalar_{d}"] = (lambda x, d=d: float(sp.surface_from_radius(x, d)))
        if d > 1:
            tbl[f"rfs_scalar_{d}"] = (lambda x, d=d: float(sp.radius_from_surface(x, d)))
        f1 = sp.make_radius_from_volume_compiled(d)
        f2 = sp.make_volume_from_radius_compiled(d)
        f3 = sp.make_surface_from_radius_compiled(d)
        tbl[f"rfv_compiled_{d}"] = (lambda x, f=f1: float(f(x)))
        tbl[f"vfr_compiled_{d}"] = (lambda x, f=f2: float(f(x)))
        tbl[f"sfr_compiled_{d}"] = (lambda x, f=f3: float(f(x)))
        g1 = sp.make_radius_from_volume_nd_compiled()
        g2 = sp.make_volume_from_radius_nd_compiled()
        tbl[f"rfv_nd_{d}"] = (lambda x, g=g1, d=d: float(g(x, d)))
        tbl[f"vfr_nd_{d}"] = (lambda x, g=g2, d=d: float(g(x, d)))

        def vol(x, d=d):
            return float(SphericalDroplet(np.zeros(d), x).volume)

        def setvol(x, d=d):
            dr = SphericalDroplet(np.zeros(d), 1.0)
            dr.volume = x
            return float(dr.radius)

        def surf(x, d=d):
            return float(SphericalDroplet(np.zeros(d), x).surface_area)

        def fromvol(x, d=d):
            return float(SphericalDroplet.from_volume(np.zeros(d), x).radius)

        tbl[f"drop_volume_{d}"] = vol
        tbl[f"drop_set_volume_{d}"] = setvol
        tbl[f"drop_surface_{d}"] = surf
        tbl[f"drop_from_volume_{d}"] = fromvol
    tbl["drop_curvature"] = lambda x: float(SphericalDroplet(np.zeros(2), x).interface_curvature)

    # bounding box (elementwise in the position): lower corner of component 0, upper corner of component 1
    def bbox_lo(x):
        return float(SphericalDroplet(np.array(BBOX_POS), x).bbox.pos[0])

    def bbox_hi(x):
        bb = SphericalDroplet(np.array(BBOX_POS), x).bbox
        return float(bb.pos[1] + bb.size[1])

    tbl["drop_bbox_lo"] = bbox_lo
    tbl["drop_bbox_hi"] = bbox_hi
    return tbl


BBOX_POS = (0.75, -3.25)
# Coq term of a sample: `<definition> <argument>` unless listed here
SAMPLE_EXPR = {
    "drop_bbox_lo": lambda x: f"drop_bbox_lo {vlib.rlit(BBOX_POS[0])} {vlib.rlit(x)}",
    "drop_bbox_hi": lambda x: f"drop_bbox_hi {vlib.rlit(BBOX_POS[1])} {vlib.rlit(x)}",
}


def _uncovered_definitions(tbl) -> list[str]:
    """Definitions of the real-valued Gen files in the build directory (fresh or golden) that no sample goal
    evaluates: the sample goals are the tie of every one of them, so this list has to be empty."""
    import re
    names = []
    for g in ("Gen_spherical", "Gen_droplet_basic"):
        names += re.findall(r"^Definition\s+([\w']+)", (vlib.COQ_BUILD / "Gen" / f"{g}.v").read_text(), flags=re.M)
    return [n for n in names if n not in tbl]


def _inputs(rng: random.Random, n: int):
    xs = []
    for i in range(n):
        e = -50 + (100 * i) // max(1, n - 1)
        m = 1 + rng.randrange(0, 64) / 64.0
        xs.append(math.ldexp(m, e))
    return xs


def oracle(rng: random.Random, n: int):
    """Executable form of the property text over the implementation; returns failing inputs."""
    from droplets.tools import spherical as sp
    from droplets.droplets import SphericalDroplet
    fails = []

    def close(a, b, rel=1e-11):
        if not (math.isfinite(a) and math.isfinite(b)):
            return False  # every quantity of this property is finite for finite positive arguments
        return abs(a - b) <= rel * max(abs(a), abs(b), 1e-300)

    for d in (1, 2, 3):
        r2v_c = sp.make_volume_from_radius_compiled(d)
        v2r_c = sp.make_radius_from_volume_compiled(d)
        r2s_c = sp.make_surface_from_radius_compiled(d)
        v2r_nd = sp.make_radius_from_volume_nd_compiled()
        r2v_nd = sp.make_volume_from_radius_nd_compiled()
        for x in _inputs(rng, n):
            v = sp.volume_from_radius(x, d)
            if not close(sp.radius_from_volume(v, d), x):
                fails.append({"what": "radius->volume->radius", "dim": d, "radius": x})
            if not close(sp.volume_from_radius(sp.radius_from_volume(x, d), d), x):
                fails.append({"what": "volume->radius->volume", "dim": d, "volume": x})
            if d > 1:
                if not close(sp.radius_from_surface(sp.surface_from_radius(x, d), d), x):
                    fails.append({"what": "radius->surface->radius", "dim": d, "radius": x})
            # surface = dV/dr (closed forms: V is a polynomial of degree d, central difference
            # with step r/8 has truncation error (1/64)/1 * r^2 term only for d = 3: use Richardson)
            h1, h2 = x / 8, x / 16
            D1 = (sp.volume_from_radius(x + h1, d) - sp.volume_from_radius(x - h1, d)) / (2 * h1)
            D2 = (sp.volume_from_radius(x + h2, d) - sp.volume_from_radius(x - h2, d)) / (2 * h2)
            deriv = (4 * D2 - D1) / 3
            if not close(float(sp.surface_from_radius(x, d)), deriv, 1e-9):
                fails.append({"what": "surface != dV/dr", "dim": d, "radius": x})
            arr = np.array([x, 2 * x])
            vals = {
                "vfr": [float(sp.volume_from_radius(x, d)), float(sp.volume_from_radius(arr, d)[0]), float(r2v_c(x)),
                        float(r2v_c(arr)[0]), float(r2v_nd(x, d))],
                "rfv": [float(sp.radius_from_volume(x, d)), float(sp.radius_from_volume(arr, d)[0]), float(v2r_c(x)),
                        float(v2r_c(arr)[0]), float(v2r_nd(x, d))],
                "sfr": [float(sp.surface_from_radius(x, d)), float(np.asarray(sp.surface_from_radius(arr, d))[0]),
                        float(r2s_c(x)), float(np.asarray(r2s_c(arr))[0])],
            }
            for k, vs in vals.items():
                if not all(close(vs[0], w, 1e-14) for w in vs):
                    fails.append({"what": f"variants of {k} differ", "dim": d, "arg": x, "values": vs})
            dr = SphericalDroplet(np.arange(d) + 0.5, 1.0)
            dr.volume = x
            if not close(dr.volume, x):
                fails.append({"what": "droplet volume set/get", "dim": d, "volume": x})
            dr = SphericalDroplet(np.arange(d) + 0.5, x)
            if not close(dr.volume, sp.volume_from_radius(x, d)) or not close(dr.surface_area, float(sp.surface_from_radius(x, d))):
                fails.append({"what": "droplet volume/surface formula", "dim": d, "radius": x})
            bb = dr.bbox
            if not (np.allclose(bb.pos, dr.position - x, rtol=1e-13) and np.allclose(bb.size, 2 * x, rtol=1e-13)):
                fails.append({"what": "bbox formula", "dim": d, "radius": x})
            if not close(dr.interface_curvature, 1 / x):
                fails.append({"what": "curvature formula", "dim": d, "radius": x})
    for l in range(0, 40):
        for m in range(-l, l + 1):
            k = sp.spherical_index_k(l, m)
            if tuple(int(t) for t in sp.spherical_index_lm(k)) != (l, m):
                fails.append({"what": "index_lm(index_k(l,m)) != (l,m)", "l": l, "m": m})
    for k in range(0, 3000):
        l, m = sp.spherical_index_lm(k)
        if sp.spherical_index_k(int(l), int(m)) != k:
            fails.append({"what": "index_k(index_lm(k)) != k", "k": k})
        if bool(sp.spherical_index_count_optimal(k)) != (math.isqrt(k) ** 2 == k):
            fails.append({"what": "count_optimal != is_square", "k": k})
    return fails


GENS = ["Gen_spherical", "Gen_spherical_index", "Gen_droplet_basic"]


def check(ctx: vlib.Ctx) -> int:
    rng = random.Random(ctx.seed)
    # theorems over the text regenerated from the current source; over the golden text when the translator does not
    # carry the current source or the fresh text no longer fits the proof scripts (DESIGN.md 2.2, Fallback)
    ok, fresh = vlib.prove_with_fallback(ctx, ["Proofs/C12.vo", "Model/Samples.vo"], gens=GENS)
    which = "regenerated" if fresh else "golden"
    ctx.tie.append(f"interval sample goals + index cases evaluated inside Coq: the {which} Gen_spherical / "
                   "Gen_spherical_index / Gen_droplet_basic definitions against the values computed by the implementation")
    tbl = _impl_table()
    nin = ctx.scale(3, 16)
    model_diff = []  # inputs on which the (golden or regenerated) model and the implementation disagree
    # --- validation of the model by interval sample goals.  The goals name the Coq definitions (`rfv_scalar_3 x`),
    # so they evaluate whatever text build/coq/Gen holds (fresh or golden) and need nothing from the translator's
    # Python side; the right-hand sides are the implementation's values.
    if ok:
        missing = _uncovered_definitions(tbl)
        if missing:
            ctx.broken.append(f"generated definitions without a sample goal: {missing}")
        goals = []
        for name, f in sorted(tbl.items()):
            for x in _inputs(rng, nin):
                ctx.case([name, x])
                ctx.count("function", name.rsplit("_", 1)[0])
                ctx.count("log2_magnitude_bucket", 10 * round(math.log2(x) / 10))
                try:
                    y = f(x)
                except Exception as e:  # noqa
                    y = f"raised {type(e).__name__}"
                if not isinstance(y, float) or not math.isfinite(y):
                    # non-finite values never enter a Coq literal: the model is finite on finite positive arguments
                    ctx.broken.append(f"sample {name}({x!r}): the implementation returns {y!r}, the model a finite value")
                    model_diff.append({"function": name, "arg": x, "implementation": repr(y)})
                    continue
                expr = SAMPLE_EXPR[name](x) if name in SAMPLE_EXPR else f"{name} {vlib.rlit(x)}"
                goals.append((f"{name}({x!r})", expr, y, 1e-13 * abs(y) + 1e-300, name, x))
        if goals:
            ctx.sample({"goal": f"Rabs ({goals[0][1]} - {vlib.rlit(goals[0][2])}) <= tol", "impl_value": goals[0][2],
                        "model_text": which})
        req = "From Coq Require Import Reals.\nFrom PD Require Import Model.Num Gen.Gen_spherical Gen.Gen_droplet_basic."
        # shard the goals so that they run in parallel
        from concurrent.futures import ThreadPoolExecutor
        shards = [goals[i::8] for i in range(8)]
        unfold = sorted(tbl.keys())
        with ThreadPoolExecutor(8) as ex:
            failed = list(ex.map(lambda a: vlib.sample_goals(ctx, f"c12_{a[0]}", req, [g[:4] for g in a[1]], unfold),
                                 enumerate(shards)))
        by_label = {g[0]: g for g in goals}
        for lst in failed:
            for (label, _expr, val) in lst:
                g = by_label[label]
                model_diff.append({"function": g[4], "arg": g[5], "implementation": val})
    # --- Z-valued index functions: model vs implementation inside Coq
    if ok:
        from droplets.tools import spherical as sp
        K = ctx.scale(1500, 20000)
        cases = []
        for k in range(K):
            l, m = sp.spherical_index_lm(k)
            cases.append(f"({vlib.zlit(k)}, ({vlib.zlit(int(l))}, {vlib.zlit(int(m))}), "
                         f"{vlib.blit(bool(sp.spherical_index_count_optimal(k)))}, {vlib.zlit(sp.spherical_index_count(k))})")
            ctx.case(["index", k], nontrivial=k > 0)
        ctx.sample({"index_case": cases[7]})
        header = ("From Coq Require Import ZArith List Bool.\nImport ListNotations.\n"
                  "From PD Require Import Model.NumZ Gen.Gen_spherical_index.\nLocal Open Scope Z_scope.\n"
                  "Definition agree (c : Z * (Z * Z) * bool * Z) : bool :=\n"
                  "  let '(k, (l, m), opt, cnt) := c in\n"
                  "  let '(l', m') := index_lm k in\n"
                  "  Z.eqb l l' && Z.eqb m m' && Bool.eqb opt (index_count_optimal k) && Z.eqb cnt (index_count k)\n"
                  "  && Z.eqb (index_k l m) k.\n")
        bad = vlib.run_cases(ctx, "index", header, cases, "agree", shard=2500)
        if bad:
            ctx.broken.append(f"index functions: model and implementation differ on k in {bad[:5]}")
            model_diff.append({"function": "spherical_index_lm/_k/_count/_count_optimal", "k": bad[0]})
        ctx.count("index_k_range", f"0..{K - 1}", K)
    # --- property oracle over the implementation: always run a small sweep (also the search when broken)
    fails = oracle(rng, ctx.scale(8, 40) if not ctx.broken else 60)
    for f in fails[:3]:
        ctx.violations.append({"what": f["what"], "input": f, "found": True, "broken": ctx.broken[:3]})
    if not fresh and not fails:
        # the theorems were checked over the golden model: an input on which the implementation leaves that model
        # is the failing input (the implementation is not the function the theorems are about)
        for m in model_diff[:3]:
            ctx.violations.append({"what": "implementation differs from the golden model of " + m["function"],
                                   "input": m, "found": True, "broken": ctx.broken[:3]})
    return vlib.finish(ctx, "", TRUSTED, ASSUME, RULE)


def replay(path: str) -> int:
    obj = json.load(open(path))
    print(json.dumps(obj, indent=1))
    fails = oracle(random.Random(0), 60)
    print("oracle failures on current tree:", len(fails))
    for f in fails[:5]:
        print("  ", f)
    return 1 if fails else 0
