"""C12 -- sphere volume, surface and radius conversions are mutually consistent."""
from __future__ import annotations

import json
import math
import random

import numpy as np

import vlib

TRUSTED = [
    "Coq 8.16.1 kernel + vm_compute (no native_compute)",
    "harness/translate.py + harness/gen.py (Python-ast translator, validated by interval sample goals on every run; when it "
    "does not carry the current source the committed golden text coq_golden/Gen_*.v is the model and the same sample "
    "goals are the tie, see coverage.tie)",
    "Interval tactic (sample goals only)",
    "real-number model: floating-point evaluation differs by rounding (bounded per sample goal)",
    "numba compiles the same arithmetic as the Python source of the compiled variants (compared numerically per sample)",
]
ASSUME = [
    "C12_radius_volume_inv ... C12_curvature_formula are over Coq's R; the C12_fp_* theorems bound the rounding error of "
    "the binary64 evaluation in the standard model (every operation exact up to relative error u = 2^-53, library pow up "
    "to 2u, no intermediate result outside the normal range): measured against the implementation on every run",
    "spherical_index_lm / count_optimal use a float sqrt: the Z.sqrt model agrees for k < 2^52",
    "array (numpy) evaluation is elementwise application of the scalar formula (checked per sample)",
]
RULE = ("translator sample goals: each generated real function evaluated by the implementation on magnitudes "
        "2^-50..2^50 (mantissas from VERIF_SEED) and compared inside Coq by interval arithmetic, and at the boundary "
        "argument 0 exactly (all variants and argument kinds; exclusions by name in definedness_obligations); every array "
        "variant on arguments of shape (), (1,), (5,), (2,3), (3,1,2), empty, strided / transposed / Fortran views, float32 and "
        "int64 (shape, entrywise agreement with the scalar variant, no aliasing); sequences of volume / radius assignments "
        "on one droplet (both classes, four argument kinds, four start radii) against from_volume and the generic conversions; index functions "
        "compared by vm_compute on all k below the bound; variants (scalar/array/compiled/nd) compared numerically; "
        "distinct = distinct (function, input) pairs, all non-trivial (non-zero argument)")


def _impl_table():
    from droplets.tools import spherical as sp
    from droplets.droplets import SphericalDroplet
    tbl = {}
    for d in (1, 2, 3):
        tbl[f"rfv_scalar_{d}"] = (lambda x, d=d: float(sp.radius_from_volume(x, d)))
        tbl[f"vfr_scalar_{d}"] = (lambda x, d=d: float(sp.volume_from_radius(x, d)))
        tbl[f"sfr_scalar_{d}"] = (lambda x, d=d: float(sp.surface_from_radius(x, d)))
        if d > 1:
            tbl[f"rfs_scalar_{d}"] = (lambda x, d=d: float(sp.radius_from_surface(x, d)))
        f1 = sp.make_radius_from_volume_compiled(d)
        f2 = sp.make_volume_from_radius_compiled(d)
        f3 = sp.make_surface_from_radius_compiled(d)
        tbl[f"rfv_compiled_{d}"] = (lambda x, f=f1: float(f(x)))
        tbl[f"vfr_compiled_{d}"] = (lambda x, f=f2: float(f(x)))
        tbl[f"sfr_compiled_{d}"] = (lambda x, f=f3: float(f(x)))
        g1 = sp.make_radius_from_volume_nd_compiled()
        g2 = sp.make_volume_from_radius_nd_compiled()
        tbl[f"rfv_nd_{d}"] = (lambda x, g=g1, d=d: float(g(x, d)))
        tbl[f"vfr_nd_{d}"] = (lambda x, g=g2, d=d: float(g(x, d)))

        def vol(x, d=d):
            return float(SphericalDroplet(np.zeros(d), x).volume)

        def setvol(x, d=d):
            dr = SphericalDroplet(np.zeros(d), 1.0)
            dr.volume = x
            return float(dr.radius)

        def surf(x, d=d):
            return float(SphericalDroplet(np.zeros(d), x).surface_area)

        def fromvol(x, d=d):
            return float(SphericalDroplet.from_volume(np.zeros(d), x).radius)

        tbl[f"drop_volume_{d}"] = vol
        tbl[f"drop_set_volume_{d}"] = setvol
        tbl[f"drop_surface_{d}"] = surf
        tbl[f"drop_from_volume_{d}"] = fromvol
    tbl["drop_curvature"] = lambda x: float(SphericalDroplet(np.zeros(2), x).interface_curvature)

    # bounding box (elementwise in the position): lower corner of component 0, upper corner of component 1
    def bbox_lo(x):
        return float(SphericalDroplet(np.array(BBOX_POS), x).bbox.pos[0])

    def bbox_hi(x):
        bb = SphericalDroplet(np.array(BBOX_POS), x).bbox
        return float(bb.pos[1] + bb.size[1])

    tbl["drop_bbox_lo"] = bbox_lo
    tbl["drop_bbox_hi"] = bbox_hi
    return tbl


BBOX_POS = (0.75, -3.25)
# Coq term of a sample: `<definition> <argument>` unless listed here
SAMPLE_EXPR = {
    "drop_bbox_lo": lambda x: f"drop_bbox_lo {vlib.rlit(BBOX_POS[0])} {vlib.rlit(x)}",
    "drop_bbox_hi": lambda x: f"drop_bbox_hi {vlib.rlit(BBOX_POS[1])} {vlib.rlit(x)}",
}


def _uncovered_definitions(tbl) -> list[str]:
    """Definitions of the real-valued Gen files in the build directory (fresh or golden) that no sample goal
    evaluates: the sample goals are the tie of every one of them, so this list has to be empty."""
    import re
    names = []
    for g in ("Gen_spherical", "Gen_droplet_basic"):
        names += re.findall(r"^Definition\s+([\w']+)", (vlib.COQ_BUILD / "Gen" / f"{g}.v").read_text(), flags=re.M)
    return [n for n in names if n not in tbl]


def _inputs(rng: random.Random, n: int):
    xs = []
    for i in range(n):
        e = -50 + (100 * i) // max(1, n - 1)
        m = 1 + rng.randrange(0, 64) / 64.0
        xs.append(math.ldexp(m, e))
    return xs


# Variants that are NOT defined at the boundary value 0, by name (everything else is evaluated there):
EXCLUDED_AT_ZERO = {
    "drop_curvature": "interface_curvature = 1 / radius: the curvature of a sphere is defined for radius > 0 only "
                      "(the implementation raises ZeroDivisionError at radius 0); domain 0 < radius in the obligations",
    "radius_from_surface(., dim=1)": "documented to raise RuntimeError for every argument (the surface of a 1-d sphere "
                                     "does not determine its radius); there is no rfs_*_1 definition",
}


def boundary_failures():
    """The property quantifies over radii / volumes / surfaces >= 0: every variant at the argument 0 exactly (Python
    float, numpy scalar, arrays that contain 0), droplets of radius 0.  The exact results are 0 (2 for the 1-d surface);
    a raising call, a non-finite or a different value is a failure of the property at that input."""
    import warnings
    from droplets.tools import spherical as sp
    from droplets.droplets import SphericalDroplet
    fails = []

    def probe(what, d, kind, thunk, expected):
        try:
            with warnings.catch_warnings():
                warnings.simplefilter("ignore")
                v = np.asarray(thunk(), dtype=float)
        except Exception as e:  # noqa
            fails.append({"what": f"{what} at the boundary argument 0", "dim": d, "argument": kind, "arg": 0.0,
                          "result": f"raised {type(e).__name__}: {e}"[:200]})
            return
        exp = np.asarray(expected, dtype=float)
        # the entry that belongs to the argument 0 exactly; the companion entry (argument 1 of the mixed array) up to the
        # rounding difference between the array and the scalar evaluation of `pow` (1e-14, as for the other variants)
        same = (v.shape == exp.shape and bool(np.all(np.isfinite(v))) and np.array_equal(v.flat[:1], exp.flat[:1])
                and bool(np.all(np.abs(v - exp) <= 1e-14 * np.abs(exp))))
        if not same:
            fails.append({"what": f"{what} at the boundary argument 0", "dim": d, "argument": kind, "arg": 0.0,
                          "result": repr(v.tolist()), "expected": repr(exp.tolist())})

    def at(f, kind):
        """(thunk, expected) of f on an argument of the given kind whose first entry is 0; expected(0) filled by caller"""
        if kind == "float":
            return (lambda: f(0.0)), None
        if kind == "np.float64":
            return (lambda: f(np.float64(0.0))), None
        if kind == "array[0]":
            return (lambda: f(np.array([0.0]))), None
        return (lambda: f(np.array([0.0, 1.0]))), f(1.0)   # array[0, 1]

    for d in (1, 2, 3):
        zero_surface = 2.0 if d == 1 else 0.0
        fams = [
            ("volume_from_radius", lambda x, d=d: sp.volume_from_radius(x, d), 0.0, True),
            ("radius_from_volume", lambda x, d=d: sp.radius_from_volume(x, d), 0.0, True),
            ("surface_from_radius", lambda x, d=d: sp.surface_from_radius(x, d), zero_surface, True),
            ("make_volume_from_radius_compiled", sp.make_volume_from_radius_compiled(d), 0.0, True),
            ("make_radius_from_volume_compiled", sp.make_radius_from_volume_compiled(d), 0.0, True),
            ("make_surface_from_radius_compiled", sp.make_surface_from_radius_compiled(d), zero_surface, True),
            ("make_volume_from_radius_nd_compiled", lambda x, d=d, g=sp.make_volume_from_radius_nd_compiled(): g(x, d), 0.0, True),
            ("make_radius_from_volume_nd_compiled", lambda x, d=d, g=sp.make_radius_from_volume_nd_compiled(): g(x, d), 0.0, True),
        ]
        if d > 1:
            fams.append(("radius_from_surface", lambda x, d=d: sp.radius_from_surface(x, d), 0.0, True))
        for what, f, e0, arrays in fams:
            for kind in ("float", "np.float64", "array[0]", "array[0, 1]"):
                try:
                    with np.errstate(all="ignore"):
                        thunk, e1 = at(f, kind)
                except Exception as e:  # noqa  (the value at 1.0 is needed for the mixed array)
                    fails.append({"what": f"{what} at the argument 1", "dim": d, "argument": "float", "arg": 1.0,
                                  "result": f"raised {type(e).__name__}"})
                    continue
                expected = e0 if kind in ("float", "np.float64") else ([e0] if kind == "array[0]" else [e0, float(e1)])
                probe(what, d, kind, thunk, expected)
        # droplets of radius 0 (volume, surface area, bounding box; set volume 0; from_volume 0)
        pos = np.arange(d) + 0.5
        probe("SphericalDroplet(radius=0).volume", d, "droplet", lambda: SphericalDroplet(pos, 0.0).volume, 0.0)
        probe("SphericalDroplet(radius=0).surface_area", d, "droplet", lambda: SphericalDroplet(pos, 0.0).surface_area, zero_surface)
        probe("SphericalDroplet(radius=0).bbox.pos", d, "droplet", lambda: SphericalDroplet(pos, 0.0).bbox.pos, pos)
        probe("SphericalDroplet(radius=0).bbox.size", d, "droplet", lambda: SphericalDroplet(pos, 0.0).bbox.size, np.zeros(d))

        def set0():
            dr = SphericalDroplet(pos, 1.0)
            dr.volume = 0.0
            return [dr.radius, dr.volume]

        probe("droplet.volume = 0 -> (radius, volume)", d, "droplet", set0, [0.0, 0.0])
        probe("SphericalDroplet.from_volume(volume=0).radius", d, "droplet",
              lambda: SphericalDroplet.from_volume(pos, 0.0).radius, 0.0)
    return fails


# conventions of the unchanged tree for a 0-d array argument, recorded per variant by the last run (evidence only;
# what is REQUIRED is np.shape(result) == () -- a numpy scalar, a Python float and a 0-d array all qualify)
SHAPE_CONVENTIONS: dict = {}


def shape_failures(rng: random.Random):
    """Argument SHAPE as a dimension of the stream: every array variant, every dimension, arguments of shape (), (1,),
    (5,), (2, 3), (3, 1, 2), empty (0,) and (0, 3), a strided view, a transposed view, Fortran order, float32 and
    integer arrays.  Required: the call succeeds, np.shape(result) == argument shape, every entry equals the scalar
    variant (the generic function on the Python float of that entry; 1e-14 relative for binary64 arguments, 64 * 2^-24
    for float32 arguments whose result may be computed in single precision), the argument is left unchanged and the
    result does not share memory with it."""
    import warnings
    from droplets.tools import spherical as sp
    fails = []
    vals = [0.0] + [math.ldexp(1 + rng.randrange(0, 64) / 64.0, e) for e in (-30, -7, -1, 0, 1, 3, 11, 24, 40, 2, 5)]
    base = np.array(vals)

    def cases():
        yield "shape ()", np.array(vals[3])
        yield "shape (1,)", np.array([vals[4]])
        yield "shape (5,)", base[:5].copy()
        yield "shape (2, 3)", base[:6].reshape(2, 3).copy()
        yield "shape (3, 1, 2)", base[3:9].reshape(3, 1, 2).copy()
        yield "empty (0,)", np.zeros((0,))
        yield "empty (0, 3)", np.zeros((0, 3))
        yield "strided view [::2]", base[::2]
        yield "transposed view (3, 2)", base[:6].reshape(2, 3).T
        yield "Fortran order (2, 3)", np.asfortranarray(base[:6].reshape(2, 3))
        yield "float32 (5,)", base[[0, 3, 4, 5, 6]].astype(np.float32)
        yield "int64 (5,)", np.array([0, 1, 2, 3, 40])

    for d in (1, 2, 3):
        scalar = {"vfr": lambda x, d=d: sp.volume_from_radius(x, d), "rfv": lambda x, d=d: sp.radius_from_volume(x, d),
                  "sfr": lambda x, d=d: sp.surface_from_radius(x, d), "rfs": lambda x, d=d: sp.radius_from_surface(x, d)}
        variants = [("volume_from_radius", "vfr", scalar["vfr"]), ("radius_from_volume", "rfv", scalar["rfv"]),
                    ("surface_from_radius", "sfr", scalar["sfr"]),
                    ("make_volume_from_radius_compiled", "vfr", sp.make_volume_from_radius_compiled(d)),
                    ("make_radius_from_volume_compiled", "rfv", sp.make_radius_from_volume_compiled(d)),
                    ("make_surface_from_radius_compiled", "sfr", sp.make_surface_from_radius_compiled(d)),
                    ("make_volume_from_radius_nd_compiled", "vfr",
                     lambda x, d=d, g=sp.make_volume_from_radius_nd_compiled(): g(x, d)),
                    ("make_radius_from_volume_nd_compiled", "rfv",
                     lambda x, d=d, g=sp.make_radius_from_volume_nd_compiled(): g(x, d))]
        if d > 1:
            variants.append(("radius_from_surface", "rfs", scalar["rfs"]))
        for vname, fam, f in variants:
            for label, a in cases():
                rec = {"what": f"{vname} on an array argument ({label})", "dim": d, "argument": label,
                       "arg": np.asarray(a, dtype=float).tolist(), "dtype": str(a.dtype)}
                before = a.copy()
                try:
                    with warnings.catch_warnings():
                        warnings.simplefilter("ignore")
                        res = f(a)
                except Exception as e:  # noqa
                    fails.append({**rec, "result": f"raised {type(e).__name__}: {e}"[:200]})
                    continue
                if label == "shape ()":
                    SHAPE_CONVENTIONS[f"{vname}[dim={d}]"] = ("0-d ndarray" if isinstance(res, np.ndarray)
                                                              else type(res).__name__)
                if np.shape(res) != a.shape:
                    fails.append({**rec, "result_shape": list(np.shape(res)), "argument_shape": list(a.shape),
                                  "result": "shape of the result differs from the shape of the argument"})
                    continue
                if not np.array_equal(a, before):
                    fails.append({**rec, "result": "the argument array was modified"})
                    continue
                if isinstance(res, np.ndarray) and res.size and np.shares_memory(res, a):
                    fails.append({**rec, "result": "the result shares memory with the argument"})
                    continue
                tol = 64 * 2.0 ** -24 if a.dtype == np.float32 else 1e-14
                got = np.asarray(res, dtype=float).reshape(-1)
                xs = np.asarray(a, dtype=float).reshape(-1)   # logical (C) order of both
                for k, (x, y) in enumerate(zip(xs, got)):
                    try:
                        ref = float(scalar[fam](float(x)))
                    except Exception as e:  # noqa
                        fails.append({**rec, "result": f"scalar variant raised {type(e).__name__} at {x!r}"})
                        break
                    if not (math.isfinite(y) and abs(y - ref) <= tol * abs(ref)):
                        fails.append({**rec, "entry": k, "entry_argument": float(x), "array_value": float(y),
                                      "scalar_value": ref, "result": "entry differs from the scalar variant"})
                        break
    return fails


def sequence_failures(rng: random.Random):
    """`setting a droplet's volume and reading it back returns the value set`, judged as a SEQUENCE of assignments on ONE
    object (the result must not depend on the droplet's previous state): SphericalDroplet and DiffuseDroplet, dimensions
    1-3, starting from radius 0 / tiny / ordinary / huge, volumes 2, 7.5, 0, 5, 1e-30, 1e30, 0, 3 (and seeded ones) given
    as Python float, np.float64, np.float32 and int, interleaved with radius assignments.  After every step volume,
    radius, surface_area, bbox and (for radius > 0) the curvature are read back and compared with a freshly constructed
    droplet of that volume (`from_volume`, same argument: 1e-14) and with the generic conversions of the value set
    (1e-12 for binary64 / integer arguments; 1e-5 for float32 arguments, whose radius is computed in single precision)."""
    import warnings
    from droplets.tools import spherical as sp
    from droplets.droplets import DiffuseDroplet, SphericalDroplet
    fails = []
    base = [2.0, 7.5, 0.0, 5.0, 1e-30, 1e30, 0.0, 3.0]
    extra = [math.ldexp(1 + rng.randrange(0, 64) / 64.0, rng.randrange(-40, 40)) for _ in range(3)]
    kinds = {"float": float, "np.float64": np.float64, "np.float32": np.float32,
             "int": lambda v: int(v) if float(v).is_integer() else int(round(v))}

    def close(a, b, rel):
        a, b = float(a), float(b)
        return math.isfinite(a) and math.isfinite(b) and abs(a - b) <= rel * max(abs(a), abs(b))

    def observe(dr):
        with warnings.catch_warnings():
            warnings.simplefilter("ignore")
            o = {"radius": float(dr.radius), "volume": float(dr.volume), "surface_area": float(dr.surface_area),
                 "bbox_lo": [float(t) for t in dr.bbox.pos], "bbox_size": [float(t) for t in dr.bbox.size]}
            if o["radius"] > 0:
                o["curvature"] = float(dr.interface_curvature)
        return o

    for cls in (SphericalDroplet, DiffuseDroplet):
        for d in (1, 2, 3):
            pos = np.arange(d) + 0.5
            for r0 in (0.0, 1e-12, 1.5, 1e12):
                for kname, conv in kinds.items():
                    dr = cls(pos, r0)
                    history = [("radius", r0)]
                    steps = [("volume", v) for v in base + extra]
                    steps[3:3] = [("radius", 0.0)]        # interleaved radius assignments: the state in between
                    steps[7:7] = [("radius", 2.5)]
                    for what, val in steps:
                        rec = {"what": f"{cls.__name__}: sequence of volume / radius assignments on one droplet",
                               "class": cls.__name__, "dim": d, "start_radius": r0, "argument_kind": kname,
                               "history": [list(h) for h in history], "step": [what, val]}
                        if what == "radius":
                            dr.radius = val
                            history.append((what, val))
                            continue
                        v = conv(val)
                        history.append((what, float(v)))
                        try:
                            with warnings.catch_warnings():
                                warnings.simplefilter("ignore")
                                dr.volume = v
                            got = observe(dr)
                            fresh = observe(cls.from_volume(pos, v))
                            vf = float(v)
                            rad = float(sp.radius_from_volume(vf, d))
                            want = {"volume": vf, "radius": rad, "surface_area": float(sp.surface_from_radius(rad, d))}
                        except Exception as e:  # noqa
                            fails.append({**rec, "result": f"raised {type(e).__name__}: {e}"[:200]})
                            break
                        rel = 1e-5 if kname == "np.float32" else 1e-12
                        bad = [k for k in want if not close(got[k], want[k], rel)]
                        bad += [k for k in fresh if k not in got or
                                not all(close(a, b, 1e-14) for a, b in zip(np.ravel(got[k]), np.ravel(fresh[k])))]
                        if rad > 0 and not close(got.get("curvature", math.nan), 1 / rad, rel):
                            bad.append("curvature")
                        # bbox = (position - radius, position + radius): each corner is one rounded operation on numbers of
                        # size |position| + radius, the size is their difference: absolute error <= 4 * 2^-52 * (|p| + r)
                        ulp = [4 * 2.0 ** -52 * (abs(q) + rad) + rel * rad for q in pos]
                        if not all(math.isfinite(a) and abs(a - (q - rad)) <= t for a, q, t in zip(got["bbox_lo"], pos, ulp)) or \
                                not all(math.isfinite(a) and abs(a - 2 * rad) <= 2 * t for a, t in zip(got["bbox_size"], ulp)):
                            bad.append("bbox")
                        if bad:
                            fails.append({**rec, "differs": sorted(set(bad)), "read_back": got,
                                          "fresh_from_volume": fresh, "generic_conversion": want})
                            break
    return fails


def oracle(rng: random.Random, n: int):
    """Executable form of the property text over the implementation; returns failing inputs."""
    from droplets.tools import spherical as sp
    from droplets.droplets import SphericalDroplet
    fails = []

    def close(a, b, rel=1e-11):
        if not (math.isfinite(a) and math.isfinite(b)):
            return False  # every quantity of this property is finite for finite positive arguments
        return abs(a - b) <= rel * max(abs(a), abs(b), 1e-300)

    for d in (1, 2, 3):
        r2v_c = sp.make_volume_from_radius_compiled(d)
        v2r_c = sp.make_radius_from_volume_compiled(d)
        r2s_c = sp.make_surface_from_radius_compiled(d)
        v2r_nd = sp.make_radius_from_volume_nd_compiled()
        r2v_nd = sp.make_volume_from_radius_nd_compiled()
        for x in _inputs(rng, n):
            try:
                v = sp.volume_from_radius(x, d)
                if not close(sp.radius_from_volume(v, d), x):
                    fails.append({"what": "radius->volume->radius", "dim": d, "radius": x})
                if not close(sp.volume_from_radius(sp.radius_from_volume(x, d), d), x):
                    fails.append({"what": "volume->radius->volume", "dim": d, "volume": x})
                if d > 1:
                    if not close(sp.radius_from_surface(sp.surface_from_radius(x, d), d), x):
                        fails.append({"what": "radius->surface->radius", "dim": d, "radius": x})
                # surface = dV/dr (closed forms: V is a polynomial of degree d, central difference
                # with step r/8 has truncation error (1/64)/1 * r^2 term only for d = 3: use Richardson)
                h1, h2 = x / 8, x / 16
                D1 = (sp.volume_from_radius(x + h1, d) - sp.volume_from_radius(x - h1, d)) / (2 * h1)
                D2 = (sp.volume_from_radius(x + h2, d) - sp.volume_from_radius(x - h2, d)) / (2 * h2)
                deriv = (4 * D2 - D1) / 3
                if not close(float(sp.surface_from_radius(x, d)), deriv, 1e-9):
                    fails.append({"what": "surface != dV/dr", "dim": d, "radius": x})
                arr = np.array([x, 2 * x])
                vals = {
                    "vfr": [float(sp.volume_from_radius(x, d)), float(sp.volume_from_radius(arr, d)[0]), float(r2v_c(x)),
                            float(r2v_c(arr)[0]), float(r2v_nd(x, d))],
                    "rfv": [float(sp.radius_from_volume(x, d)), float(sp.radius_from_volume(arr, d)[0]), float(v2r_c(x)),
                            float(v2r_c(arr)[0]), float(v2r_nd(x, d))],
                    "sfr": [float(sp.surface_from_radius(x, d)), float(np.asarray(sp.surface_from_radius(arr, d))[0]),
                            float(r2s_c(x)), float(np.asarray(r2s_c(arr))[0])],
                }
                for k, vs in vals.items():
                    if not all(close(vs[0], w, 1e-14) for w in vs):
                        fails.append({"what": f"variants of {k} differ", "dim": d, "arg": x, "values": vs})
                dr = SphericalDroplet(np.arange(d) + 0.5, 1.0)
                dr.volume = x
                if not close(dr.volume, x):
                    fails.append({"what": "droplet volume set/get", "dim": d, "volume": x})
                dr = SphericalDroplet(np.arange(d) + 0.5, x)
                if not close(dr.volume, sp.volume_from_radius(x, d)) or not close(dr.surface_area, float(sp.surface_from_radius(x, d))):
                    fails.append({"what": "droplet volume/surface formula", "dim": d, "radius": x})
                bb = dr.bbox
                if not (np.allclose(bb.pos, dr.position - x, rtol=1e-13) and np.allclose(bb.size, 2 * x, rtol=1e-13)):
                    fails.append({"what": "bbox formula", "dim": d, "radius": x})
                if not close(dr.interface_curvature, 1 / x):
                    fails.append({"what": "curvature formula", "dim": d, "radius": x})
            except Exception as e:  # noqa  (a conversion that raises on a positive argument is a failure at that input)
                fails.append({"what": f"a conversion raised {type(e).__name__} on a positive argument", "dim": d, "arg": x,
                              "result": str(e)[:160]})
    # the boundary of the quantifier and the shapes of the arguments first (they are the sharpest inputs)
    fails = (boundary_failures() + shape_failures(random.Random(rng.random()))
             + sequence_failures(random.Random(rng.random())) + fails)
    try:
        for l in range(0, 40):
            for m in range(-l, l + 1):
                k = sp.spherical_index_k(l, m)
                if tuple(int(t) for t in sp.spherical_index_lm(k)) != (l, m):
                    fails.append({"what": "index_lm(index_k(l,m)) != (l,m)", "l": l, "m": m})
        for k in range(0, 3000):
            l, m = sp.spherical_index_lm(k)
            if sp.spherical_index_k(int(l), int(m)) != k:
                fails.append({"what": "index_k(index_lm(k)) != k", "k": k})
            if bool(sp.spherical_index_count_optimal(k)) != (math.isqrt(k) ** 2 == k):
                fails.append({"what": "count_optimal != is_square", "k": k})
    except Exception as e:  # noqa
        fails.append({"what": f"an index function raised {type(e).__name__} inside its documented range", "result": str(e)[:160]})
    return fails


GENS = ["Gen_spherical", "Gen_spherical_index", "Gen_droplet_basic", "Gen_spherical_def", "Gen_spherical_fp"]
DEPS = ["Proofs/C12.vo", "Model/Samples.vo", "Model/Defined.vo", "Gen/Gen_spherical_def.vo",
        "Proofs/C12Float.vo", "Proofs/C12Flocq.vo"]


# ---------------------------------------------------------------------------------------------------------------
# floating-point layer: measured rounding errors of the implementation against the proved bounds K * u
# ---------------------------------------------------------------------------------------------------------------
FP_U = 2.0 ** -53          # unit roundoff of binary64 (Proofs/C12Flocq.v: u64)
FP_KP = 2                  # premise on the library pow: one unit in the last place = 2 u (measured below)
FP_EPS = 1e-3              # the slack of the stated constants (second-order terms)


def _fp_bounds(d: int, L: float) -> dict:
    """The constants of Properties/C12.v (C12_fp_conversions, C12_fp_round_trips, C12_fp_constants with kp = 2);
    L >= |ln(exact radius)| enters only where a cube root is taken."""
    kp = FP_KP
    e2 = 1e-2   # slack of the round-trip constants
    if d == 1:
        return {"vfr": 1, "rfv": 1, "sfr": 0, "rv": 2 + e2, "vr": 2 + e2}
    if d == 2:
        return {"vfr": 3 + FP_EPS, "rfv": 2 + FP_EPS, "sfr": 3 + FP_EPS, "rfs": 3 + FP_EPS,
                "rv": 3.5 + e2, "vr": 7 + e2, "rs": 6 + e2, "sr": 6 + e2}
    return {"vfr": 4 + kp + FP_EPS, "rfv": L + 10 / 3 + FP_EPS, "sfr": 4 + FP_EPS, "rfs": 2.5 + FP_EPS,
            "rv": L + 16 / 3 + e2, "vr": 3 * L + 16 + e2, "rs": 4.5 + e2, "sr": 9 + e2}


def float_layer(ctx, rng: random.Random, n: int):
    """Radii over 30 orders of magnitude (1e-15 .. 1e15): relative error of every scalar conversion against the exact
    real function of the SAME binary64 argument, and of every round trip against the argument, in units of u = 2^-53.
    References: 80-digit decimal arithmetic (error < 1e-75, against bounds of 1e-16: immaterial); round trips exactly.
    Returns (max ratio per quantity, failures)."""
    import decimal
    from decimal import Decimal as D
    from fractions import Fraction as F
    from droplets.tools import spherical as sp
    dctx = decimal.Context(prec=80)
    PI = D("3.14159265358979323846264338327950288419716939937510582097494459230781640628620899862803482534211706798")
    third = dctx.divide(D(1), D(3))
    u = D(FP_U)

    def exact(kind, d, x):
        X = D(x)
        m, dv, pw, sq = dctx.multiply, dctx.divide, dctx.power, dctx.sqrt
        if kind == "vfr":
            return [m(2, X), m(PI, m(X, X)), m(dv(m(4, PI), 3), m(X, m(X, X)))][d - 1]
        if kind == "rfv":
            return [dv(X, 2), sq(dv(X, PI)), pw(dv(m(3, X), m(4, PI)), third)][d - 1]
        if kind == "sfr":
            return [D(2), m(m(2, PI), X), m(m(4, PI), m(X, X))][d - 1]
        return [None, dv(X, m(2, PI)), sq(dv(X, m(4, PI)))][d - 1]   # rfs

    impl = {"vfr": sp.volume_from_radius, "rfv": sp.radius_from_volume, "sfr": sp.surface_from_radius,
            "rfs": sp.radius_from_surface}
    worst, fails = {}, []
    lo, hi = 2.0 ** -1022, 2.0 ** 1023

    def note(key, ratio, bound, rec):
        ratio = float(ratio)
        w = worst.setdefault(key, {"max_ratio": 0.0, "bound": None, "at": None, "max_ratio_over_bound": 0.0})
        rb = ratio / bound if bound > 0 else (0.0 if ratio == 0 else math.inf)
        if ratio > w["max_ratio"]:
            w["max_ratio"], w["at"] = ratio, rec.get("arg")
        if rb >= w["max_ratio_over_bound"]:
            w["max_ratio_over_bound"], w["bound"] = rb, round(bound, 6)
        if ratio > bound:
            fails.append({"what": f"rounding error of {key} exceeds the proved bound", "ratio_in_u": ratio,
                          "proved_bound_in_u": bound, **rec})

    def call(kind, d, x, how):
        if how == "float":
            return float(impl[kind](float(x), d))
        return float(np.asarray(impl[kind](np.array([x, x]), d), dtype=float)[0])

    for i in range(n):
        e = -15 + 30 * i / max(1, n - 1)
        r = 10.0 ** e * (1 + rng.random()) / 1.5
        r = min(max(r, 1e-15), 1e15)
        ctx.count("float_layer_log10_radius", int(round(e / 5.0)) * 5)
        for d in (1, 2, 3):
            L = abs(math.log(r)) + 1e-9
            B = _fp_bounds(d, L)
            for how in ("float", "ndarray"):
                rec0 = {"dim": d, "argument_kind": how}
                # single conversions, each on an exactly representable argument
                v_arg = float(exact("vfr", d, r))          # a volume of the matching magnitude (any double would do)
                s_arg = float(exact("sfr", d, r))
                for kind, x in (("vfr", r), ("rfv", v_arg), ("sfr", r)) + ((("rfs", s_arg),) if d > 1 else ()):
                    y = call(kind, d, x, how)
                    ex = exact(kind, d, x)
                    if not (math.isfinite(y) and (y == 0 or lo <= abs(y) <= hi)):
                        fails.append({"what": f"{kind} leaves the normal range of binary64", "arg": x, "value": y, **rec0})
                        continue
                    ratio = dctx.divide(abs(dctx.subtract(D(y), ex)), dctx.multiply(ex, u))
                    Lk = abs(math.log(float(ex))) + 1e-9 if kind == "rfv" else L
                    note(f"{kind}_{d}", ratio, _fp_bounds(d, Lk)[kind], {"arg": x, **rec0})
                # round trips, measured exactly
                def rt(f, g, x):
                    return F(call(g, d, call(f, d, x, how), how))
                for key, f, g, x in (("rv", "vfr", "rfv", r), ("vr", "rfv", "vfr", v_arg)) + \
                        ((("rs", "sfr", "rfs", r), ("sr", "rfs", "sfr", s_arg)) if d > 1 else ()):
                    back = rt(f, g, x)
                    ratio = abs(back - F(x)) / (F(x) * F(FP_U))
                    Lk = abs(math.log(float(exact("rfv", d, x)))) + 1e-9 if key == "vr" else L
                    note(f"{key}_{d}", ratio, _fp_bounds(d, Lk)[key], {"arg": x, **rec0})
                ctx.case(["float_layer", d, how, r])
            # premise on pow (kp = 2): x ** 3 and x ** fl(1/3), scalar and array
            if d == 3:
                x = r
                for how, y3, yc in (("float", float(x) ** 3, float(x) ** (1 / 3)),
                                    ("ndarray", float((np.array([x, x]) ** 3)[0]), float((np.array([x, x]) ** (1 / 3))[0]))):
                    e3 = F(x) ** 3
                    note("premise_pow_cube", abs(F(y3) - e3) / (e3 * F(FP_U)), FP_KP, {"arg": x, "argument_kind": how})
                    ec = dctx.power(D(x), D(1 / 3))      # x ** fl(1/3): pow itself, with the rounded exponent as given
                    note("premise_pow_third", dctx.divide(abs(dctx.subtract(D(yc), ec)), dctx.multiply(ec, u)), FP_KP,
                         {"arg": x, "argument_kind": how})
    return worst, fails


def _count_definedness(ctx, ok: bool, fresh: bool) -> None:
    """The generated definedness obligations (Gen_spherical_def.v: every divisor non-zero, every radicand / base of a
    non-integer power non-negative on the documented domain) count like the theorems.  When the obligations of the text
    generated from the CURRENT source do not hold, that is reported by name whatever model the theorems then use."""
    import re
    f = vlib.COQ_BUILD / "Gen" / "Gen_spherical_def.v"
    n = len(re.findall(r"^Lemma def_", f.read_text(), flags=re.M)) if f.exists() else 0
    ctx.obligations += n
    if ok:
        ctx.discharged += n
    ctx.extra["argument_shape_conventions_0d"] = SHAPE_CONVENTIONS
    ctx.extra["definedness_obligations"] = {"count": n, "model_text": "regenerated" if fresh else "golden",
                                            "excluded_at_zero": EXCLUDED_AT_ZERO}
    if fresh:
        return
    for msg in ctx.extra.get("fresh_text_failure", []):
        for m in re.finditer(r"Gen_spherical_def\.v:(\d+):", msg):
            try:  # the fresh text is gone from the build directory (golden text in use): regenerate it to name the obligation
                import gen
                line = gen.GENERATORS["Gen_spherical_def"]().splitlines()[int(m.group(1)) - 1]
            except Exception:  # noqa
                return  # the translator failed closed (the file was its stub): no obligation of the current source was tried
            if not line.startswith("Lemma def_"):
                return
            ctx.obligations += 1
            ctx.broken.append("definedness obligation of the conversions as written in the current source does not hold "
                              "on the documented domain (the real-number model would be total there only because Coq's "
                              "x / 0 = 0): " + " ".join(line.split())[:400])
            return


def _boundary_goals(ctx, tbl, model_diff) -> None:
    """`f 0 = <value of the implementation at 0>` for every generated real definition (except the ones excluded by
    name), proved inside Coq over the text in build/coq/Gen (fresh or golden) by the fixed tactic `at0`."""
    import re
    goals = []
    for name, f in sorted(tbl.items()):
        if name in EXCLUDED_AT_ZERO:
            continue
        ctx.case([name, 0.0], nontrivial=False)
        ctx.count("function", name.rsplit("_", 1)[0])
        ctx.count("log2_magnitude_bucket", "zero")
        try:
            y = f(0.0)
        except Exception as e:  # noqa
            y = f"raised {type(e).__name__}"
        if not isinstance(y, float) or not math.isfinite(y):
            ctx.broken.append(f"boundary {name}(0.0): the implementation returns {y!r}, the model a finite value")
            model_diff.append({"function": name, "arg": 0.0, "implementation": repr(y)})
            continue
        expr = SAMPLE_EXPR[name](0.0) if name in SAMPLE_EXPR else f"{name} 0"
        goals.append((name, expr, y))
    unfold = "unfold " + ", ".join(sorted(tbl.keys())) + "."
    d = ctx.casedir
    d.mkdir(parents=True, exist_ok=True)
    path = d / "Boundary_c12.v"
    skip, failed = set(), []
    for _round in range(8):
        lines = ["From Coq Require Import Reals Lra.",
                 "From PD Require Import Model.Num Model.Defined Gen.Gen_spherical Gen.Gen_droplet_basic.",
                 "Local Open Scope R_scope."]
        where = {}
        for i, (name, expr, y) in enumerate(goals):
            if i in skip:
                continue
            where[len(lines) + 1] = i
            lines.append(f"Lemma b_{i} : {expr} = {vlib.rlit(y)}. Proof. {unfold} at0. Qed.")
        path.write_text("\n".join(lines) + "\n")
        rc, out = vlib.coqc(path, timeout=300)
        if rc == 0:
            break
        m = re.search(r"line (\d+), characters", out)
        if not m or int(m.group(1)) not in where:
            ctx.broken.append(f"boundary goals: cannot evaluate: {' '.join(out.split())[-300:]}")
            return
        i = where[int(m.group(1))]
        skip.add(i)
        failed.append(i)
    ctx.obligations += len(goals)
    ctx.discharged += len(goals) - len(failed)
    ctx.checker_cmds.append(f"coqc -R build/coq PD build/cases/{ctx.pid}/Boundary_c12.v   ({len(goals)} exact goals at the argument 0)")
    if goals:
        ctx.sample({"boundary_goal": f"{goals[0][1]} = {vlib.rlit(goals[0][2])}"})
    for i in failed:
        name, expr, y = goals[i]
        ctx.broken.append(f"boundary goal {name}(0.0): generated model and implementation differ (implementation value {y!r})")
        model_diff.append({"function": name, "arg": 0.0, "implementation": y})


def check(ctx: vlib.Ctx) -> int:
    rng = random.Random(ctx.seed)
    # theorems over the text regenerated from the current source; over the golden text when the translator does not
    # carry the current source or the fresh text no longer fits the proof scripts (DESIGN.md 2.2, Fallback)
    ok, fresh = vlib.prove_with_fallback(ctx, DEPS, gens=GENS)
    _count_definedness(ctx, ok, fresh)
    which = "regenerated" if fresh else "golden"
    ctx.tie.append(f"interval sample goals + index cases evaluated inside Coq: the {which} Gen_spherical / "
                   "Gen_spherical_index / Gen_droplet_basic definitions against the values computed by the implementation")
    tbl = _impl_table()
    nin = ctx.scale(3, 16)
    model_diff = []  # inputs on which the (golden or regenerated) model and the implementation disagree
    # --- validation of the model by interval sample goals.  The goals name the Coq definitions (`rfv_scalar_3 x`),
    # so they evaluate whatever text build/coq/Gen holds (fresh or golden) and need nothing from the translator's
    # Python side; the right-hand sides are the implementation's values.
    if ok:
        missing = _uncovered_definitions(tbl)
        if missing:
            ctx.broken.append(f"generated definitions without a sample goal: {missing}")
        goals = []
        for name, f in sorted(tbl.items()):
            for x in _inputs(rng, nin):
                ctx.case([name, x])
                ctx.count("function", name.rsplit("_", 1)[0])
                ctx.count("log2_magnitude_bucket", 10 * round(math.log2(x) / 10))
                try:
                    y = f(x)
                except Exception as e:  # noqa
                    y = f"raised {type(e).__name__}"
                if not isinstance(y, float) or not math.isfinite(y):
                    # non-finite values never enter a Coq literal: the model is finite on finite positive arguments
                    ctx.broken.append(f"sample {name}({x!r}): the implementation returns {y!r}, the model a finite value")
                    model_diff.append({"function": name, "arg": x, "implementation": repr(y)})
                    continue
                expr = SAMPLE_EXPR[name](x) if name in SAMPLE_EXPR else f"{name} {vlib.rlit(x)}"
                goals.append((f"{name}({x!r})", expr, y, 1e-13 * abs(y) + 1e-300, name, x))
        if goals:
            ctx.sample({"goal": f"Rabs ({goals[0][1]} - {vlib.rlit(goals[0][2])}) <= tol", "impl_value": goals[0][2],
                        "model_text": which})
        req = "From Coq Require Import Reals.\nFrom PD Require Import Model.Num Gen.Gen_spherical Gen.Gen_droplet_basic."
        # shard the goals so that they run in parallel
        from concurrent.futures import ThreadPoolExecutor
        shards = [goals[i::8] for i in range(8)]
        unfold = sorted(tbl.keys())
        with ThreadPoolExecutor(8) as ex:
            failed = list(ex.map(lambda a: vlib.sample_goals(ctx, f"c12_{a[0]}", req, [g[:4] for g in a[1]], unfold),
                                 enumerate(shards)))
        by_label = {g[0]: g for g in goals}
        for lst in failed:
            for (label, _expr, val) in lst:
                g = by_label[label]
                model_diff.append({"function": g[4], "arg": g[5], "implementation": val})
        _boundary_goals(ctx, tbl, model_diff)
    # --- Z-valued index functions: model vs implementation inside Coq
    if ok:
        from droplets.tools import spherical as sp
        K = ctx.scale(1500, 20000)
        cases = []
        for k in range(K):
            l, m = sp.spherical_index_lm(k)
            cases.append(f"({vlib.zlit(k)}, ({vlib.zlit(int(l))}, {vlib.zlit(int(m))}), "
                         f"{vlib.blit(bool(sp.spherical_index_count_optimal(k)))}, {vlib.zlit(sp.spherical_index_count(k))})")
            ctx.case(["index", k], nontrivial=k > 0)
        ctx.sample({"index_case": cases[7]})
        header = ("From Coq Require Import ZArith List Bool.\nImport ListNotations.\n"
                  "From PD Require Import Model.NumZ Gen.Gen_spherical_index.\nLocal Open Scope Z_scope.\n"
                  "Definition agree (c : Z * (Z * Z) * bool * Z) : bool :=\n"
                  "  let '(k, (l, m), opt, cnt) := c in\n"
                  "  let '(l', m') := index_lm k in\n"
                  "  Z.eqb l l' && Z.eqb m m' && Bool.eqb opt (index_count_optimal k) && Z.eqb cnt (index_count k)\n"
                  "  && Z.eqb (index_k l m) k.\n")
        bad = vlib.run_cases(ctx, "index", header, cases, "agree", shard=2500)
        if bad:
            ctx.broken.append(f"index functions: model and implementation differ on k in {bad[:5]}")
            model_diff.append({"function": "spherical_index_lm/_k/_count/_count_optimal", "k": bad[0]})
        ctx.count("index_k_range", f"0..{K - 1}", K)
    # --- floating-point layer: measured rounding errors against the proved constants (Proofs/C12Float.v)
    worst, fl_fails = float_layer(ctx, random.Random(ctx.seed + 17), ctx.scale(120, 1500))
    ctx.extra["float_layer"] = {"u": "2^-53", "kp": FP_KP, "radii": "1e-15 .. 1e15",
                                "theorems": ["C12_fp_conversions", "C12_fp_conversion_cbrt", "C12_fp_round_trips",
                                             "C12_fp_round_trips_3", "C12_fp_constants", "C12_fp_model_binary64"],
                                "restriction": "standard model: no intermediate result outside the normal range of binary64 "
                                               "(checked per sample); pow within 1 ulp = 2u (measured: premise_pow_*)",
                                "measured_relative_error_in_u": worst}
    ctx.tie.append("floating-point layer: Gen_spherical_fp (" + which + ") carries the operation order of the source; the measured "
                   "rounding errors of the implementation (scalar and ndarray evaluation, 30 orders of magnitude) are "
                   "compared with the proved constants on every run")
    if worst:
        k = max(worst, key=lambda q: worst[q]["max_ratio_over_bound"])
        ctx.sample({"float_layer_tightest": k, **worst[k]})
    if fl_fails:
        ctx.broken.append(f"floating-point layer: {len(fl_fails)} measured rounding errors exceed the proved bound "
                          f"(a premise of the standard model is not met by this platform's arithmetic, or the code changed): "
                          f"{fl_fails[0]['what']} at {fl_fails[0].get('arg')!r}")
    # --- property oracle over the implementation: always run a small sweep (also the search when broken)
    fails = oracle(rng, ctx.scale(8, 40) if not ctx.broken else 60)
    fails = fails + fl_fails
    for f in fails[:3]:
        ctx.violations.append({"what": f["what"], "input": f, "found": True, "broken": ctx.broken[:3]})
    if not fresh and not fails:
        # the theorems were checked over the golden model: an input on which the implementation leaves that model
        # is the failing input (the implementation is not the function the theorems are about)
        for m in model_diff[:3]:
            ctx.violations.append({"what": "implementation differs from the golden model of " + m["function"],
                                   "input": m, "found": True, "broken": ctx.broken[:3]})
    return vlib.finish(ctx, "", TRUSTED, ASSUME, RULE)


def replay(path: str) -> int:
    obj = json.load(open(path))
    print(json.dumps(obj, indent=1))
    fails = oracle(random.Random(0), 60)
    print("oracle failures on current tree:", len(fails))
    for f in fails[:5]:
        print("  ", f)
    return 1 if fails else 0
