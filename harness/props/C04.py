"""C04 -- refinement never worsens the fit and respects bounds, symmetry and the box.

(a) proofs: Properties/C04.v over Model/Refine.v + Gen_refine (regenerated from the current refine_droplet /
    data_bounds; golden fallback)
(b) correspondence inside Coq: every recorded refinement (arguments and answer of least_squares as seen from
    droplets.image_analysis, dilation count, returned droplet or error) against the model fed with the recorded
    answer; oracle spec of least_squares and the normalisation-invariance premise checked per call
(c) property oracle from the property text over the implementation (main stream incl. fixed-point cases, corpus of the repaired defects F10 / F21 / F23,
    probe streams of the known-finding classes F20, F22, F24, F25)
"""
from __future__ import annotations

import copy
import json
import math
import random

import numpy as np

import refine_common as rc
import refine_state as rs
import vlib

TRUSTED = [
    "Coq 8.16.1 kernel + vm_compute",
    "harness/gen_refine.py (fail-closed translator of refine_droplet's vector plumbing and of the data_bounds properties)",
    "hand model of py-pde 0.58.0 grid facts: coordinate_constraints, typical_discretization, transform, normalize_point "
    "(Model/Refine.v, Model/Grid.v; constraints compared with the grid object on every run)",
    "oracle scipy.optimize.least_squares: premise lsq_spec (answer within bounds, cost <= cost at start; zero-cost start returned) "
    "checked on every recorded call; its preconditions (shapes, lb < ub, lb <= x0 <= ub) modelled as error values",
    "premise dev_normalisation_invariant (rendering unchanged by the final normalisation): proved for Cartesian difference "
    "vectors (C04_cart_normalisation_invariant), checked per sample by recomputing the deviation of the RETURNED droplet",
    "correspondence harness harness/refine_common.py: proxies on droplets.image_analysis.optimize / .ndimage, exact float->Q",
    "droplet._get_phase_field and scipy.ndimage.binary_dilation are used to recompute region and deviation (rendering is C03's subject)",
]
ASSUME = [
    "cost comparison: the two deviations are evaluated in binary64; relative slack 1e-9 plus the derived rounding bound 2 sqrt(N dev) e "
    "+ N e^2 with e = 4 eps max|normalised term| (the implementation works in units of the intensity range, the recomputation in image "
    "units; relevant only when an offset dwarfs the range: levels -1 and -1 + 3e-10 leave residuals known to 4e-7); the optimiser sees intensities in units of the "
    "intensity range |vmax - vmin| (repair F34): recorded costs are compared with deviations divided by its square, fitted levels are "
    "multiplied by it",
    "a start ON a bound -- for scipy: closer to it than rstep = 1e-10*max(1,|bound|), e.g. a fitted intensity range below 1e-10 -- is moved inside by scipy before the first evaluation; the cost premise is checked with slack 1e-6*(cost0+1) there and exactly otherwise",
    "positions after (p - lo) % L + lo are compared with the exact-rational model to 1e-12 relative; all other entries exactly",
    "intensity entries of start vector / bounds (vmax - vmin, vmin - vrng, 3*vrng) are float results compared to 1e-12 relative",
    "images of every data type (float32, int8 ... int64, uint8, bool): automatic levels are Python floats (repair F33), so the exact-"
    "rational model expresses them; binary images are the rendered field thresholded at its mid-level; float32 images / levels supplied "
    "as numpy.float32: the normalised data / levels keep single precision, the recomputed deviations are compared with the derived "
    "rounding bound 2 sqrt(N dev) e + N e^2, e = 2 eps32 max|normalised value| (0 for float64 and integer images); numpy.float32 "
    "levels with adjust_values go to the property oracle only (evidence key not_expressible_in_model)",
    "identity: the Coq model has no heap; the caller's option dict and candidate object after the call are modelled as values "
    "(caller_params_after, caller_candidate_after over the GENERATED flags params_copied / candidate_copied) and compared with what the "
    "harness reads from the caller's objects afterwards; membership in an Emulsion / track is compared by the harness only (bytes of "
    "every member before / after)",
]
RULE = ("one evaluation = one refine_droplet call recorded end to end; main stream cycles grid families (Cartesian 1-3 d with random "
        "periodicity and mildly anisotropic spacing, polar, spherical, cylindrical incl. periodic_z; <= 16 cells per axis, 3-d <= 8), "
        "candidate classes (Spherical = promotion, Diffuse with / without width, Perturbed 2D / 3D / 3DAxisSym with 0, 2, 3 modes), "
        "image kinds (clean, noisy, affine, affine+noise) and the 2x2x2 options vmin/vmax given|None x adjust_values; candidates "
        "off by up to a cell, +-20 % radius/width, written across periodic boundaries, off the symmetry locus; every sixth case "
        "is a fixed-point case (image rendered from the candidate, levels supplied); amplitude vectors of length 0, 1, 2, 3, 4, 6; "
        "dimension stream (notes/input_dimensions.md, one named recipe per case, own PRNG): grid geometry (entirely negative / centred / "
        "positive boxes, spacing ratio 2-3 and cell counts 3:1 in both axis orders, narrow finely sliced and flat wide cylinders, dz >> dr "
        "and dz << dr, 1-cell and 2-cell axes, annular polar / spherical grids with a core of 0.5, 1, 2, 3, 4, 8, 16 cells removed), active bounds (image whose optimum pushes the LAST amplitude beyond +-1 "
        "for 1, 2, 3, 4, 6 amplitudes; radius -> 0; width -> 0; fitted vmin / vrng onto each of their four bounds), boundary candidates "
        "(radius 0, width 0, exactly on periodic / non-periodic faces and corners, outside non-periodic faces, amplitude exactly +-1, all "
        "zero, last only, on / off the symmetry locus), image (float32, int64, int16, uint8, int8, vmin > vmax, constant, copied / unpickled "
        "field), options (tolerance None / 1e-3 / 1e-6 / 1e-10 / int 1 x least_squares_params None / {} / method / tolerances / max_nfev / "
        "x_scale / jac / diff_step, the same dict reused from an earlier call), provenance of the candidate (copy, deepcopy, pickle, "
        "from_data, copy(**kw), member of an Emulsion / copied / unpickled Emulsion / track), numeric types (tuple, ndarray, int, float32, "
        "numpy scalar, 0-d array; levels int / numpy scalars / 0-d), the result object refined again; probe streams for the known-finding classes; "
        "sequences (input dimension 8): sessions of 7 refine_droplet calls + 1 refine_droplets call on ONE grid object, two fields on it "
        "(same shape, data type, levels, one droplet each; other content), shared candidate objects and one option dict -- same call twice, "
        "A / B / A alternately, after a call that raises (wrong dimension / constant image with fitted levels / method lm), fresh equal objects "
        "at the end, results kept alive and one modified in place, candidates as list / tuple / Emulsion / generator for num_processes 1 and 2 "
        "-- every result compared bit for bit with the same call made FIRST in a fresh interpreter (two reference interpreters, opposite orders); "
        "non-trivial = the optimiser moved the start or an error value was produced; distinct by the full case")


def probe_cases(rng: random.Random) -> list[tuple[str, dict]]:
    """small deterministic streams for the input classes recorded as known findings (violations if no entry matches)"""
    out = []
    g2 = {"family": "cartesian", "bounds": [[0.0, 16.0], [0.0, 16.0]], "shape": [16, 16], "periodic": [False, False]}
    truth = {"cls": "DiffuseDroplet", "position": [8.0, 8.0], "radius": 4.0, "width": 1.0}
    cand = {"cls": "DiffuseDroplet", "position": [8.3, 7.8], "radius": 4.3, "width": 1.0}
    clean = {"kind": "clean", "truth": [truth], "a": 1.0, "b": 0.0, "sigma": 0.0, "nseed": 1}
    # F20: fitted intensities with vmin_eff >= vmax_eff
    out.append(("F20", {"grid": g2, "image": {"kind": "const", "value": 0.7}, "candidate": cand, "vmin": None, "vmax": None, "adjust": True}))
    out.append(("F20", {"grid": g2, "image": dict(clean, a=-1.0, b=1.0), "candidate": cand, "vmin": 1.0, "vmax": 0.0, "adjust": True}))
    out.append(("F20", {"grid": g2, "image": clean, "candidate": cand, "vmin": None, "vmax": -0.5, "adjust": True}))
    out.append(("F20", {"grid": g2, "image": clean, "candidate": cand, "vmin": 0.5, "vmax": 0.5, "adjust": True}))
    # F22: periodic cylinder, candidate / fitted centre outside the box
    gc = {"family": "cylindrical", "radius": 8.0, "bounds_z": [0.0, 16.0], "shape": [8, 16], "periodic_z": True}
    tz = {"cls": "DiffuseDroplet", "position": [0.0, 0.0, 0.6], "radius": 3.0, "width": 1.0}
    for z, vmin in ((16.9, 0.0), (-15.2, None), (17.3, None)):
        out.append(("F22", {"grid": gc, "image": {"kind": "clean", "truth": [tz], "a": 1.0, "b": 0.0, "sigma": 0.0, "nseed": 1},
                            "candidate": {"cls": "DiffuseDroplet", "position": [0.0, 0.0, z], "radius": 3.2, "width": 1.0},
                            "vmin": vmin, "vmax": 1.0, "adjust": False}))
    tcut = {"cls": "DiffuseDroplet", "position": [0.0, 0.0, -0.4], "radius": 3.0, "width": 1.0}
    out.append(("F22", {"grid": gc, "image": {"kind": "clean", "truth": [tcut], "a": 1.0, "b": 0.0, "sigma": 0.0, "nseed": 1},
                        "candidate": {"cls": "DiffuseDroplet", "position": [0.0, 0.0, 0.3], "radius": 3.2, "width": 1.0},
                        "vmin": 0.0, "vmax": 1.0, "adjust": False}))
    for k in range(4):
        gs = rc.gen_grid(rng, "cylindrical")
        gs["periodic_z"] = True
        t = rc.gen_truth(rng, gs, "DiffuseDroplet", 0)
        c = rc.gen_candidate(rng, gs, t, "DiffuseDroplet", 0, across=False, off_locus=False)
        L = gs["bounds_z"][1] - gs["bounds_z"][0]
        c["position"][2] += rng.choice([-1, 1]) * L
        out.append(("F22", {"grid": gs, "image": rc.gen_image_spec(rng, t, "clean"), "candidate": c,
                            "vmin": [0.0, None][k % 2], "vmax": 1.0, "adjust": bool(k // 2)}))
    # F23 (fixed by c34dec3): empty fit region and an automatic level must not raise any more -> stream "corpus"
    out.append(("corpus", {"grid": g2, "image": clean, "candidate": {"cls": "DiffuseDroplet", "position": [8.0, 8.0], "radius": 0.3, "width": 1.0},
                           "vmin": None, "vmax": 1.0, "adjust": False}))
    out.append(("corpus", {"grid": g2, "image": clean, "candidate": {"cls": "SphericalDroplet", "position": [40.0, 40.0], "radius": 2.0},
                           "vmin": 0.0, "vmax": None, "adjust": True}))
    out.append(("corpus", {"grid": g2, "image": clean, "candidate": {"cls": "DiffuseDroplet", "position": [8.0, 8.0], "radius": 0.3, "width": None},
                           "vmin": None, "vmax": None, "adjust": True}))
    # F10 (fixed by b0d0bdc): intensities in [5, 6] with fitted automatic levels
    t10 = {"cls": "DiffuseDroplet", "position": [8.0, 8.0], "radius": 4.0, "width": 1.0}
    out.append(("corpus", {"grid": g2, "image": {"kind": "affine", "truth": [t10], "a": 1.0, "b": 5.0, "sigma": 0.0, "nseed": 1},
                           "candidate": {"cls": "DiffuseDroplet", "position": [8.2, 7.9], "radius": 3.8, "width": 1.0},
                           "vmin": None, "vmax": None, "adjust": True}))
    # F21 (fixed by b31aa69): candidates away from the symmetry locus
    gcn = {"family": "cylindrical", "radius": 8.0, "bounds_z": [0.0, 16.0], "shape": [8, 16], "periodic_z": False}
    t21 = {"cls": "DiffuseDroplet", "position": [0.0, 0.0, 8.0], "radius": 4.0, "width": 1.0}
    out.append(("corpus", {"grid": gcn, "image": {"kind": "clean", "truth": [t21], "a": 1.0, "b": 0.0, "sigma": 0.0, "nseed": 1},
                           "candidate": {"cls": "DiffuseDroplet", "position": [0.3, 0.4, 8.2], "radius": 4.2, "width": 1.0},
                           "vmin": 0.0, "vmax": 1.0, "adjust": False}))
    gsp = {"family": "spherical", "radius": [0.0, 8.0], "shape": 16}
    t21s = {"cls": "DiffuseDroplet", "position": [0.0, 0.0, 0.0], "radius": 4.0, "width": 1.0}
    out.append(("corpus", {"grid": gsp, "image": {"kind": "clean", "truth": [t21s], "a": 1.0, "b": 0.0, "sigma": 0.0, "nseed": 1},
                           "candidate": {"cls": "DiffuseDroplet", "position": [0.0, 0.0, -0.2], "radius": 4.2, "width": 1.0},
                           "vmin": 0.0, "vmax": 1.0, "adjust": False}))
    # F24: axisymmetric class on a Cartesian 3-d grid
    g3 = {"family": "cartesian", "bounds": [[-4.0, 4.0], [-4.0, 4.0], [0.0, 8.0]], "shape": [8, 8, 8], "periodic": [False] * 3}
    t3 = {"cls": "DiffuseDroplet", "position": [0.0, 0.0, 4.2], "radius": 2.3, "width": 1.0}
    for amps in ([0.0, 0.0], [0.05, 0.0, 0.0]):
        out.append(("F24", {"grid": g3, "image": {"kind": "clean", "truth": [t3], "a": 1.0, "b": 0.0, "sigma": 0.0, "nseed": 1},
                            "candidate": {"cls": "PerturbedDroplet3DAxisSym", "position": [0.0, 0.0, 4.0], "radius": 2.5, "width": 1.0,
                                          "amplitudes": amps}, "vmin": 0.0, "vmax": 1.0, "adjust": False}))
    # F25: image rendered from the candidate, automatic levels that are not fitted
    c25 = {"cls": "DiffuseDroplet", "position": [8.3, 7.6], "radius": 4.5, "width": 1.5}
    out.append(("F25", {"grid": g2, "image": {"kind": "clean", "truth": [c25], "a": 1.0, "b": 0.0, "sigma": 0.0, "nseed": 1},
                        "candidate": copy.deepcopy(c25), "vmin": None, "vmax": None, "adjust": False, "fixed_point": True}))
    for k in range(3):
        fp = rc.gen_fixed_point_case(rng, 6 * k)   # Cartesian 1-d family cycle start: resolvable diffuse droplets
        fp["vmin"], fp["vmax"], fp["adjust"] = (None, None, False) if k else (fp["vmin"], None, False)
        out.append(("F25", fp))
    return out


def strip(case: dict) -> dict:
    return json.loads(json.dumps(case))


def evaluate(ctx, tag: str, case: dict, state: dict):
    """run one case: record, oracle-spec, premise, property oracle, Coq literal"""
    rec = rc.run_refine(case)
    if rec["error"] == "ParentFailed":      # the refinement that produces the candidate object failed: judged as its own case
        ctx.case([tag, case], nontrivial=False)
        ctx.count("outcome:" + tag, "ParentFailed")
        return rec, []
    gs = case["grid"]
    call = rec["calls"][0] if rec["calls"] else None
    moved = call is not None and "x" in call and not np.array_equal(call["x"], call["x0"])
    ctx.case([tag, case], nontrivial=bool(moved or rec["error"]))
    if ctx is not None and tag == "main":
        ctx.count("family", rc.family_name(gs))
        ctx.count("periodic_axes", sum(1 for a in rc.grid_axes(gs) if a[3]))
        ctx.count("candidate_class", case["candidate"]["cls"])
        ctx.count("image", case["image"]["kind"])
        ctx.count("options", f"vmin={'given' if case['vmin'] is not None else 'None'},vmax="
                             f"{'given' if case['vmax'] is not None else 'None'},adjust={case['adjust']}")
        ctx.count("width", "none" if case["candidate"].get("width") is None else "given")
        ctx.count("fixed_point_case", bool(case.get("fixed_point")))
    rc.count_dimensions(ctx, case, rec)
    ctx.count("outcome:" + tag, rec["error"] or "ok")
    state["fits"] += len(rec["calls"])
    # oracle spec of least_squares
    for c in rec["calls"]:
        for s in rc.lsq_spec_failures(c):
            state["spec"].append({"what": "oracle-spec:least_squares " + s, "input": strip(case)})
    fails = rc.c04_oracle(case, rec)
    # premise: the deviation of the RETURNED (normalised) droplet is the cost the optimiser reported
    if rec["error"] is None and call is not None and "cost_at_x" in call and "dev1" in rec:
        if not math.isclose(rec["dev1"] / rec["scale"] ** 2, 2 * call["cost_at_x"], rel_tol=1e-9, abs_tol=1e-18 + rec.get("noise", 0.0)):
            if not any(f["class"] == "cost increased" for f in fails):
                # on periodic cylinders the wrap changes the rendering (F19 -> known finding F22, failure class "cost increased")
                ent = rc.match_known("C04", case, rec, "cost increased")
                if ent is not None:
                    ctx.count("known_finding_hits", ent["id"] + " (premise)")
                else:
                    state["premise"].append({"what": f"premise dev_normalisation_invariant: deviation of the returned droplet {rec['dev1']!r} "
                                                     f"(in units of the squared intensity range: {rec['dev1'] / rec['scale'] ** 2!r}) "
                                                     f"differs from the optimiser's final cost {2 * call['cost_at_x']!r}", "input": strip(case)})
    lit = rc.case_lit(case, rec)
    if lit is not None:
        state["lits"].append(lit)
        state["lit_cases"].append((tag, case))
    else:
        ctx.count("not_expressible_in_model", rc.not_in_model(case) or rec["error"] or "non-finite")
    for f in fails:
        ent = rc.match_known("C04", case, rec, f["class"])
        sus = rc.match_suspected(case, rec, f["class"]) if ent is None else None
        if ent is not None:
            state["known"].setdefault(ent["id"], (ent, f, strip(case)))
            ctx.count("known_finding_hits", ent["id"])
        elif sus is not None:
            state["suspected"].setdefault(sus["id"], (sus, f, strip(case)))
            ctx.count("suspected_not_judged", sus["id"])
        else:
            state["fails"].append({"what": f["what"], "failure": f["class"], "stream": tag, "input": strip(case)})
    if tag.startswith("F") and not fails:
        ctx.count("probe_without_failure", tag)
    return rec, fails


def check(ctx: vlib.Ctx) -> int:
    import droplets
    ctx.extra["implementation"] = str(droplets.__file__)
    rng = random.Random(ctx.seed)
    ok, fresh = rc.prove_with_fallback(ctx, ["Proofs/C04.vo", "Proofs/RefineOptions.vo"], ["Gen_refine", "Gen_refine_R"])
    state = {"fits": 0, "spec": [], "premise": [], "lits": [], "lit_cases": [], "known": {}, "fails": [], "suspected": {}}
    # input dimension 8 (state kept between calls): sessions on shared objects, judged against two fresh reference interpreters
    # that run concurrently with the streams below (harness/refine_state.py); own PRNG
    rng_s = random.Random(ctx.seed + 4)
    sessions = [rs.gen_refine_session(rng_s, k) for k in range(ctx.scale(24, 144) if not ctx.broken else ctx.scale(48, 240))]
    session_tasks = [rs.refine_tasks(s_) for s_ in sessions]
    ref_procs = rs.start_references(session_tasks)
    n_main = ctx.scale(900, 6000) if not ctx.broken else ctx.scale(1500, 9000)
    for k in range(n_main):
        case = rc.gen_case(rng, k) if k % 6 else rc.gen_fixed_point_case(rng, k)
        rec, fails = evaluate(ctx, "main", case, state)
        if k in (1, 8, 20):
            ctx.sample({"case": strip(case), "returned": rec["out"], "error": rec["error"],
                        "cost_start": rec["calls"][0].get("cost0") if rec["calls"] else None,
                        "cost_end": rec["calls"][0].get("cost") if rec["calls"] else None})
    # the dimension stream (notes/input_dimensions.md): grid geometry, active bounds, boundary candidates, image data types,
    # options, provenance, numeric types, repeated refinement -- its own PRNG so that the main stream is unchanged
    rng_d = random.Random(ctx.seed + 2)
    n_dim = ctx.scale(320, 2400) if not ctx.broken else ctx.scale(480, 3200)
    for k in range(n_dim):
        case = rc.gen_dim_case(rng_d, k)
        rec, fails = evaluate(ctx, "dimensions", case, state)
        if k in (9, 18):
            ctx.sample({"case": strip(case), "returned": rec["out"], "error": rec["error"]})
    for tag, case in probe_cases(random.Random(ctx.seed + 1)):
        evaluate(ctx, tag, case, state)
    state["fails"].extend(rs.judge_sessions(ctx, "refine", sessions, session_tasks, ref_procs))
    ctx.extra["fits"] = state["fits"]
    # (b) correspondence inside Coq
    if ok:
        bad = vlib.run_cases(ctx, "refine", rc.CASE_HEADER, state["lits"], "agree", shard=60)
        for b in bad[:3]:
            tag, case = state["lit_cases"][b]
            ctx.broken.append(f"correspondence refine_droplet: model and implementation differ (stream {tag}) on {json.dumps(strip(case))[:600]}")
        ctx.extra["correspondence_cases"] = len(state["lits"])
        ctx.extra["correspondence_disagreements"] = len(bad)
    for s in state["spec"][:3]:
        ctx.broken.append(s["what"][:300])
    for s in state["premise"][:3]:
        ctx.broken.append(s["what"][:300])
    # (c) violations: at most two inputs per failure class; oracle-spec / premise failures carry their input
    seen: dict = {}
    for f in state["fails"]:
        seen[f["failure"]] = seen.get(f["failure"], 0) + 1
        if seen[f["failure"]] <= 2 and len(ctx.violations) < 10:
            ctx.violations.append({**f, "found": True, "broken": ctx.broken[:3]})
    for s in (state["spec"][:1] + state["premise"][:1]):
        if len(ctx.violations) < 10:
            ctx.violations.append({"what": s["what"], "input": s["input"], "found": True, "broken": ctx.broken[:3]})
    ctx.extra["oracle_failures_total"] = len(state["fails"])
    ctx.extra["failure_classes"] = seen
    for sid in sorted(state["suspected"]):
        sus, f, case = state["suspected"][sid]
        ctx.notes.append(f"SUSPECTED {sid} (reported, not judged; {ctx.hist.get('suspected_not_judged', {}).get(sid, 0)} input(s) in this run): "
                         f"{sus['what']} -- e.g. {f['what'][:200]} on input {json.dumps(case)[:600]}")
    ctx.extra["suspected"] = [{"id": e["id"], "failure": e["failure"], "condition": e["condition"]} for e in rc.SUSPECTED]
    for fid in sorted(state["known"]):
        ent, f, case = state["known"][fid]
        ctx.known_printed.append(f"{fid}: {ent['what'][:160]} -- e.g. {f['what'][:160]} on input {json.dumps(case)[:700]}")
    return vlib.finish(ctx, "", TRUSTED, ASSUME, RULE)


def replay(path: str) -> int:
    obj = json.load(open(path))
    print(json.dumps(obj, indent=1)[:3000])
    case = obj.get("input")
    if isinstance(case, dict) and "cA" in case:
        fails = rs.replay_session(case)
        for f in fails:
            print("  property failure:", f["class"], "--", f["what"][:400])
        print("property oracle on the current tree:", "fails" if fails else "holds")
        return 1 if fails else 0
    if isinstance(case, dict) and "candidate" in case:
        rec = rc.run_refine(case)
        fails = rc.c04_oracle(case, rec)
        spec = [s for c in rec["calls"] for s in rc.lsq_spec_failures(c)]
        print("returned:", rec["out"], " error:", rec.get("error_message"))
        for f in fails:
            ent = rc.match_known("C04", case, rec, f["class"])
            sus = rc.match_suspected(case, rec, f["class"])
            print("  property failure:", f["class"], "--", f["what"][:300], "(known finding " + ent["id"] + ")" if ent else
                  "(suspected " + sus["id"] + ", not judged)" if sus else "")
        for s in spec:
            print("  oracle-spec failure:", s[:300])
        bad = [f for f in fails if rc.match_known("C04", case, rec, f["class"]) is None and rc.match_suspected(case, rec, f["class"]) is None]
        print("property oracle on the current tree:", "fails" if (bad or spec) else "holds")
        return 1 if (bad or spec) else 0
    print("no stored input (an obligation or the correspondence stopped checking); see `no_longer_checks`")
    return 0
