"""C04 -- stub while developing (replaced below)."""
import vlib
def check(ctx):
    ok = vlib.prove(ctx, ["Model/Refine.vo"], gens=["Gen_refine", "Gen_refine_R"])
    return 0
